/-
  C14 — sync never overwrites conflicts unless told to; failed document syncs roll back.

  Same model as C13 (Signac/Sync.lean).  "Differs" is the comparison in force: `filecmp`'s
  shallow rule (same (size, mtime) ⇒ same) unless `deep`, see `differs_shallow` / C15.
  Property theorems only; proofs in Signac/Proofs/Sync*.lean.
-/
import Signac.Proofs.SyncMore
import Signac.Proofs.SyncConflictExact
namespace Signac.C14
open Signac Signac.Sync

/-- `file_overwrite_iff`: a file present on both sides (`Both`: reached through directories common
    to both, below the top level only when `recursive`) that differs and whose name is not excluded
    carries the source's bytes after a successful real `sync_jobs` iff the strategy's verdict for its
    job-relative path is "overwrite"; otherwise it is exactly the old destination file. -/
theorem file_overwrite_iff (o : Opts) (hdry : o.dry = false) (sjob djob : Entries) (n : Name) (p : Path)
    (ms md : FMeta) (hwf : WFEntries sjob) (hb : Both sjob djob n p ms md)
    (hrec : p ≠ [] → o.recursive = true)
    (hdiff : differs o.deep ms md = true) (hx : excluded o (lastName n p) = false)
    (h1 : n ≠ Extracted.FN_JOB_DOCUMENT) (h2 : n ≠ Extracted.FN_JOB_DOCUMENT ++ "~")
    (hok : (syncJobDirs o sjob djob).err = none) :
    (lookupP n p (syncJobDirs o sjob djob).d = some (.file (touch o.now ms)) ↔
      verdict o (n :: p) ms md = some true) ∧
    (verdict o (n :: p) ms md ≠ some true →
      lookupP n p (syncJobDirs o sjob djob).d = some (.file md)) := by
  rw [syncJobDirs_lookup o sjob djob n p h1 h2]
  have hwalk := syncJobDirs_walk_ok o sjob djob hok
  have kept : verdict o (n :: p) ms md ≠ some true →
      lookupP n p (walkDir o [] (.dir sjob) djob).d = some (.file md) := fun hv =>
    walk_file_kept o hb [] hwf (by simpa using fun _ _ => hv)
  refine ⟨⟨fun h => ?_, fun hv => ?_⟩, kept⟩
  · apply Classical.byContradiction
    intro hv
    rw [kept hv] at h
    exact differs_ne_touch o.deep o.now ms md hdiff (by injection h)
  · exact walk_file_overwritten o hdry hb [] hwf hrec hdiff hx (by simpa using hv) hwalk

/-- Untouched otherwise, in every run (also failed and dry ones): unless the file is a
    non-excluded conflict with verdict "overwrite", the destination file is exactly what it was. -/
theorem file_untouched_otherwise (o : Opts) (sjob djob : Entries) (n : Name) (p : Path)
    (ms md : FMeta) (hwf : WFEntries sjob) (hb : Both sjob djob n p ms md)
    (h1 : n ≠ Extracted.FN_JOB_DOCUMENT) (h2 : n ≠ Extracted.FN_JOB_DOCUMENT ++ "~")
    (hk : ¬ (differs o.deep ms md = true ∧ excluded o (lastName n p) = false ∧
        verdict o (n :: p) ms md = some true)) :
    lookupP n p (syncJobDirs o sjob djob).d = some (.file md) := by
  rw [syncJobDirs_lookup o sjob djob n p h1 h2]
  exact walk_file_kept o hb [] hwf (by simpa using hk)

/-- `no_strategy_conflict`: with no strategy, a reachable differing non-excluded file makes
    `sync_jobs` raise FileSyncConflict, and that file is untouched. -/
theorem no_strategy_conflict (o : Opts) (sjob djob : Entries) (n : Name) (p : Path)
    (ms md : FMeta) (hwf : WFEntries sjob) (hb : Both sjob djob n p ms md)
    (hrec : p ≠ [] → o.recursive = true)
    (hdiff : differs o.deep ms md = true) (hx : excluded o (lastName n p) = false)
    (h1 : n ≠ Extracted.FN_JOB_DOCUMENT) (h2 : n ≠ Extracted.FN_JOB_DOCUMENT ++ "~")
    (hst : o.strategy = Strategy.none) :
    (∃ fn, (syncJobDirs o sjob djob).err = some (.fileConflict fn)) ∧
    lookupP n p (syncJobDirs o sjob djob).d = some (.file md) := by
  refine ⟨?_, ?_⟩
  · have hne := walk_conflict_fails o hb [] hwf hrec hdiff hx hst
    cases he : (walkDir o [] (.dir sjob) djob).err with
    | none => exact absurd he hne
    | some e =>
      obtain ⟨fn, hfn⟩ := walkDir_err_kind o [] (.dir sjob) djob e he
      refine ⟨fn, ?_⟩
      simp only [syncJobDirs, he, hfn]
  · apply file_untouched_otherwise o sjob djob n p ms md hwf hb h1 h2
    rintro ⟨_, _, hv⟩
    have := (verdict_none_iff o (n :: p) ms md).mpr hst
    rw [this] at hv; cases hv

/-- `bykey_selective`: a key — at any depth below mappings present on both sides — whose source
    value is not a mapping and not `==` to the destination value (`DocConf`) is overwritten iff
    the key strategy selects its dotted key; otherwise it keeps its value and its dotted key is
    recorded (and raised in DocumentSyncConflict when there is no key strategy). -/
theorem bykey_selective (ks : Option (String → Bool)) (s d : Doc) (p : List String) (v w : JVal)
    (key : String) (hc : DocConf "" s d p v w key)
    (hte : (byKeyItems ks "" s ⟨d, [], false, false⟩).typeErr = false) :
    docGet (runDocSync (.byKey ks) s d).doc p = some (if keySelected ks key then v else w) ∧
    (ks = none → ∃ keys', (runDocSync (.byKey ks) s d).err = some (.docConflict keys') ∧ key ∈ keys') := by
  have h := byKeyItems_selective ks hc ⟨d, [], false, false⟩ rfl hte
  refine ⟨?_, ?_⟩
  · simp only [runDocSync, hte, Bool.false_eq_true, if_false]
    cases ks with
    | none => cases hsk : (byKeyItems none "" s ⟨d, [], false, false⟩).skipped <;> simpa using h.1
    | some f => simpa using h.1
  · intro hks
    subst hks
    have hin := h.2 rfl
    rw [runDocSync_default_err, hte]
    simp only [Bool.false_eq_true, if_false]
    cases hsk : (byKeyItems none "" s ⟨d, [], false, false⟩).skipped with
    | nil => rw [hsk] at hin; cases hin
    | cons k rest => exact ⟨k :: rest, rfl, by rw [← hsk]; exact hin⟩

/-- `doc_rollback`: whenever the document merge raises (DocumentSyncConflict or anything else
    inside the backup context) the destination directory — in particular the document file, node
    for node, and no backup file left behind — is exactly what it was before the merge. -/
theorem doc_rollback (o : Opts) (fn : Name) (src : Entries) (a : Acc) (e : Err)
    (h : (syncDoc o fn src a).err = some e) (hne : (docOf fn a.d).isEmpty = false)
    (hnodir : ∀ x, getE (fn ++ "~") a.d ≠ some (.dir x)) :
    (syncDoc o fn src a).d = a.d := by
  unfold syncDoc at h ⊢
  cases hds : o.docSync with
  | noSync => simp [hds] at h
  | copy => simp [hds] at h
  | update =>
    simp only [hds] at h ⊢
    exact mergeDocs_rollback o _ fn src a e h hne hnodir
  | byKey ks =>
    simp only [hds] at h ⊢
    exact mergeDocs_rollback o _ fn src a e h hne hnodir

/-- an empty destination document cannot be rolled back to anything else: its content stays empty
    when the merge raises (the in-memory backup branch) -/
theorem doc_rollback_empty (ds : DocSync) (s : Doc) (hnd : (keys s).Nodup) :
    (runDocSync ds s []).err = none := runDocSync_fresh ds s hnd

/-- `update_overwrites_all`: `DocSync.update` never raises, sets every key of the source document
    and leaves every other key alone. -/
theorem update_overwrites_all (s d : Doc) (hnd : (keys s).Nodup) :
    (runDocSync .update s d).err = none ∧
    (∀ k v, lookupKV k s = some v → lookupKV k (runDocSync .update s d).doc = some v) ∧
    (∀ k, k ∉ keys s → lookupKV k (runDocSync .update s d).doc = lookupKV k d) :=
  runDocSync_update s d hnd

/-- `nosync_none`: with NO_SYNC (and with COPY, where the document is an ordinary file) the
    document merge does nothing at all: no step, no change, no error. -/
theorem nosync_none (o : Opts) (fn : Name) (src : Entries) (a : Acc)
    (h : o.docSync = .noSync ∨ o.docSync = .copy) :
    syncDoc o fn src a = ⟨a.d, a.log, none⟩ := syncDoc_noSync o fn src a h

/-- The shallow comparison rule the non-deep statements are relative to. -/
theorem differs_shallow_rule (a b : FMeta) :
    differs false a b = true ↔
      ¬ (a.size = b.size ∧ a.mtime = b.mtime) ∧ (a.size ≠ b.size ∨ a.cid ≠ b.cid) := differs_shallow a b

/-! non-vacuity -/

def exOpts (st : Strategy) : Opts :=
  { strategy := st, docSync := .byKey none, recursive := true,
    userExcl := fun n => n == "skip.log",
    spPat := fun n => n == Extracted.FN_STATE_POINT,
    docPat := fun n => n == Extracted.FN_JOB_DOCUMENT || n == Extracted.FN_JOB_DOCUMENT ++ "~",
    selection := none, checkSchema := false, gate := false, dry := false, deep := false, now := 9 }

def exSrcJob : Entries :=
  [("both", .file ⟨4, 1, 7, none⟩), ("sub", .dir [("x", .file ⟨3, 2, 5, none⟩)])]
def exDstJob : Entries :=
  [("both", .file ⟨5, 1, 5, none⟩), ("sub", .dir [("x", .file ⟨7, 3, 5, none⟩)])]

example : WFEntries exSrcJob ∧ Both exSrcJob exDstJob "both" [] ⟨4, 1, 7, none⟩ ⟨5, 1, 5, none⟩ ∧
    Both exSrcJob exDstJob "sub" ["x"] ⟨3, 2, 5, none⟩ ⟨7, 3, 5, none⟩ ∧
    differs false ⟨4, 1, 7, none⟩ ⟨5, 1, 5, none⟩ = true ∧
    excluded (exOpts .update) (lastName "sub" ["x"]) = false ∧
    (syncJobDirs (exOpts .update) exSrcJob exDstJob).err = none ∧
    verdict (exOpts .update) ["both"] ⟨4, 1, 7, none⟩ ⟨5, 1, 5, none⟩ = some true ∧
    verdict (exOpts .update) ["sub", "x"] ⟨3, 2, 5, none⟩ ⟨7, 3, 5, none⟩ = some false ∧
    (exOpts .none).strategy = Strategy.none :=
  ⟨by simp [WFEntries, WFNode, exSrcJob, names], Both.top (by rfl) (by rfl),
   Both.sub (sch := [("x", .file ⟨3, 2, 5, none⟩)]) (dch := [("x", .file ⟨7, 3, 5, none⟩)]) (by rfl) (by rfl)
     (Both.top (by rfl) (by rfl)),
   by decide, by decide, by decide, by decide, by decide, rfl⟩

example : DocConf "" [("n", .obj [("q", .obj [("r", .int 1)])])] [("n", .obj [("q", .obj [("r", .int 2)])])]
    ["n", "q", "r"] (.int 1) (.int 2) "n.q.r" :=
  DocConf.sub (by decide) (by rfl) (by rfl) (by decide)
    (DocConf.sub (by decide) (by rfl) (by rfl) (by decide)
      (DocConf.leaf (by decide) (by rfl) (by rfl) (by decide) (by simp [IsLeaf])))

example : ∃ e, (syncDoc (exOpts .none) "doc" [("doc", .file ⟨1, 8, 5, some (.obj [("x", .int 1)])⟩)]
    ⟨[("doc", .file ⟨2, 8, 5, some (.obj [("x", .int 2)])⟩)], []⟩).err = some e :=
  ⟨.docConflict ["x"], by rfl⟩

/-! ### the payload of DocumentSyncConflict is exactly the set of conflicting keys

  Hypotheses: the *source* document has pairwise distinct keys in every mapping (`NodupKeysObj`,
  the predicate the idempotence theorems of C13 use; true of everything `json.loads` returns)
  and the merge did not hit a TypeError.  Nothing is assumed of the destination document. -/

/-- the payload as a list, order included: the specification `confItems` (Proofs/SyncConflictExact) -/
theorem conflict_payload_eq (s d : Doc) (keys' : List String) (hs : NodupKeysObj s)
    (hte : (byKeyItems none "" s ⟨d, [], false, false⟩).typeErr = false)
    (herr : (runDocSync (.byKey none) s d).err = some (.docConflict keys')) :
    keys' = confItems none "" s d := by
  rw [runDocSync_conflict_payload hte herr, byKeyItems_skipped_spec none s d hs hte]

/-- `conflict_payload_exact`: without key strategy, the keys DocumentSyncConflict reports are
    exactly the conflicting keys (`DocConf`), nothing else. -/
theorem conflict_payload_exact (s d : Doc) (keys' : List String) (hs : NodupKeysObj s)
    (hte : (byKeyItems none "" s ⟨d, [], false, false⟩).typeErr = false)
    (herr : (runDocSync (.byKey none) s d).err = some (.docConflict keys')) :
    ∀ key, key ∈ keys' ↔ ∃ p v w, DocConf "" s d p v w key := by
  intro key
  rw [conflict_payload_eq s d keys' hs hte herr, mem_confItems_iff_docConf none "" s d hs key]
  simp [keySelected]

/-- `conflict_payload_nodup` is FALSE of the model (and of the code): dotted keys collide.  With
    source `{"a.b": 1, "a": {"b": 1}}` and destination `{"a.b": 2, "a": {"b": 2}}` — both with
    distinct keys in every mapping — the payload is `["a.b", "a.b"]`. -/
theorem conflict_payload_nodup_false :
    ¬ (∀ (s d : Doc) (keys' : List String), NodupKeysObj s → NodupKeysObj d →
        (byKeyItems none "" s ⟨d, [], false, false⟩).typeErr = false →
        (runDocSync (.byKey none) s d).err = some (.docConflict keys') → keys'.Nodup) := by
  intro h
  obtain ⟨h1, h2, h3, h4, h5⟩ := conflict_payload_dup_witness
  exact h5 (h dupSrc dupDst _ h1 h2 h3 h4)

/-- `conflict_payload_nodup_partial`: the payload has no duplicates under the extra hypothesis
    `DotFreeObj s` — no key of the source document, in any mapping reached through mappings,
    contains a dot. -/
theorem conflict_payload_nodup_partial (s d : Doc) (keys' : List String) (hs : NodupKeysObj s)
    (hdot : DotFreeObj s)
    (hte : (byKeyItems none "" s ⟨d, [], false, false⟩).typeErr = false)
    (herr : (runDocSync (.byKey none) s d).err = some (.docConflict keys')) :
    keys'.Nodup := by
  rw [conflict_payload_eq s d keys' hs hte herr]
  exact confItems_nodup none "" s d hs hdot

/-- `no_conflict_no_error`: with no conflicting key (and no TypeError) the default `ByKey` merge
    does not raise. -/
theorem no_conflict_no_error (s d : Doc) (hs : NodupKeysObj s)
    (hte : (byKeyItems none "" s ⟨d, [], false, false⟩).typeErr = false)
    (hno : ∀ key p v w, ¬ DocConf "" s d p v w key) :
    (runDocSync (.byKey none) s d).err = none := by
  rw [runDocSync_default_err, hte]
  simp only [Bool.false_eq_true, if_false]
  cases hsk : (byKeyItems none "" s ⟨d, [], false, false⟩).skipped with
  | nil => rfl
  | cons k rest =>
    exfalso
    have hk : k ∈ confItems none "" s d := by
      rw [← byKeyItems_skipped_spec none s d hs hte, hsk]; exact List.mem_cons_self
    obtain ⟨⟨p, v, w, hc⟩, _⟩ := (mem_confItems_iff_docConf none "" s d hs k).mp hk
    exact hno k p v w hc

/-- `bykey_skipped_exact`: with a key strategy `f` the model does record the skipped keys (the
    code only logs them): they are exactly the conflicting keys `f` does not select — as a list,
    `confItems (some f) "" s d`, without duplicates when no key contains a dot. -/
theorem bykey_skipped_exact (f : String → Bool) (s d : Doc) (hs : NodupKeysObj s)
    (hte : (byKeyItems (some f) "" s ⟨d, [], false, false⟩).typeErr = false) :
    (∀ key, key ∈ (byKeyItems (some f) "" s ⟨d, [], false, false⟩).skipped ↔
      (∃ p v w, DocConf "" s d p v w key) ∧ f key = false) ∧
    (DotFreeObj s → (byKeyItems (some f) "" s ⟨d, [], false, false⟩).skipped.Nodup) := by
  rw [byKeyItems_skipped_spec (some f) s d hs hte]
  exact ⟨fun key => by rw [mem_confItems_iff_docConf (some f) "" s d hs key]; simp [keySelected],
    fun hdot => confItems_nodup (some f) "" s d hs hdot⟩

/-! non-vacuity: two nested conflicts (`a.x`, `a.y.z`), an equal key (`b`), a key only the
    destination has (`a.only`) and a key only the source has (`c`) -/

def exDocSrc : Doc :=
  [("a", .obj [("x", .int 1), ("y", .obj [("z", .int 2)])]), ("b", .int 3), ("c", .int 4)]
def exDocDst : Doc :=
  [("a", .obj [("x", .int 10), ("y", .obj [("z", .int 20)]), ("only", .int 5)]), ("b", .int 3)]

example : NodupKeysObj exDocSrc ∧ DotFreeObj exDocSrc ∧
    (byKeyItems none "" exDocSrc ⟨exDocDst, [], false, false⟩).typeErr = false ∧
    (runDocSync (.byKey none) exDocSrc exDocDst).err = some (.docConflict ["a.x", "a.y.z"]) ∧
    confItems none "" exDocSrc exDocDst = ["a.x", "a.y.z"] ∧
    docGet (runDocSync (.byKey none) exDocSrc exDocDst).doc ["a", "only"] = some (.int 5) :=
  ⟨by simp [exDocSrc, NodupKeysObj, NodupKeysVal],
   by simp [exDocSrc, DotFreeObj, DotFreeVal, dotFree], by rfl, by rfl, by rfl, by rfl⟩

example : DocConf "" exDocSrc exDocDst ["a", "y", "z"] (.int 2) (.int 20) "a.y.z" :=
  DocConf.sub (by decide) (by rfl) (by rfl) (by decide)
    (DocConf.sub (by decide) (by rfl) (by rfl) (by decide)
      (DocConf.leaf (by decide) (by rfl) (by rfl) (by decide) (by simp [IsLeaf])))

/-- with the key strategy "select `a.x` only": `a.y.z` is the one skipped key, no error -/
example : (byKeyItems (some (fun k => k == "a.x")) "" exDocSrc ⟨exDocDst, [], false, false⟩).skipped = ["a.y.z"] ∧
    (runDocSync (.byKey (some (fun k => k == "a.x"))) exDocSrc exDocDst).err = none ∧
    docGet (runDocSync (.byKey (some (fun k => k == "a.x"))) exDocSrc exDocDst).doc ["a", "x"] = some (.int 1) :=
  ⟨by rfl, by rfl, by rfl⟩

/-- no conflict (the documents differ only in keys one side lacks): no error -/
example : (runDocSync (.byKey none) [("b", .int 3), ("c", .int 4)] exDocDst).err = none ∧
    ∀ key p v w, ¬ DocConf "" [("b", .int 3), ("c", .int 4)] exDocDst p v w key := by
  refine ⟨by rfl, fun key p v w hc => ?_⟩
  have := (mem_confItems_iff_docConf none "" [("b", .int 3), ("c", .int 4)] exDocDst
    (by simp [NodupKeysObj, NodupKeysVal]) key).mpr ⟨⟨p, v, w, hc⟩, rfl⟩
  have h0 : confItems none "" [("b", .int 3), ("c", .int 4)] exDocDst = [] := by rfl
  rw [h0] at this
  cases this

end Signac.C14

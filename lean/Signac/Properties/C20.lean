/-
  C20 — incompatible schema versions are refused, and migration preserves every job.
  Property theorems only; helper lemmas live in Signac/Proofs/MigChain.lean, MigGate.lean.

  `Disc.*` is the model of Project() / get_project / init_project (Signac/Discovery.lean);
  `Mig.*` the model of apply_migrations on a project root directory (Signac/Migration.lean).
  `SCHEMA` is `Signac.Extracted.SCHEMA_VERSION`, regenerated from the running package.
-/
import Signac.Extracted
import Signac.Migration
import Signac.Discovery
import Signac.Proofs.MigChain
import Signac.Proofs.MigGate
import Signac.PyInt
import Signac.Proofs.PyIntLemmas
import Signac.DiscoveryS
import Signac.Proofs.DiscoverySLemmas
import Signac.MigrationS
import Signac.Proofs.MigrationSLemmas
namespace Signac.C20
open Signac Signac.Mig Signac.Disc

/-- The gate lets exactly the supported version through. -/
theorem gate_exact (v : Nat) : gate v = .ok ↔ v = SCHEMA := gate_ok_iff v

/-- Current layout (`.signac/config`) declaring any other version (an absent key counts as 1):
    Project(), get_project (searching or not) and init_project all raise
    IncompatibleSchemaVersion and perform no mutating step.  Every version number, every tree. -/
theorem gate_refuses (t : Tree) (p : Path) (v : Option Nat) (hc : t.cfg p = some v)
    (hv : v.getD 1 ≠ SCHEMA) (hk : t.kind p ≠ .absent) :
    openProject t p = (.error .incompatible, [])
    ∧ (∀ s, getProject t p s = (.error .incompatible, []))
    ∧ initProject t p = (.error .incompatible, []) :=
  ⟨openProject_refused t p v hc hv, getProject_refused t p v hc hv hk,
   initProject_refused t p v hc hv hk⟩

/-- Legacy layout (`signac.rc`, no `.signac/config`) declaring any version other than the
    supported one: Project() and init_project raise IncompatibleSchemaVersion without a mutating
    step; get_project never returns the directory as a project — it raises LookupError without
    search, and IncompatibleSchemaVersion with search unless an initialised project encloses
    the directory (then that one is what discovery is about, C19). -/
theorem gate_refuses_legacy (t : Tree) (p : Path) (v : Nat) (hc : t.cfg p = none)
    (hr : t.rc p = some v) (hv : v ≠ SCHEMA) :
    openProject t p = (.error .incompatible, [])
    ∧ initProject t p = (.error .incompatible, [])
    ∧ getProject t p false = (.error .lookup, [])
    ∧ (t.kind p ≠ .absent → (∀ r, r <:+ p → isProject t r = false) →
        getProject t p true = (.error .incompatible, []))
    ∧ (∀ s, (getProject t p s).1 ≠ .ok p) :=
  ⟨openProject_legacy t p v hc hr hv, initProject_legacy t p v hc hr hv,
   getProject_nosearch_legacy t p hc,
   fun hk hn => getProject_search_legacy t p v hr hv hk hn,
   getProject_never_legacy t p hc⟩

/-- Migrating a well-formed legacy project (version 0 or 1, any project name, default or custom
    workspace directory, with or without cache / history files) that does not collide: the
    chain succeeds, the result passes the gate, and a reader sees exactly the same job data
    (the subtree that was the configured workspace is now `workspace`, untouched); the v1 cache
    and history files arrive byte-identical at their v2 places; every other entry of the root,
    and everything else, is untouched; the project name (unless the default "None") is in the
    project document whose other keys are unchanged; no lock file is left. -/
theorem migrate_preserves (L : Proj) (c : Conf) (name : String) (wf : WellFormed L c name)
    (hcol : ¬ Collides L c) :
    let P := (applyMigrations L).1
    (applyMigrations L).2 = .ok
    ∧ (openVersion P).map gate = some .ok
    ∧ jobsOf P = jobsOf L
    ∧ P.cacheNew = (if L.cacheOld.isSome then L.cacheOld else L.cacheNew)
    ∧ P.histNew = (if L.histOld.isSome then L.histOld else L.histNew)
    ∧ (∀ k, k ≠ wsName c → k ≠ "workspace" → P.ents.lookup k = L.ents.lookup k)
    ∧ P.rest = L.rest ∧ P.lock = false ∧ P.rc = none
    ∧ (name = "None" → P.doc = L.doc)
    ∧ (name ≠ "None" → ∃ d, P.doc = some d ∧ d.lookup "signac_project_name" = some (.str name)
        ∧ ∀ k, k ≠ "signac_project_name" → d.lookup k = (L.doc.getD []).lookup k) := by
  intro P
  have hws : L.ents.lookup "workspace" = none ∨ wsName c = "workspace" := by
    by_cases hw : wsName c = "workspace"
    · exact Or.inr hw
    · left
      cases hl : L.ents.lookup "workspace" with
      | none => rfl
      | some b => exact absurd ⟨hw, by simp [hasEnt, hl]⟩ hcol
  have h : applyMigrations L = (migrated L c name, .ok) := applyMigrations_wf L c name wf hcol
  have hP : P = migrated L c name := by simp only [P, h]
  rw [hP]
  refine ⟨by rw [h], ?_, ?_, rfl, rfl, ?_, rfl, rfl, rfl, ?_, ?_⟩
  · simp [openVersion, migrated, (gate_ok_iff 2).mpr schema_eq.symm]
  · simp only [jobsOf, migrated, wf.cfg, wf.rc]
    by_cases hw : wsName c = "workspace"
    · simp [hw]
    · simp only [hw, ne_eq, not_false_eq_true, if_true]
      rcases hws with h0 | h0
      · exact lookup_renameEnt_dst _ _ _ h0
      · exact absurd h0 hw
  · intro k h1 h2
    simp only [migrated]
    by_cases hw : wsName c = "workspace"
    · simp [hw]
    · simp only [hw, ne_eq, not_false_eq_true, if_true]
      exact lookup_renameEnt_other _ _ _ _ h1 h2
  · intro hn; simp [migrated, hn]
  · intro hn
    refine ⟨docSet "signac_project_name" (.str name) (L.doc.getD []),
      by simp only [migrated, hn, ne_eq, not_false_eq_true, if_true], ?_, ?_⟩
    · exact lookup_docSet_self _ _ _
    · intro k hk; exact lookup_docSet_other _ _ _ _ hk

/-- A configured workspace directory that would have to replace an existing `workspace`:
    the migration fails and moves nothing — entries, documents, cache, history and everything
    else are as before; only the 0 → 1 version bump may have been written to `signac.rc`. -/
theorem migrate_refuses_collision (L : Proj) (c : Conf) (name : String) (hrc : L.rc = some c)
    (hp : c.project = some name) (hv : c.version.getD 0 ≤ 1) (hcfg : L.cfg = none)
    (hcol : Collides L c) :
    applyMigrations L =
      ({ L with lock := false, rc := some { c with version := some 1 } }, .failed 2) :=
  applyMigrations_collision L c name hrc hp hv hcfg hcol

/-- Migrating an up-to-date project is a no-op. -/
theorem migrate_uptodate_noop (L : Proj) (c : Conf) (hcfg : L.cfg = some c)
    (hv : c.version = some SCHEMA) (hl : L.lock = false) : applyMigrations L = (L, .ok) := by
  rw [applyMigrations_uptodate L c hcfg hv]
  cases L; simp only at hl; simp [hl]

/-- Migrating twice = migrating once. -/
theorem migrate_idempotent (L : Proj) (c : Conf) (name : String) (wf : WellFormed L c name)
    (hcol : ¬ Collides L c) :
    applyMigrations (applyMigrations L).1 = ((applyMigrations L).1, .ok) := by
  rw [applyMigrations_wf L c name wf hcol]
  exact migrate_uptodate_noop _ _ rfl (by rw [schema_eq]) rfl

/-- A project written by a newer signac is refused by the migration as well, untouched. -/
theorem migrate_refuses_newer (L : Proj) (v : Nat) (hl : L.lock = false)
    (hd : detect { L with lock := true } SCHEMA = some v) (hv : v > SCHEMA) :
    applyMigrations L = (L, .tooNew) := by
  rw [applyMigrations_tooNew L v hd hv]
  cases L; simp only at hl; simp [hl]

/-- The chain the model hard-wires is the one the running package registers. -/
theorem chain_tie :
    Extracted.MIGRATION_KEYS = [(0, 1), (1, 2)] ∧ Extracted.CONFIG_LOADER_VERSIONS = [1, 2]
    ∧ Extracted.SCHEMA_VERSION = 2 ∧ Extracted.PROJECT_CONFIG_FN = ".signac/config"
    ∧ Extracted.FN_CACHE = ".signac/statepoint_cache.json.gz" := by decide

/-! ### non-vacuity -/

/-- a version-0 project named "my project" with custom workspace `data/ws`, cache and history,
    an unrelated directory and an existing project document -/
def exLegacy : Proj :=
  { rc := some { version := none, project := some "my project", wsDir := some "data/ws" }
    cfg := none, dotSignac := false
    ents := [("other", "o1"), ("data/ws", "jobs-digest")]
    doc := some [("k", .int 1)]
    cacheOld := some "cache-bytes", histOld := some "history-bytes"
    cacheNew := none, histNew := none, lock := false, rest := "rest-digest" }

def exConf : Conf := { version := none, project := some "my project", wsDir := some "data/ws" }

example : WellFormed exLegacy exConf "my project" ∧ ¬ Collides exLegacy exConf :=
  ⟨⟨rfl, rfl, by decide, rfl, rfl, fun _ => by decide⟩, by unfold Collides; decide⟩

/-- and the model really moves it -/
example : jobsOf (applyMigrations exLegacy).1 = some "jobs-digest"
    ∧ (applyMigrations exLegacy).1.cacheNew = some "cache-bytes" := by decide

/-- the same project with something already called `workspace` collides -/
example : Collides { exLegacy with ents := ("workspace", "precious") :: exLegacy.ents } exConf := by
  unfold Collides; decide

/-- gate hypotheses: versions 0, 1, 3, 10 and an absent key are all refused -/
example : ∀ v ∈ [some 0, some 1, some 3, some 10, none], (v : Option Nat).getD 1 ≠ SCHEMA := by decide

example : (2 : Nat) = SCHEMA ∧ gate 2 = .ok := by decide

/-! ### the version is a STRING in the config file

`schema_version` is a string (configspec `string(default='1')`) that the code converts with
Python's `int()`.  `PyInt.pyInt` models that conversion for ASCII input (`none` = ValueError),
`PyInt.gateStr` the whole of `_check_schema_compatibility` on the string.  Helper lemmas:
Signac/Proofs/PyIntLemmas.lean. -/
open Signac.PyInt

/-- Every version number the code itself writes (`config["schema_version"] = destination`,
    `str` of an int) parses back to that number. -/
theorem pyInt_repr (n : Nat) : pyInt (toString n) = some n := pyInt_toString n

theorem pyInt_neg_repr (n : Nat) : pyInt ("-" ++ toString n) = some (-(n : Int)) :=
  pyInt_neg_toString n

/-- The string gate lets exactly the strings through that `int()` reads as the supported version. -/
theorem gateStr_exact (s : String) : gateStr s = .ok ↔ pyInt s = some (SCHEMA : Int) :=
  gateStr_ok_iff s

/-- … every other string is refused: ValueError if it is not an integer literal,
    IncompatibleSchemaVersion otherwise. -/
theorem gateStr_refuses (s : String) (h : pyInt s ≠ some (SCHEMA : Int)) : gateStr s ≠ .ok :=
  fun hg => h ((gateStr_exact s).mp hg)

/-- which of the two refusals -/
theorem gateStr_refusal (s : String) (h : pyInt s ≠ some (SCHEMA : Int)) :
    gateStr s = (if pyInt s = none then .valueError else .incompatible) := by
  have hne := gateStr_refuses s h
  unfold gateStr at hne ⊢
  cases hp : pyInt s with
  | none => simp
  | some v =>
    rw [hp] at hne
    simp only [reduceCtorEq, if_false]
    split
    · rfl
    · split
      · rfl
      · rename_i h1 h2; simp only [h1, h2, if_false] at hne; exact absurd rfl hne

/-- On the strings the code writes, the string gate is the `Nat` gate of the rest of the model. -/
theorem gateStr_nat (n : Nat) :
    gateStr (toString n) = (match gate n with | .ok => .ok | .incompatible => .incompatible) :=
  gateStr_toString n

/-- More generally: on every string that `int()` reads as a natural number (leading zeros, a
    `+`, underscores, surrounding blanks) the string gate is the `Nat` gate on that number; every
    other string (not an integer literal, or negative) is refused. -/
theorem gateStr_declared (s : String) :
    (∀ n, declared s = some n →
      gateStr s = (match gate n with | .ok => .ok | .incompatible => .incompatible))
    ∧ (declared s = none → gateStr s ≠ .ok) :=
  ⟨fun n h => gateStr_of_declared s n h, gateStr_of_not_declared s⟩

/-- `int()` accepts nothing but ASCII digits, underscores, a sign and the six ASCII blanks. -/
theorem pyInt_digits_only (s : String) (v : Int) (h : pyInt s = some v) :
    ∀ c ∈ s.toList, c.isDigit = true ∨ c = '_' ∨ c = '+' ∨ c = '-' ∨ isWs c = true :=
  pyInt_chars s v h

/-- so a string with any other character — a dot, an exponent, a letter, a NUL, any non-ASCII
    character — is a ValueError, never a version -/
theorem pyInt_rejects (s : String) (c : Char) (hc : c ∈ s.toList) (h1 : c.isDigit = false)
    (h2 : c ≠ '_') (h3 : c ≠ '+') (h4 : c ≠ '-') (h5 : isWs c = false) : pyInt s = none := by
  cases h : pyInt s with
  | none => rfl
  | some v =>
    rcases pyInt_digits_only s v h c hc with e | e | e | e | e
    · rw [h1] at e; cases e
    · exact absurd e h2
    · exact absurd e h3
    · exact absurd e h4
    · rw [h5] at e; cases e

/-- "2.1" (or "2.0") can never be read as 2 -/
theorem pyInt_no_dot (s : String) (h : '.' ∈ s.toList) : pyInt s = none :=
  pyInt_rejects s '.' h (by decide) (by decide) (by decide) (by decide) (by decide)

theorem gateStr_no_dot (s : String) (h : '.' ∈ s.toList) : gateStr s = .valueError := by
  unfold gateStr; rw [pyInt_no_dot s h]

/-- outside the ASCII range the model refuses everything (CPython accepts Unicode digits and
    blanks there: a stated boundary of the model, see Signac/PyInt.lean) -/
theorem pyInt_non_ascii (s : String) (c : Char) (hc : c ∈ s.toList) (h : 128 ≤ c.toNat) :
    pyInt s = none := by
  have hd : c.isDigit = false := by
    cases hd : c.isDigit with
    | false => rfl
    | true =>
      simp only [Char.isDigit, Bool.and_eq_true, decide_eq_true_eq] at hd
      have := UInt32.le_iff_toNat_le.mp hd.2
      simp only [Char.toNat] at h
      have h57 : ('9' : Char).val.toNat = 57 := by decide
      omega
  have hne : ∀ d : Char, d.toNat < 128 → c ≠ d := fun d hd e => by subst e; omega
  refine pyInt_rejects s c hc hd (hne _ (by decide)) (hne _ (by decide)) (hne _ (by decide)) ?_
  simp only [isWs, Bool.or_eq_false_iff, decide_eq_false_iff_not]
  exact ⟨⟨⟨⟨⟨hne _ (by decide), hne _ (by decide)⟩, hne _ (by decide)⟩, hne _ (by decide)⟩,
    hne _ (by decide)⟩, hne _ (by decide)⟩

/-- the digit limit of CPython ≥ 3.11 (`sys.set_int_max_str_digits`, default 4300, minimum 640)
    only ever turns an accepted string into a ValueError, and not below 640 digits: in
    particular every version number below 10^640 still parses back, under every setting -/
theorem pyIntLim_sound (lim : Nat) (s : String) :
    (∀ v, pyIntLim lim s = some v → pyInt s = some v)
    ∧ (digitCount s ≤ 640 → pyIntLim lim s = pyInt s)
    ∧ (∀ n : Nat, n < 10 ^ 640 → pyIntLim lim (toString n) = some n) :=
  ⟨fun v h => pyIntLim_some lim s v h, pyIntLim_of_le lim s, fun n h => pyIntLim_toString lim n h⟩

/-! examples (Python: `int("2") == 2`, `int("02") == 2`, …, `int("2.1")` ValueError, …) -/
example : pyInt "2" = some 2 := by decide
example : pyInt "02" = some 2 := by decide
example : pyInt "+2" = some 2 := by decide
example : pyInt " 2\n" = some 2 := by decide
example : pyInt "\t\x0b\x0c 2 \r" = some 2 := by decide
example : pyInt "2_0" = some 20 := by decide
example : pyInt "-2" = some (-2) := by decide
example : pyInt "-0" = some 0 := by decide
example : pyInt "2.1" = none := by decide
example : pyInt "2.0" = none := by decide
example : pyInt "" = none := by decide
example : pyInt " " = none := by decide
example : pyInt "+" = none := by decide
example : pyInt "2__0" = none := by decide
example : pyInt "_2" = none := by decide
example : pyInt "+_2" = none := by decide
example : pyInt "2_" = none := by decide
example : pyInt "2_ " = none := by decide
example : pyInt "- 2" = none := by decide
example : pyInt "+-2" = none := by decide
example : pyInt "2 0" = none := by decide
example : pyInt "1e1" = none := by decide
example : pyInt "0x2" = none := by decide
example : pyInt "two" = none := by decide
example : pyInt "\x1c2" = none := by decide   -- \x1c is `str.isspace` but not `Py_ISSPACE`
example : pyInt "٢" = none := by decide        -- model boundary: CPython says 2

example : gateStr "2" = .ok ∧ gateStr "02" = .ok ∧ gateStr " +2\n" = .ok ∧ gateStr "0_2" = .ok := by
  decide
example : gateStr "1" = .incompatible ∧ gateStr "3" = .incompatible ∧ gateStr "2_0" = .incompatible
    ∧ gateStr "-2" = .incompatible := by decide
example : gateStr "2.1" = .valueError ∧ gateStr "2.0" = .valueError ∧ gateStr "" = .valueError
    ∧ gateStr "two" = .valueError ∧ gateStr "2 0" = .valueError := by decide
example : declared "02" = some 2 ∧ declared "-2" = none ∧ declared "2.1" = none := by decide

/-! ### the string travels through discovery

`Disc.Tree` holds version NUMBERS; the files hold strings.  `DiscS.TreeS` (Signac/DiscoveryS.lean)
holds the strings, and `openProjectS` / `getProjectS` / `initProjectS` / `getJobS` are the entry
points with `int()` where the code has it: a string that `int()` rejects is a `ValueError`
(`ErrS.valueError`) leaving the entry point on the spot.  `Denotes ts t`: every version string of
`ts` is an integer literal of the number `t` has there.  Helper lemmas:
Signac/Proofs/DiscoverySLemmas.lean. -/
open Signac.DiscS

/-- Where all version strings are (non-negative) integer literals, the string-level entry points
    return exactly what the numeric ones return on the denoted tree — result and step list; so
    `gate_refuses`, `gate_refuses_legacy` and the C19 theorems speak about such configs.
    (`liftR` only re-reads the old error type inside the new one.) -/
theorem stringLayer_refines (ts : TreeS) (t : Tree) (h : Denotes ts t) (p : Path) :
    openProjectS ts p = liftR (openProject t p)
    ∧ (∀ s, getProjectS ts p s = liftR (getProject t p s))
    ∧ initProjectS ts p = liftR (initProject t p)
    ∧ getJobS ts p = liftR (getJob t p)
    ∧ locateConfigDirS ts p = liftE (locateConfigDir t p) :=
  ⟨openProjectS_eq h p, getProjectS_eq h p, initProjectS_eq h p, getJobS_eq h p,
   locateConfigDirS_eq h p⟩

/-- Which string trees that covers: exactly those in which every declared version is a
    non-negative integer literal (then the numeric tree is `ts.toTree`, and it is the only one);
    and every numeric tree is covered (write the numbers the way the code does). -/
theorem stringLayer_domain :
    (∀ ts, (∃ t, Denotes ts t) ↔ IntLiterals ts)
    ∧ (∀ ts, IntLiterals ts → Denotes ts ts.toTree)
    ∧ (∀ ts t t', Denotes ts t → Denotes ts t' → t = t')
    ∧ (∀ t, Denotes (ofTree t) t) :=
  ⟨fun ts => ⟨fun ⟨_, h⟩ => intLiterals_of_denotes h, fun h => ⟨_, denotes_toTree ts h⟩⟩,
   denotes_toTree, fun _ _ _ h h' => denotes_unique h h', denotes_ofTree⟩

/-- A refinement result is never a ValueError, and is a project / an old error exactly when
    the numeric result is. -/
theorem liftR_faithful {α : Type} (r : Except Err α × List Step) :
    (liftR r).2 = r.2 ∧ (liftR r).1 ≠ .error .valueError
    ∧ (∀ a, (liftR r).1 = .ok a ↔ r.1 = .ok a)
    ∧ (∀ e, (liftR r).1 = .error (.base e) ↔ r.1 = .error e) :=
  ⟨rfl, liftE_ne_valueError r.1, liftE_ok_iff r.1, liftE_base_iff r.1⟩

/-- String-level `gate_refuses`.  ANY string tree, any directory whose `.signac/config` declares
    a string `s` that `int()` does not read as the supported version — an integer literal of
    another number ("1", "3", "-2", "2_0"), or no integer literal at all ("2.1", "2.0", "two",
    "") —: Project(), get_project (searching or not) and init_project raise (`refusal s`:
    ValueError if `int(s)` fails, IncompatibleSchemaVersion otherwise) and perform no mutating
    step.  The upward search of get_project from any existing path whose NEAREST project is that
    directory stops there with the same error: it never skips to an enclosing project (that is
    the code: `_locate_config_dir` returns the first directory holding `.signac/config`, then
    `Project(path)` raises).  Likewise get_job of a path whose job directory sits below it. -/
theorem gate_refuses_strings (ts : TreeS) (p : Path) (s : String)
    (hc : ts.cfgS p = some (some s)) (hv : pyInt s ≠ some (SCHEMA : Int)) :
    openProjectS ts p = (.error (refusal s), [])
    ∧ (ts.kind p ≠ .absent →
        (∀ b, getProjectS ts p b = (.error (refusal s), []))
        ∧ initProjectS ts p = (.error (refusal s), []))
    ∧ (∀ p', ts.kind p' ≠ .absent → NearestS ts p' p →
        getProjectS ts p' true = (.error (refusal s), []))
    ∧ (∀ p' j jp, ts.kind p' ≠ .absent → lastJob p' = some (j, jp) → ts.kind jp = .dir →
        NearestS ts jp.tail p → getJobS ts p' = (.error (refusal s), []))
    ∧ refusal s = (if pyInt s = none then .valueError else .base .incompatible) :=
  ⟨openProjectS_refused ts p (some s) hc hv,
   fun hk => ⟨getProjectS_refused ts p (some s) hc hv hk, initProjectS_refused ts p (some s) hc hv hk⟩,
   fun p' hk hn => getProjectS_refused_below ts p' p (some s) hn hc hv hk,
   fun p' j jp hk hl hd hn => getJobS_refused ts p' p jp j (some s) hk hl hd hn hc hv,
   rfl⟩

/-- The same for a config without the key: the configspec default "1" is what `int()` sees, and
    1 is not the supported version: IncompatibleSchemaVersion, no step. -/
theorem gate_refuses_absent_key (ts : TreeS) (p : Path) (hc : ts.cfgS p = some none) :
    openProjectS ts p = (.error (.base .incompatible), [])
    ∧ (ts.kind p ≠ .absent →
        (∀ b, getProjectS ts p b = (.error (.base .incompatible), []))
        ∧ initProjectS ts p = (.error (.base .incompatible), []))
    ∧ (∀ p', ts.kind p' ≠ .absent → NearestS ts p' p →
        getProjectS ts p' true = (.error (.base .incompatible), [])) :=
  have hr : refusal ((none : Option String).getD "1") = .base .incompatible := by decide
  ⟨hr ▸ openProjectS_refused ts p none hc default_refused,
   fun hk => ⟨fun b => hr ▸ getProjectS_refused ts p none hc default_refused hk b,
     hr ▸ initProjectS_refused ts p none hc default_refused hk⟩,
   fun p' hk hn => hr ▸ getProjectS_refused_below ts p' p none hn hc default_refused hk⟩

/-- Whatever project a string-level entry point returns, its `.signac/config` HAS the key and the
    string there is one that `int()` reads as the supported version (SCHEMA = 2, so the default
    "1" of an absent key is never accepted: `absent` below).  For init_project: the returned
    project is `p` itself, and either that holds of the config that was there, or the config was
    written by this very call — with `str(SCHEMA_VERSION)`, which `int()` reads back
    (`pyInt_repr`). -/
theorem accepts_only_schema (ts : TreeS) (p q : Path) :
    ((openProjectS ts p).1 = .ok q →
        q = p ∧ ∃ s, ts.cfgS q = some (some s) ∧ pyInt s = some (SCHEMA : Int))
    ∧ (∀ b, (getProjectS ts p b).1 = .ok q →
        q <:+ p ∧ ∃ s, ts.cfgS q = some (some s) ∧ pyInt s = some (SCHEMA : Int))
    ∧ (∀ j, (getJobS ts p).1 = .ok (j, q) →
        ∃ s, ts.cfgS q = some (some s) ∧ pyInt s = some (SCHEMA : Int))
    ∧ ((initProjectS ts p).1 = .ok q →
        q = p ∧ ((∃ s, ts.cfgS p = some (some s) ∧ pyInt s = some (SCHEMA : Int))
                 ∨ (Step.writeConfig p ∈ (initProjectS ts p).2
                    ∧ (afterInitS ts p).cfgS p = some (some (toString SCHEMA)))))
    ∧ (pyInt "1" ≠ some (SCHEMA : Int)) := by
  refine ⟨?_, ?_, ?_, ?_, default_refused⟩
  · intro h
    have := (openProjectS_ok_iff ts p q).mp h
    rw [this.1]; exact ⟨rfl, this.2⟩
  · intro b h; exact getProjectS_accepts ts p q b h
  · intro j h; exact getJobS_accepts ts p j q h
  · intro h
    have := initProjectS_accepts ts p q h
    refine ⟨this.1, ?_⟩
    rcases this.2 with h1 | h1
    · exact Or.inl h1
    · exact Or.inr ⟨h1, by simp [afterInitS]⟩

/-! non-vacuity: a tree with the configs `"2.1"`, `"02"`, `" 2"`, `"3"`, a config without the
    key, and a project `/E` ("2") enclosing a project `/E/inner` ("2.1") -/

def exS : TreeS := TreeS.ofNodes [
  ⟨[], .dir, none, none⟩,
  ⟨["A"], .dir, some (some "2.1"), none⟩,
  ⟨["sub", "A"], .dir, none, none⟩,
  ⟨["B"], .dir, some (some "02"), none⟩,
  ⟨["workspace", "B"], .dir, none, none⟩,
  ⟨["C"], .dir, some (some " 2"), none⟩,
  ⟨["D"], .dir, some (some "3"), none⟩,
  ⟨["N"], .dir, some none, none⟩,
  ⟨["E"], .dir, some (some "2"), none⟩,
  ⟨["workspace", "E"], .dir, none, none⟩,
  ⟨["inner", "E"], .dir, some (some "2.1"), none⟩,
  ⟨["x", "inner", "E"], .dir, none, none⟩,
  ⟨["L"], .dir, none, some (some "1.5")⟩,
  ⟨["M"], .dir, none, some none⟩ ]

/-- hypotheses of `gate_refuses_strings`: "2.1" and "3" (and "two", "", "2.0", "-2") -/
example : exS.cfgS ["A"] = some (some "2.1") ∧ pyInt "2.1" ≠ some (SCHEMA : Int)
    ∧ exS.cfgS ["D"] = some (some "3") ∧ pyInt "3" ≠ some (SCHEMA : Int)
    ∧ pyInt "two" ≠ some (SCHEMA : Int) ∧ pyInt "" ≠ some (SCHEMA : Int)
    ∧ pyInt "2.0" ≠ some (SCHEMA : Int) ∧ pyInt "-2" ≠ some (SCHEMA : Int) := by decide

/-- which refusal -/
example : refusal "2.1" = .valueError ∧ refusal "3" = .base .incompatible
    ∧ refusal "" = .valueError ∧ refusal "-2" = .base .incompatible := by decide

/-- "2.1": ValueError from every entry point, nothing touched (the workspace of `/A` is missing
    and is NOT created); from `/A/sub` the search stops at `/A` -/
example : openProjectS exS ["A"] = (.error .valueError, [])
    ∧ getProjectS exS ["A"] true = (.error .valueError, [])
    ∧ getProjectS exS ["A"] false = (.error .valueError, [])
    ∧ initProjectS exS ["A"] = (.error .valueError, [])
    ∧ getProjectS exS ["sub", "A"] true = (.error .valueError, []) :=
  ⟨by rfl, by rfl, by rfl, by rfl, by rfl⟩

/-- "3": IncompatibleSchemaVersion -/
example : openProjectS exS ["D"] = (.error (.base .incompatible), [])
    ∧ initProjectS exS ["D"] = (.error (.base .incompatible), []) := ⟨by rfl, by rfl⟩

/-- "02" and " 2" are accepted (`int("02") == int(" 2") == 2`); `/C` has no workspace yet -/
example : getProjectS exS ["B"] true = (.ok ["B"], [])
    ∧ getProjectS exS ["C"] true = (.ok ["C"], [.mkdir ["workspace", "C"]])
    ∧ initProjectS exS ["B"] = (.ok ["B"], []) := ⟨by rfl, by rfl, by rfl⟩

/-- a config without the key is version "1": refused -/
example : getProjectS exS ["N"] true = (.error (.base .incompatible), []) := by rfl

/-- the search from `/E/inner/x` stops at `/E/inner` ("2.1") with ValueError although the
    enclosing `/E` ("2") would be accepted; from `/E` itself it is -/
example : NearestS exS ["x", "inner", "E"] ["inner", "E"]
    ∧ getProjectS exS ["x", "inner", "E"] true = (.error .valueError, [])
    ∧ getProjectS exS ["E"] true = (.ok ["E"], []) :=
  ⟨(findProjectS_nearest _ _ _).mp (by rfl), by rfl, by rfl⟩

/-- a legacy `signac.rc` with `schema_version = 1.5`: ValueError out of `_raise_if_older_schema`
    (it catches RuntimeError only), also from init_project — nothing is written; one without the
    key is version 0: IncompatibleSchemaVersion -/
example : openProjectS exS ["L"] = (.error .valueError, [])
    ∧ getProjectS exS ["L"] true = (.error .valueError, [])
    ∧ initProjectS exS ["L"] = (.error .valueError, [])
    ∧ initProjectS exS ["M"] = (.error (.base .incompatible), []) :=
  ⟨by rfl, by rfl, by rfl, by rfl⟩

/-- a tree to which `stringLayer_refines` applies: versions written "02", " 2", "+2", "3", "0_1" -/
def exLit : TreeS := TreeS.ofNodes [
  ⟨[], .dir, none, none⟩,
  ⟨["B"], .dir, some (some "02"), none⟩,
  ⟨["C"], .dir, some (some " 2"), none⟩,
  ⟨["P"], .dir, some (some "+2"), none⟩,
  ⟨["D"], .dir, some (some "3"), none⟩,
  ⟨["N"], .dir, some none, none⟩,
  ⟨["L"], .dir, none, some (some "0_1")⟩ ]

theorem exLit_denotes : Denotes exLit exLit.toTree :=
  denotes_toTree _ (intLiterals_ofNodes _ (by decide))

/-- the numbers it denotes -/
example : exLit.toTree.cfg ["B"] = some (some 2) ∧ exLit.toTree.cfg ["C"] = some (some 2)
    ∧ exLit.toTree.cfg ["P"] = some (some 2) ∧ exLit.toTree.cfg ["D"] = some (some 3)
    ∧ exLit.toTree.cfg ["N"] = some none ∧ exLit.toTree.rc ["L"] = some 1 := by decide

/-- so the numeric theorems speak about it: e.g. `gate_refuses` on `/D` -/
example : getProjectS exLit ["D"] true = (.error (.base .incompatible), []) := by
  rw [(stringLayer_refines exLit _ exLit_denotes ["D"]).2.1 true,
    (gate_refuses exLit.toTree ["D"] (some 3) (by decide) (by decide) (by decide)).2.1 true]
  rfl

/-- `exS` is outside: "2.1" denotes no number -/
example : ¬ ∃ t, Denotes exS t := by
  rw [stringLayer_domain.1]
  intro h
  exact absurd (h.1 ["A"] "2.1" (by decide)) (by decide)

/-! ### the string travels through the migration chain

`MigS.ProjS` (Signac/MigrationS.lean) is `Mig.Proj` with the raw `schema_version` strings;
`applyMigrationsS` is `apply_migrations` with `int()` where `_get_config_schema_version` has it.
Helper lemmas: Signac/Proofs/MigrationSLemmas.lean. -/
open Signac.MigS

/-- Where every declared version is a non-negative integer literal, the string-level chain is the
    numeric chain on the project read as numbers: same resulting project, same result, and the
    result is again in that domain (the code writes `str(destination)`); so `migrate_preserves`,
    `migrate_refuses_collision`, `migrate_uptodate_noop`, `migrate_idempotent`,
    `migrate_refuses_newer` speak about such projects. -/
theorem migrationLayer_refines (PS : ProjS) (h : IntLit PS) :
    (applyMigrationsS PS).1.toProj = (applyMigrations PS.toProj).1
    ∧ (applyMigrationsS PS).2 = .base (applyMigrations PS.toProj).2
    ∧ IntLit (applyMigrationsS PS).1
    ∧ (∀ g, detectS PS g = (match detect PS.toProj g with
        | none => .unable
        | some n => .ver (Int.ofNat n))) :=
  ⟨(applyMigrationsS_toProj PS h).1, (applyMigrationsS_toProj PS h).2.1,
   (applyMigrationsS_toProj PS h).2.2, detectS_toProj PS h⟩

/-- every numeric project is in the domain -/
theorem migrationLayer_domain (P : Proj) : IntLit (ofProj P) ∧ (ofProj P).toProj = P :=
  ⟨intLit_ofProj P, toProj_ofProj P⟩

/-- A version string that `int()` rejects ("1.0", "2.1", "two", "") in the config file the
    migration reads — `.signac/config` if it is there, else a loadable `signac.rc` —:
    `apply_migrations` raises ValueError; nothing is changed, the lock file is removed. -/
theorem migrate_valueError (PS : ProjS) (c : ConfS) (s : String) (hv : c.version = some s)
    (hs : pyInt s = none)
    (h : PS.cfg = some c ∨ (PS.cfg = none ∧ PS.rc = some c ∧ c.project.isSome = true)) :
    applyMigrationsS PS = ({ PS with lock := false }, .valueError)
    ∧ (PS.lock = false → applyMigrationsS PS = (PS, .valueError)) := by
  have h1 : applyMigrationsS PS = ({ PS with lock := false }, .valueError) := by
    apply applyMigrationsS_valueError
    rcases h with h | ⟨h0, h1, h2⟩
    · exact detectS_cfg_valueError _ c s h hv hs
    · exact detectS_rc_valueError _ c s h0 h1 h2 hv hs
  refine ⟨h1, fun hl => ?_⟩
  rw [h1]
  cases PS; simp only at hl; simp [hl]

/-- `migrate_preserves` at string level: a well-formed legacy project whose version is written
    as any integer literal of 0 or 1 (or not at all) migrates, the job data is preserved, and the
    config then carries a string that the string gate of `Project()` accepts. -/
theorem migrate_preserves_strings (L : ProjS) (hL : IntLit L) (c : Conf) (name : String)
    (wf : WellFormed L.toProj c name) (hcol : ¬ Collides L.toProj c) :
    (applyMigrationsS L).2 = .base .ok
    ∧ jobsOf (applyMigrationsS L).1.toProj = jobsOf L.toProj
    ∧ ∃ c' s, (applyMigrationsS L).1.cfg = some c' ∧ c'.version = some s
        ∧ pyInt s = some (SCHEMA : Int) ∧ gateStr s = .ok := by
  obtain ⟨h1, h2, h3, _⟩ := migrationLayer_refines L hL
  have hp := migrate_preserves L.toProj c name wf hcol
  simp only at hp
  obtain ⟨hok, hgate, hjobs, _⟩ := hp
  refine ⟨by rw [h2, hok], by rw [h1, hjobs], ?_⟩
  rw [← h1] at hgate
  generalize (applyMigrationsS L).1 = R at h3 hgate
  simp only [openVersion, ProjS.toProj, Option.map_map] at hgate
  cases hc : R.cfg with
  | none => rw [hc] at hgate; cases hgate
  | some c' =>
    rw [hc] at hgate
    simp only [Option.map_some, Function.comp, Option.some.injEq, ConfS.toConf] at hgate
    have hv := (gate_ok_iff _).mp hgate
    cases hcv : c'.version with
    | none => rw [hcv] at hv; exact absurd hv (by decide)
    | some s =>
      rw [hcv] at hv
      simp only [Option.map_some, Option.getD_some] at hv
      have hi := h3 c' (Or.inr hc) s hcv
      cases hd : declared s with
      | none => rw [hd] at hi; cases hi
      | some n =>
        rw [hd] at hv
        simp only [Option.getD_some] at hv
        subst hv
        have hp := (declared_eq_some s _).mp hd
        exact ⟨c', s, rfl, hcv, hp, (gateStr_exact s).mpr hp⟩

/-! non-vacuity: `exLegacy` with the version written in the file -/

def exLegacyS (v : Option String) : ProjS :=
  { rc := some { version := v, project := some "my project", wsDir := some "data/ws" }
    cfg := none, dotSignac := false
    ents := [("other", "o1"), ("data/ws", "jobs-digest")]
    doc := some [("k", .int 1)]
    cacheOld := some "cache-bytes", histOld := some "history-bytes"
    cacheNew := none, histNew := none, lock := false, rest := "rest-digest" }

/-- "1.0": ValueError, untouched -/
example : (applyMigrationsS (exLegacyS (some "1.0"))).2 = .valueError
    ∧ (applyMigrationsS (exLegacyS (some "1.0"))).1.rc = (exLegacyS (some "1.0")).rc
    ∧ (applyMigrationsS (exLegacyS (some "1.0"))).1.ents = (exLegacyS (some "1.0")).ents := by
  have h := (migrate_valueError (exLegacyS (some "1.0")) _ "1.0" rfl (by decide)
    (Or.inr ⟨rfl, rfl, rfl⟩)).2 rfl
  rw [h]; exact ⟨rfl, rfl, rfl⟩

/-- " 1", "01", "0" and no key at all: migrated, the config then says "2" -/
example : ∀ v ∈ [some " 1", some "01", some "0", none],
    (applyMigrationsS (exLegacyS v)).2 = .base .ok
    ∧ ((applyMigrationsS (exLegacyS v)).1.cfg.map (·.version)) = some (some "2")
    ∧ jobsOf (applyMigrationsS (exLegacyS v)).1.toProj = some "jobs-digest" := by decide

/-- "3" (newer) and "-1" (negative: smaller than SCHEMA, origin of no migration) -/
example : (applyMigrationsS (exLegacyS (some "3"))).2 = .base .tooNew
    ∧ (applyMigrationsS (exLegacyS (some "-1"))).2 = .base .noPath := by decide

/-- hypotheses of `migrate_preserves_strings` for the " 1" variant -/
example : IntLit (exLegacyS (some " 1")) ∧ (exLegacyS (some " 1")).toProj = { exLegacy with
    rc := some { version := some 1, project := some "my project", wsDir := some "data/ws" } } := by
  refine ⟨?_, by rfl⟩
  intro c hc s hs
  rcases hc with hc | hc
  · simp only [exLegacyS, Option.some.injEq] at hc
    subst hc
    simp only [Option.some.injEq] at hs
    subst hs
    decide
  · cases hc

end Signac.C20

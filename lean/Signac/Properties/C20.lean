/-
  C20 — incompatible schema versions are refused, and migration preserves every job.
  Property theorems only; helper lemmas live in Signac/Proofs/MigChain.lean, MigGate.lean.

  `Disc.*` is the model of Project() / get_project / init_project (Signac/Discovery.lean);
  `Mig.*` the model of apply_migrations on a project root directory (Signac/Migration.lean).
  `SCHEMA` is `Signac.Extracted.SCHEMA_VERSION`, regenerated from the running package.
-/
import Signac.Extracted
import Signac.Migration
import Signac.Discovery
import Signac.Proofs.MigChain
import Signac.Proofs.MigGate
import Signac.PyInt
import Signac.Proofs.PyIntLemmas
namespace Signac.C20
open Signac Signac.Mig Signac.Disc

/-- The gate lets exactly the supported version through. -/
theorem gate_exact (v : Nat) : gate v = .ok ↔ v = SCHEMA := gate_ok_iff v

/-- Current layout (`.signac/config`) declaring any other version (an absent key counts as 1):
    Project(), get_project (searching or not) and init_project all raise
    IncompatibleSchemaVersion and perform no mutating step.  Every version number, every tree. -/
theorem gate_refuses (t : Tree) (p : Path) (v : Option Nat) (hc : t.cfg p = some v)
    (hv : v.getD 1 ≠ SCHEMA) (hk : t.kind p ≠ .absent) :
    openProject t p = (.error .incompatible, [])
    ∧ (∀ s, getProject t p s = (.error .incompatible, []))
    ∧ initProject t p = (.error .incompatible, []) :=
  ⟨openProject_refused t p v hc hv, getProject_refused t p v hc hv hk,
   initProject_refused t p v hc hv hk⟩

/-- Legacy layout (`signac.rc`, no `.signac/config`) declaring any version other than the
    supported one: Project() and init_project raise IncompatibleSchemaVersion without a mutating
    step; get_project never returns the directory as a project — it raises LookupError without
    search, and IncompatibleSchemaVersion with search unless an initialised project encloses
    the directory (then that one is what discovery is about, C19). -/
theorem gate_refuses_legacy (t : Tree) (p : Path) (v : Nat) (hc : t.cfg p = none)
    (hr : t.rc p = some v) (hv : v ≠ SCHEMA) :
    openProject t p = (.error .incompatible, [])
    ∧ initProject t p = (.error .incompatible, [])
    ∧ getProject t p false = (.error .lookup, [])
    ∧ (t.kind p ≠ .absent → (∀ r, r <:+ p → isProject t r = false) →
        getProject t p true = (.error .incompatible, []))
    ∧ (∀ s, (getProject t p s).1 ≠ .ok p) :=
  ⟨openProject_legacy t p v hc hr hv, initProject_legacy t p v hc hr hv,
   getProject_nosearch_legacy t p hc,
   fun hk hn => getProject_search_legacy t p v hr hv hk hn,
   getProject_never_legacy t p hc⟩

/-- Migrating a well-formed legacy project (version 0 or 1, any project name, default or custom
    workspace directory, with or without cache / history files) that does not collide: the
    chain succeeds, the result passes the gate, and a reader sees exactly the same job data
    (the subtree that was the configured workspace is now `workspace`, untouched); the v1 cache
    and history files arrive byte-identical at their v2 places; every other entry of the root,
    and everything else, is untouched; the project name (unless the default "None") is in the
    project document whose other keys are unchanged; no lock file is left. -/
theorem migrate_preserves (L : Proj) (c : Conf) (name : String) (wf : WellFormed L c name)
    (hcol : ¬ Collides L c) :
    let P := (applyMigrations L).1
    (applyMigrations L).2 = .ok
    ∧ (openVersion P).map gate = some .ok
    ∧ jobsOf P = jobsOf L
    ∧ P.cacheNew = (if L.cacheOld.isSome then L.cacheOld else L.cacheNew)
    ∧ P.histNew = (if L.histOld.isSome then L.histOld else L.histNew)
    ∧ (∀ k, k ≠ wsName c → k ≠ "workspace" → P.ents.lookup k = L.ents.lookup k)
    ∧ P.rest = L.rest ∧ P.lock = false ∧ P.rc = none
    ∧ (name = "None" → P.doc = L.doc)
    ∧ (name ≠ "None" → ∃ d, P.doc = some d ∧ d.lookup "signac_project_name" = some (.str name)
        ∧ ∀ k, k ≠ "signac_project_name" → d.lookup k = (L.doc.getD []).lookup k) := by
  intro P
  have hws : L.ents.lookup "workspace" = none ∨ wsName c = "workspace" := by
    by_cases hw : wsName c = "workspace"
    · exact Or.inr hw
    · left
      cases hl : L.ents.lookup "workspace" with
      | none => rfl
      | some b => exact absurd ⟨hw, by simp [hasEnt, hl]⟩ hcol
  have h : applyMigrations L = (migrated L c name, .ok) := applyMigrations_wf L c name wf hcol
  have hP : P = migrated L c name := by simp only [P, h]
  rw [hP]
  refine ⟨by rw [h], ?_, ?_, rfl, rfl, ?_, rfl, rfl, rfl, ?_, ?_⟩
  · simp [openVersion, migrated, (gate_ok_iff 2).mpr schema_eq.symm]
  · simp only [jobsOf, migrated, wf.cfg, wf.rc]
    by_cases hw : wsName c = "workspace"
    · simp [hw]
    · simp only [hw, ne_eq, not_false_eq_true, if_true]
      rcases hws with h0 | h0
      · exact lookup_renameEnt_dst _ _ _ h0
      · exact absurd h0 hw
  · intro k h1 h2
    simp only [migrated]
    by_cases hw : wsName c = "workspace"
    · simp [hw]
    · simp only [hw, ne_eq, not_false_eq_true, if_true]
      exact lookup_renameEnt_other _ _ _ _ h1 h2
  · intro hn; simp [migrated, hn]
  · intro hn
    refine ⟨docSet "signac_project_name" (.str name) (L.doc.getD []),
      by simp only [migrated, hn, ne_eq, not_false_eq_true, if_true], ?_, ?_⟩
    · exact lookup_docSet_self _ _ _
    · intro k hk; exact lookup_docSet_other _ _ _ _ hk

/-- A configured workspace directory that would have to replace an existing `workspace`:
    the migration fails and moves nothing — entries, documents, cache, history and everything
    else are as before; only the 0 → 1 version bump may have been written to `signac.rc`. -/
theorem migrate_refuses_collision (L : Proj) (c : Conf) (name : String) (hrc : L.rc = some c)
    (hp : c.project = some name) (hv : c.version.getD 0 ≤ 1) (hcfg : L.cfg = none)
    (hcol : Collides L c) :
    applyMigrations L =
      ({ L with lock := false, rc := some { c with version := some 1 } }, .failed 2) :=
  applyMigrations_collision L c name hrc hp hv hcfg hcol

/-- Migrating an up-to-date project is a no-op. -/
theorem migrate_uptodate_noop (L : Proj) (c : Conf) (hcfg : L.cfg = some c)
    (hv : c.version = some SCHEMA) (hl : L.lock = false) : applyMigrations L = (L, .ok) := by
  rw [applyMigrations_uptodate L c hcfg hv]
  cases L; simp only at hl; simp [hl]

/-- Migrating twice = migrating once. -/
theorem migrate_idempotent (L : Proj) (c : Conf) (name : String) (wf : WellFormed L c name)
    (hcol : ¬ Collides L c) :
    applyMigrations (applyMigrations L).1 = ((applyMigrations L).1, .ok) := by
  rw [applyMigrations_wf L c name wf hcol]
  exact migrate_uptodate_noop _ _ rfl (by rw [schema_eq]) rfl

/-- A project written by a newer signac is refused by the migration as well, untouched. -/
theorem migrate_refuses_newer (L : Proj) (v : Nat) (hl : L.lock = false)
    (hd : detect { L with lock := true } SCHEMA = some v) (hv : v > SCHEMA) :
    applyMigrations L = (L, .tooNew) := by
  rw [applyMigrations_tooNew L v hd hv]
  cases L; simp only at hl; simp [hl]

/-- The chain the model hard-wires is the one the running package registers. -/
theorem chain_tie :
    Extracted.MIGRATION_KEYS = [(0, 1), (1, 2)] ∧ Extracted.CONFIG_LOADER_VERSIONS = [1, 2]
    ∧ Extracted.SCHEMA_VERSION = 2 ∧ Extracted.PROJECT_CONFIG_FN = ".signac/config"
    ∧ Extracted.FN_CACHE = ".signac/statepoint_cache.json.gz" := by decide

/-! ### non-vacuity -/

/-- a version-0 project named "my project" with custom workspace `data/ws`, cache and history,
    an unrelated directory and an existing project document -/
def exLegacy : Proj :=
  { rc := some { version := none, project := some "my project", wsDir := some "data/ws" }
    cfg := none, dotSignac := false
    ents := [("other", "o1"), ("data/ws", "jobs-digest")]
    doc := some [("k", .int 1)]
    cacheOld := some "cache-bytes", histOld := some "history-bytes"
    cacheNew := none, histNew := none, lock := false, rest := "rest-digest" }

def exConf : Conf := { version := none, project := some "my project", wsDir := some "data/ws" }

example : WellFormed exLegacy exConf "my project" ∧ ¬ Collides exLegacy exConf :=
  ⟨⟨rfl, rfl, by decide, rfl, rfl, fun _ => by decide⟩, by unfold Collides; decide⟩

/-- and the model really moves it -/
example : jobsOf (applyMigrations exLegacy).1 = some "jobs-digest"
    ∧ (applyMigrations exLegacy).1.cacheNew = some "cache-bytes" := by decide

/-- the same project with something already called `workspace` collides -/
example : Collides { exLegacy with ents := ("workspace", "precious") :: exLegacy.ents } exConf := by
  unfold Collides; decide

/-- gate hypotheses: versions 0, 1, 3, 10 and an absent key are all refused -/
example : ∀ v ∈ [some 0, some 1, some 3, some 10, none], (v : Option Nat).getD 1 ≠ SCHEMA := by decide

example : (2 : Nat) = SCHEMA ∧ gate 2 = .ok := by decide

/-! ### the version is a STRING in the config file

`schema_version` is a string (configspec `string(default='1')`) that the code converts with
Python's `int()`.  `PyInt.pyInt` models that conversion for ASCII input (`none` = ValueError),
`PyInt.gateStr` the whole of `_check_schema_compatibility` on the string.  Helper lemmas:
Signac/Proofs/PyIntLemmas.lean. -/
open Signac.PyInt

/-- Every version number the code itself writes (`config["schema_version"] = destination`,
    `str` of an int) parses back to that number. -/
theorem pyInt_repr (n : Nat) : pyInt (toString n) = some n := pyInt_toString n

theorem pyInt_neg_repr (n : Nat) : pyInt ("-" ++ toString n) = some (-(n : Int)) :=
  pyInt_neg_toString n

/-- The string gate lets exactly the strings through that `int()` reads as the supported version. -/
theorem gateStr_exact (s : String) : gateStr s = .ok ↔ pyInt s = some (SCHEMA : Int) :=
  gateStr_ok_iff s

/-- … every other string is refused: ValueError if it is not an integer literal,
    IncompatibleSchemaVersion otherwise. -/
theorem gateStr_refuses (s : String) (h : pyInt s ≠ some (SCHEMA : Int)) : gateStr s ≠ .ok :=
  fun hg => h ((gateStr_exact s).mp hg)

/-- which of the two refusals -/
theorem gateStr_refusal (s : String) (h : pyInt s ≠ some (SCHEMA : Int)) :
    gateStr s = (if pyInt s = none then .valueError else .incompatible) := by
  have hne := gateStr_refuses s h
  unfold gateStr at hne ⊢
  cases hp : pyInt s with
  | none => simp
  | some v =>
    rw [hp] at hne
    simp only [reduceCtorEq, if_false]
    split
    · rfl
    · split
      · rfl
      · rename_i h1 h2; simp only [h1, h2, if_false] at hne; exact absurd rfl hne

/-- On the strings the code writes, the string gate is the `Nat` gate of the rest of the model. -/
theorem gateStr_nat (n : Nat) :
    gateStr (toString n) = (match gate n with | .ok => .ok | .incompatible => .incompatible) :=
  gateStr_toString n

/-- More generally: on every string that `int()` reads as a natural number (leading zeros, a
    `+`, underscores, surrounding blanks) the string gate is the `Nat` gate on that number; every
    other string (not an integer literal, or negative) is refused. -/
theorem gateStr_declared (s : String) :
    (∀ n, declared s = some n →
      gateStr s = (match gate n with | .ok => .ok | .incompatible => .incompatible))
    ∧ (declared s = none → gateStr s ≠ .ok) :=
  ⟨fun n h => gateStr_of_declared s n h, gateStr_of_not_declared s⟩

/-- `int()` accepts nothing but ASCII digits, underscores, a sign and the six ASCII blanks. -/
theorem pyInt_digits_only (s : String) (v : Int) (h : pyInt s = some v) :
    ∀ c ∈ s.toList, c.isDigit = true ∨ c = '_' ∨ c = '+' ∨ c = '-' ∨ isWs c = true :=
  pyInt_chars s v h

/-- so a string with any other character — a dot, an exponent, a letter, a NUL, any non-ASCII
    character — is a ValueError, never a version -/
theorem pyInt_rejects (s : String) (c : Char) (hc : c ∈ s.toList) (h1 : c.isDigit = false)
    (h2 : c ≠ '_') (h3 : c ≠ '+') (h4 : c ≠ '-') (h5 : isWs c = false) : pyInt s = none := by
  cases h : pyInt s with
  | none => rfl
  | some v =>
    rcases pyInt_digits_only s v h c hc with e | e | e | e | e
    · rw [h1] at e; cases e
    · exact absurd e h2
    · exact absurd e h3
    · exact absurd e h4
    · rw [h5] at e; cases e

/-- "2.1" (or "2.0") can never be read as 2 -/
theorem pyInt_no_dot (s : String) (h : '.' ∈ s.toList) : pyInt s = none :=
  pyInt_rejects s '.' h (by decide) (by decide) (by decide) (by decide) (by decide)

theorem gateStr_no_dot (s : String) (h : '.' ∈ s.toList) : gateStr s = .valueError := by
  unfold gateStr; rw [pyInt_no_dot s h]

/-- outside the ASCII range the model refuses everything (CPython accepts Unicode digits and
    blanks there: a stated boundary of the model, see Signac/PyInt.lean) -/
theorem pyInt_non_ascii (s : String) (c : Char) (hc : c ∈ s.toList) (h : 128 ≤ c.toNat) :
    pyInt s = none := by
  have hd : c.isDigit = false := by
    cases hd : c.isDigit with
    | false => rfl
    | true =>
      simp only [Char.isDigit, Bool.and_eq_true, decide_eq_true_eq] at hd
      have := UInt32.le_iff_toNat_le.mp hd.2
      simp only [Char.toNat] at h
      have h57 : ('9' : Char).val.toNat = 57 := by decide
      omega
  have hne : ∀ d : Char, d.toNat < 128 → c ≠ d := fun d hd e => by subst e; omega
  refine pyInt_rejects s c hc hd (hne _ (by decide)) (hne _ (by decide)) (hne _ (by decide)) ?_
  simp only [isWs, Bool.or_eq_false_iff, decide_eq_false_iff_not]
  exact ⟨⟨⟨⟨⟨hne _ (by decide), hne _ (by decide)⟩, hne _ (by decide)⟩, hne _ (by decide)⟩,
    hne _ (by decide)⟩, hne _ (by decide)⟩

/-- the digit limit of CPython ≥ 3.11 (`sys.set_int_max_str_digits`, default 4300, minimum 640)
    only ever turns an accepted string into a ValueError, and not below 640 digits: in
    particular every version number below 10^640 still parses back, under every setting -/
theorem pyIntLim_sound (lim : Nat) (s : String) :
    (∀ v, pyIntLim lim s = some v → pyInt s = some v)
    ∧ (digitCount s ≤ 640 → pyIntLim lim s = pyInt s)
    ∧ (∀ n : Nat, n < 10 ^ 640 → pyIntLim lim (toString n) = some n) :=
  ⟨fun v h => pyIntLim_some lim s v h, pyIntLim_of_le lim s, fun n h => pyIntLim_toString lim n h⟩

/-! examples (Python: `int("2") == 2`, `int("02") == 2`, …, `int("2.1")` ValueError, …) -/
example : pyInt "2" = some 2 := by decide
example : pyInt "02" = some 2 := by decide
example : pyInt "+2" = some 2 := by decide
example : pyInt " 2\n" = some 2 := by decide
example : pyInt "\t\x0b\x0c 2 \r" = some 2 := by decide
example : pyInt "2_0" = some 20 := by decide
example : pyInt "-2" = some (-2) := by decide
example : pyInt "-0" = some 0 := by decide
example : pyInt "2.1" = none := by decide
example : pyInt "2.0" = none := by decide
example : pyInt "" = none := by decide
example : pyInt " " = none := by decide
example : pyInt "+" = none := by decide
example : pyInt "2__0" = none := by decide
example : pyInt "_2" = none := by decide
example : pyInt "+_2" = none := by decide
example : pyInt "2_" = none := by decide
example : pyInt "2_ " = none := by decide
example : pyInt "- 2" = none := by decide
example : pyInt "+-2" = none := by decide
example : pyInt "2 0" = none := by decide
example : pyInt "1e1" = none := by decide
example : pyInt "0x2" = none := by decide
example : pyInt "two" = none := by decide
example : pyInt "\x1c2" = none := by decide   -- \x1c is `str.isspace` but not `Py_ISSPACE`
example : pyInt "٢" = none := by decide        -- model boundary: CPython says 2

example : gateStr "2" = .ok ∧ gateStr "02" = .ok ∧ gateStr " +2\n" = .ok ∧ gateStr "0_2" = .ok := by
  decide
example : gateStr "1" = .incompatible ∧ gateStr "3" = .incompatible ∧ gateStr "2_0" = .incompatible
    ∧ gateStr "-2" = .incompatible := by decide
example : gateStr "2.1" = .valueError ∧ gateStr "2.0" = .valueError ∧ gateStr "" = .valueError
    ∧ gateStr "two" = .valueError ∧ gateStr "2 0" = .valueError := by decide
example : declared "02" = some 2 ∧ declared "-2" = none ∧ declared "2.1" = none := by decide

end Signac.C20

/-
  C02 — initialised jobs persist and reopen exactly; opening is lazy.
  Model: Signac.Workspace (open / init / open by id or prefix).
-/
import Signac.Proofs.WsOps
namespace Signac.C02
open Signac Signac.Ws

variable (hash : JVal → String)

/-- open_job(sp) writes nothing: no job of either project changes. -/
theorem open_is_lazy (w : World) (h : String) (p : Nat) (sp : JVal) :
    (step hash w (.openSp h p sp)).1.p0 = w.p0 ∧ (step hash w (.openSp h p sp)).1.p1 = w.p1 :=
  ⟨rfl, rfl⟩

/-- The handle carries the value given at the time of the call (a copy: nothing else in the
    world refers to the caller's mapping). -/
theorem open_takes_value (w : World) (h : String) (p : Nat) (sp : JVal) :
    ∃ g, alookup h (step hash w (.openSp h p sp)).1.handles = some ⟨p, sp, g⟩ := by
  exact ⟨w.nextGrp, by simp [step, newHandle, alookup_aset_self]⟩

/-- After init() the project holds a job under the hash of the state point; if it was not there
    before, its state point is exactly the handle's, its document and files are empty. -/
theorem init_creates (w : World) (h : String) (hd : Handle) (hh : alookup h w.handles = some hd) :
    (step hash w (.init h)).2 = .ok ∧
    ∃ jd, alookup (hash hd.sp) ((step hash w (.init h)).1.jobs hd.proj) = some jd ∧
      (alookup (hash hd.sp) (w.jobs hd.proj) = none → jd = ⟨hd.sp, [], []⟩) := by
  simp only [step, hh, ensure]
  refine ⟨trivial, ?_⟩
  cases hl : alookup (hash hd.sp) (w.jobs hd.proj) with
  | some jd => exact ⟨jd, hl, fun h => by simp at h⟩
  | none =>
    simp only []
    refine ⟨⟨hd.sp, [], []⟩, ?_, fun _ => rfl⟩
    rw [jobs_setJobs_same, alookup_append_new, hl]
    simp

/-- init() on an initialised job is the identity on the whole world (never rewrites). -/
theorem init_existing_identity (w : World) (h : String) (hd : Handle) (jd : JobData)
    (hh : alookup h w.handles = some hd) (hl : alookup (hash hd.sp) (w.jobs hd.proj) = some jd) :
    step hash w (.init h) = (w, .ok) := by
  simp [step, hh, ensure, hl]

/-- init() is idempotent. -/
theorem init_idempotent (w : World) (h : String) (hd : Handle) (hh : alookup h w.handles = some hd) :
    step hash (step hash w (.init h)).1 (.init h) = step hash w (.init h) := by
  obtain ⟨_, jd, hjd, _⟩ := init_creates hash w h hd hh
  have hh' : alookup h (step hash w (.init h)).1.handles = some hd := by
    simp only [step, hh, ensure]
    split
    · exact hh
    · unfold World.setJobs; split <;> exact hh
  have := init_existing_identity hash (step hash w (.init h)).1 h hd jd hh' hjd
  rw [this]
  simp [step, hh]

/-- Which ids a prefix selects. -/
theorem prefix_matches_spec (pre : String) (js : Jobs) (i : String) :
    i ∈ prefixMatches pre js ↔ i ∈ js.map Prod.fst ∧ pre.toList.isPrefixOf i.toList = true := by
  simp [prefixMatches, List.mem_filter]

/-- A prefix (shorter than a full id) that selects exactly one job opens that job, with the
    stored state point; no job changes. -/
theorem prefix_unique (w : World) (h : String) (p : Nat) (pre i : String) (jd : JobData)
    (hlen : pre.length < 32) (hm : prefixMatches pre (w.jobs p) = [i])
    (hl : alookup i (w.jobs p) = some jd) :
    (step hash w (.openId h p pre none)).2 = .okId i ∧
    (∃ g, alookup h (step hash w (.openId h p pre none)).1.handles = some ⟨p, jd.sp, g⟩) ∧
    (step hash w (.openId h p pre none)).1.p0 = w.p0 ∧ (step hash w (.openId h p pre none)).1.p1 = w.p1 := by
  have hj : World.jobs { w with handles := aerase h w.handles } p = w.jobs p := rfl
  simp only [step, hlen, if_true, hm, hl]
  exact ⟨trivial, ⟨w.nextGrp, by simp [newHandle, alookup_aset_self]⟩, rfl, rfl⟩

/-- Several matches: LookupError, nothing changes. -/
theorem prefix_ambiguous (w : World) (h : String) (p : Nat) (pre a b : String) (rest : List String)
    (hlen : pre.length < 32) (hm : prefixMatches pre (w.jobs p) = a :: b :: rest) :
    (step hash w (.openId h p pre none)).2 = .lookupError ∧
    (step hash w (.openId h p pre none)).1.p0 = w.p0 ∧ (step hash w (.openId h p pre none)).1.p1 = w.p1 := by
  simp [step, hlen, hm]

/-- No match (and nothing cached): KeyError, nothing changes. -/
theorem prefix_none (w : World) (h : String) (p : Nat) (pre : String)
    (hlen : pre.length < 32) (hm : prefixMatches pre (w.jobs p) = []) :
    (step hash w (.openId h p pre none)).2 = .keyError ∧
    (step hash w (.openId h p pre none)).1.p0 = w.p0 ∧ (step hash w (.openId h p pre none)).1.p1 = w.p1 := by
  simp [step, hlen, hm]

/-- A full-length id: found iff it is a job; unknown id ⇒ KeyError. -/
theorem full_id (w : World) (h : String) (p : Nat) (id : String) (hlen : ¬ id.length < 32) :
    (∀ jd, alookup id (w.jobs p) = some jd → (step hash w (.openId h p id none)).2 = .okId id) ∧
    (alookup id (w.jobs p) = none → (step hash w (.openId h p id none)).2 = .keyError) := by
  constructor
  · intro jd hl
    simp [step, hlen, hl]
  · intro hl
    simp [step, hlen, hl]

/- non-vacuity: three jobs, two of whose ids (here: canonical texts) share a prefix -/
example :
    let w := run (fun v => canonText v) World.empty
      [.openSp "a" 0 (.obj [("n", .int 1)]), .init "a", .openSp "b" 0 (.obj [("n", .int 12)]), .init "b",
       .openSp "c" 0 (.obj [("m", .int 0)]), .init "c"]
    (prefixMatches "{\"n\": 1" (w.jobs 0)).length = 2 ∧ (prefixMatches "{\"n\": 12" (w.jobs 0)).length = 1 ∧
    (prefixMatches "{\"x" (w.jobs 0)).length = 0 := by decide

end Signac.C02

/-
  C06 — find_jobs returns exactly the jobs a per-job reference evaluator accepts.
  Property theorems only; helper lemmas live in Signac/Proofs/Query*.lean.

  Reading guide.  `findFlt P c f` is `Project._find_job_ids` (value index per queried key with
  dict-slot semantics, operator evaluation on the stored keys, int/float dual lookup, set algebra
  with early exits, documents indexed iff `doc` is a root key) for a corpus `c` of any size and a
  filter `f` of any depth; `evalRef P d f` evaluates `f` structurally on ONE job's data `d`.
  Hypotheses of the main theorem:
    * ids are distinct;  `NearRespectsEq P`: math.isclose looks at the numeric value only;
    * `WellTyped`: direct evaluation raises for no job (and not on a job without data);
    * `CorpusKeysNodup` (theorem `find_eq_ref`): every mapping in the job data has distinct keys —
      an invariant of Python dicts, needed only because the model's association lists could
      repeat a key (`find_eq_ref_nonflat_false` shows what goes wrong then);
      the older `…_partial` theorems assume instead `CorpusFlat`: lists in job data hold no
      mappings — a special case (`find_eq_ref_partial_from_lists`);
    * `NoBoolIntClash`: finding F-6a excluded — no `$type` atom on a key under which two jobs hold
      a bool and an `==` int.
-/
import Signac.Proofs.QueryFull
namespace Signac.C06
open Signac Signac.Query
open Signac.Query.Full (CorpusKeysNodup CorpusListsOK)

/-- The empty filter selects every job. -/
theorem find_empty (P : Params) (c : Corpus) : findJobs P c (.obj []) = .ok (c.map (·.id)) := rfl

/-- A JSON filter is evaluated by prefixing/splitting it (`ofJson`) and then by `findFlt`; the
    reference evaluator does the same split.  (Unfolding lemma tying the raw-filter entry points
    to the statements below.) -/
theorem find_json_unfold (P : Params) (c : Corpus) (filter : JVal) (f : Flt)
    (hne : falsy filter = false) (hf : ofJson filter = .ok f) :
    findJobs P c filter = findFlt P c f ∧ ∀ j, evalJob P j filter = evalRef P (fullDoc j) f := by
  constructor
  · simp only [findJobs, hne, hf, Bool.false_eq_true, if_false]
  · intro j; simp only [evalJob, hne, hf, Bool.false_eq_true, if_false]

/-- MAIN THEOREM.  For every corpus (any number of jobs) and every filter (any depth, all
    operators, both namespaces) the index-based search returns exactly — as a set of ids — the
    jobs whose own state point and document satisfy the filter under direct evaluation. -/
theorem find_eq_ref_partial (P : Params) (c : Corpus) (f : Flt)
    (hids : (c.map (·.id)).Nodup) (hP : NearRespectsEq P) (hflat : CorpusFlat c)
    (hwt : WellTyped P c f) (hnc : NoBoolIntClash c f) :
    ∃ r, findFlt P c f = .ok r ∧
      ∀ i, i ∈ r ↔ ∃ j ∈ c, j.id = i ∧ evalRef P (fullDoc j) f = .ok true :=
  findFlt_exact hids hP hflat hwt hnc

/-- Membership form: only ids of the corpus are returned, and a job of the corpus is returned iff
    its own data satisfy the filter. -/
theorem find_mem_iff_partial (P : Params) (c : Corpus) (f : Flt)
    (hids : (c.map (·.id)).Nodup) (hP : NearRespectsEq P) (hflat : CorpusFlat c)
    (hwt : WellTyped P c f) (hnc : NoBoolIntClash c f) :
    ∃ r, findFlt P c f = .ok r ∧ (∀ i ∈ r, i ∈ c.map (·.id)) ∧
      ∀ j ∈ c, (j.id ∈ r ↔ evalRef P (fullDoc j) f = .ok true) :=
  findFlt_mem_iff hids hP hflat hwt hnc

/-- MAIN THEOREM, without the `CorpusFlat` restriction.  Job data may hold mappings inside lists
    at any depth.  `CorpusKeysNodup c`: every mapping anywhere in the job data has pairwise
    distinct keys.  This is not a restriction on signac data but an invariant of Python dicts (and
    of `json.loads` output); the model represents mappings as association lists, which could
    repeat a key, and Python's `==` on such a "mapping" is not even reflexive. -/
theorem find_eq_ref (P : Params) (c : Corpus) (f : Flt)
    (hids : (c.map (·.id)).Nodup) (hP : NearRespectsEq P) (hkeys : CorpusKeysNodup c)
    (hwt : WellTyped P c f) (hnc : NoBoolIntClash c f) :
    ∃ r, findFlt P c f = .ok r ∧
      ∀ i, i ∈ r ↔ ∃ j ∈ c, j.id = i ∧ evalRef P (fullDoc j) f = .ok true :=
  Full.findFlt_exact hids hP hkeys hwt hnc

/-- Membership form of `find_eq_ref`. -/
theorem find_mem_iff (P : Params) (c : Corpus) (f : Flt)
    (hids : (c.map (·.id)).Nodup) (hP : NearRespectsEq P) (hkeys : CorpusKeysNodup c)
    (hwt : WellTyped P c f) (hnc : NoBoolIntClash c f) :
    ∃ r, findFlt P c f = .ok r ∧ (∀ i ∈ r, i ∈ c.map (·.id)) ∧
      ∀ j ∈ c, (j.id ∈ r ↔ evalRef P (fullDoc j) f = .ok true) :=
  Full.findFlt_mem_iff hids hP hkeys hwt hnc

/-- The weakest form proved: distinct keys are needed only for the mappings that sit inside lists
    (`CorpusListsOK`); mappings outside lists are descended into, never compared.  Both
    `find_eq_ref` and `find_eq_ref_partial` are instances. -/
theorem find_eq_ref_lists (P : Params) (c : Corpus) (f : Flt)
    (hids : (c.map (·.id)).Nodup) (hP : NearRespectsEq P) (hkeys : CorpusListsOK c)
    (hwt : WellTyped P c f) (hnc : NoBoolIntClash c f) :
    ∃ r, findFlt P c f = .ok r ∧
      ∀ i, i ∈ r ↔ ∃ j ∈ c, j.id = i ∧ evalRef P (fullDoc j) f = .ok true :=
  Full.findFlt_exact_lists hids hP hkeys hwt hnc

/-- the flat theorem is a corollary of the unrestricted chain -/
theorem find_eq_ref_partial_from_lists (P : Params) (c : Corpus) (f : Flt)
    (hids : (c.map (·.id)).Nodup) (hP : NearRespectsEq P) (hflat : CorpusFlat c)
    (hwt : WellTyped P c f) (hnc : NoBoolIntClash c f) :
    ∃ r, findFlt P c f = .ok r ∧
      ∀ i, i ∈ r ↔ ∃ j ∈ c, j.id = i ∧ evalRef P (fullDoc j) f = .ok true :=
  find_eq_ref_lists P c f hids hP (Full.corpusListsOK_of_flat hflat) hwt hnc

/-- Locality: whether a job is selected depends only on that job's own data, never on which other
    jobs exist — the same job in two different corpora gets the same verdict. -/
theorem find_local_partial (P : Params) (c c' : Corpus) (f : Flt) (j : Job)
    (hj : j ∈ c) (hj' : j ∈ c')
    (hids : (c.map (·.id)).Nodup) (hids' : (c'.map (·.id)).Nodup) (hP : NearRespectsEq P)
    (hflat : CorpusFlat c) (hflat' : CorpusFlat c')
    (hwt : WellTyped P c f) (hwt' : WellTyped P c' f)
    (hnc : NoBoolIntClash c f) (hnc' : NoBoolIntClash c' f) :
    ∃ r r', findFlt P c f = .ok r ∧ findFlt P c' f = .ok r' ∧ (j.id ∈ r ↔ j.id ∈ r') := by
  obtain ⟨r, hr, _, h⟩ := findFlt_mem_iff hids hP hflat hwt hnc
  obtain ⟨r', hr', _, h'⟩ := findFlt_mem_iff hids' hP hflat' hwt' hnc'
  exact ⟨r, r', hr, hr', by rw [h j hj, h' j hj']⟩

/-- `$not` is the complement (within the project) of its operand's result. -/
theorem not_compl_partial (P : Params) (c : Corpus) (f : Flt)
    (hids : (c.map (·.id)).Nodup) (hP : NearRespectsEq P) (hflat : CorpusFlat c)
    (hwt : WellTyped P c (fNot f)) (hnc : NoBoolIntClash c (fNot f)) :
    ∃ rn rf, findFlt P c (fNot f) = .ok rn ∧ findFlt P c f = .ok rf ∧
      ∀ j ∈ c, (j.id ∈ rn ↔ j.id ∉ rf) := by
  obtain ⟨rn, hrn, _, hn⟩ := findFlt_mem_iff hids hP hflat hwt hnc
  have hwf := wellTyped_fNot hwt
  obtain ⟨rf, hrf, _, hf⟩ := findFlt_mem_iff hids hP hflat hwf hnc.2.1
  refine ⟨rn, rf, hrn, hrf, ?_⟩
  intro j hj
  rw [hn j hj, hf j hj, evalRef_fNot]
  obtain ⟨b, hb⟩ := hwf.1 j hj
  rw [hb]; cases b <;> simp

/-- `$and` is the intersection of its operands' results. -/
theorem and_inter_partial (P : Params) (c : Corpus) (f g : Flt)
    (hids : (c.map (·.id)).Nodup) (hP : NearRespectsEq P) (hflat : CorpusFlat c)
    (hwt : WellTyped P c (fAnd f g)) (hnc : NoBoolIntClash c (fAnd f g)) :
    ∃ r rf rg, findFlt P c (fAnd f g) = .ok r ∧ findFlt P c f = .ok rf ∧ findFlt P c g = .ok rg ∧
      ∀ j ∈ c, (j.id ∈ r ↔ j.id ∈ rf ∧ j.id ∈ rg) := by
  obtain ⟨r, hr, _, h⟩ := findFlt_mem_iff hids hP hflat hwt hnc
  obtain ⟨hwf, hwg⟩ := wellTyped_fAnd hwt
  obtain ⟨rf, hrf, _, hf⟩ := findFlt_mem_iff hids hP hflat hwf hnc.2.2.1.1
  obtain ⟨rg, hrg, _, hg⟩ := findFlt_mem_iff hids hP hflat hwg hnc.2.2.1.2.1
  refine ⟨r, rf, rg, hr, hrf, hrg, ?_⟩
  intro j hj
  rw [h j hj, hf j hj, hg j hj, evalRef_fAnd]
  obtain ⟨a, ha⟩ := hwf.1 j hj
  obtain ⟨b, hb⟩ := hwg.1 j hj
  rw [ha, hb]; cases a <;> cases b <;> simp

/-- `$or` is the union of its operands' results. -/
theorem or_union_partial (P : Params) (c : Corpus) (f g : Flt)
    (hids : (c.map (·.id)).Nodup) (hP : NearRespectsEq P) (hflat : CorpusFlat c)
    (hwt : WellTyped P c (fOr f g)) (hnc : NoBoolIntClash c (fOr f g)) :
    ∃ r rf rg, findFlt P c (fOr f g) = .ok r ∧ findFlt P c f = .ok rf ∧ findFlt P c g = .ok rg ∧
      ∀ j ∈ c, (j.id ∈ r ↔ j.id ∈ rf ∨ j.id ∈ rg) := by
  obtain ⟨r, hr, _, h⟩ := findFlt_mem_iff hids hP hflat hwt hnc
  obtain ⟨hwf, hwg⟩ := wellTyped_fOr hwt
  obtain ⟨rf, hrf, _, hf⟩ := findFlt_mem_iff hids hP hflat hwf hnc.2.2.2.1
  obtain ⟨rg, hrg, _, hg⟩ := findFlt_mem_iff hids hP hflat hwg hnc.2.2.2.2.1
  refine ⟨r, rf, rg, hr, hrf, hrg, ?_⟩
  intro j hj
  rw [h j hj, hf j hj, hg j hj, evalRef_fOr]
  obtain ⟨a, ha⟩ := hwf.1 j hj
  obtain ⟨b, hb⟩ := hwg.1 j hj
  rw [ha, hb]; cases a <;> cases b <;> simp


/-! ### the corollaries without `CorpusFlat` -/

/-- Locality (see `find_local_partial`), mappings inside lists allowed. -/
theorem find_local (P : Params) (c c' : Corpus) (f : Flt) (j : Job)
    (hj : j ∈ c) (hj' : j ∈ c')
    (hids : (c.map (·.id)).Nodup) (hids' : (c'.map (·.id)).Nodup) (hP : NearRespectsEq P)
    (hk : CorpusKeysNodup c) (hk' : CorpusKeysNodup c')
    (hwt : WellTyped P c f) (hwt' : WellTyped P c' f)
    (hnc : NoBoolIntClash c f) (hnc' : NoBoolIntClash c' f) :
    ∃ r r', findFlt P c f = .ok r ∧ findFlt P c' f = .ok r' ∧ (j.id ∈ r ↔ j.id ∈ r') := by
  obtain ⟨r, hr, _, h⟩ := Full.findFlt_mem_iff hids hP hk hwt hnc
  obtain ⟨r', hr', _, h'⟩ := Full.findFlt_mem_iff hids' hP hk' hwt' hnc'
  exact ⟨r, r', hr, hr', by rw [h j hj, h' j hj']⟩

/-- `$not` is the complement of its operand's result, mappings inside lists allowed. -/
theorem not_compl (P : Params) (c : Corpus) (f : Flt)
    (hids : (c.map (·.id)).Nodup) (hP : NearRespectsEq P) (hk : CorpusKeysNodup c)
    (hwt : WellTyped P c (fNot f)) (hnc : NoBoolIntClash c (fNot f)) :
    ∃ rn rf, findFlt P c (fNot f) = .ok rn ∧ findFlt P c f = .ok rf ∧
      ∀ j ∈ c, (j.id ∈ rn ↔ j.id ∉ rf) := by
  obtain ⟨rn, hrn, _, hn⟩ := Full.findFlt_mem_iff hids hP hk hwt hnc
  have hwf := wellTyped_fNot hwt
  obtain ⟨rf, hrf, _, hf⟩ := Full.findFlt_mem_iff hids hP hk hwf hnc.2.1
  refine ⟨rn, rf, hrn, hrf, ?_⟩
  intro j hj
  rw [hn j hj, hf j hj, evalRef_fNot]
  obtain ⟨b, hb⟩ := hwf.1 j hj
  rw [hb]; cases b <;> simp

/-- `$and` is the intersection of its operands' results, mappings inside lists allowed. -/
theorem and_inter (P : Params) (c : Corpus) (f g : Flt)
    (hids : (c.map (·.id)).Nodup) (hP : NearRespectsEq P) (hk : CorpusKeysNodup c)
    (hwt : WellTyped P c (fAnd f g)) (hnc : NoBoolIntClash c (fAnd f g)) :
    ∃ r rf rg, findFlt P c (fAnd f g) = .ok r ∧ findFlt P c f = .ok rf ∧ findFlt P c g = .ok rg ∧
      ∀ j ∈ c, (j.id ∈ r ↔ j.id ∈ rf ∧ j.id ∈ rg) := by
  obtain ⟨r, hr, _, h⟩ := Full.findFlt_mem_iff hids hP hk hwt hnc
  obtain ⟨hwf, hwg⟩ := wellTyped_fAnd hwt
  obtain ⟨rf, hrf, _, hf⟩ := Full.findFlt_mem_iff hids hP hk hwf hnc.2.2.1.1
  obtain ⟨rg, hrg, _, hg⟩ := Full.findFlt_mem_iff hids hP hk hwg hnc.2.2.1.2.1
  refine ⟨r, rf, rg, hr, hrf, hrg, ?_⟩
  intro j hj
  rw [h j hj, hf j hj, hg j hj, evalRef_fAnd]
  obtain ⟨a, ha⟩ := hwf.1 j hj
  obtain ⟨b, hb⟩ := hwg.1 j hj
  rw [ha, hb]; cases a <;> cases b <;> simp

/-- `$or` is the union of its operands' results, mappings inside lists allowed. -/
theorem or_union (P : Params) (c : Corpus) (f g : Flt)
    (hids : (c.map (·.id)).Nodup) (hP : NearRespectsEq P) (hk : CorpusKeysNodup c)
    (hwt : WellTyped P c (fOr f g)) (hnc : NoBoolIntClash c (fOr f g)) :
    ∃ r rf rg, findFlt P c (fOr f g) = .ok r ∧ findFlt P c f = .ok rf ∧ findFlt P c g = .ok rg ∧
      ∀ j ∈ c, (j.id ∈ r ↔ j.id ∈ rf ∨ j.id ∈ rg) := by
  obtain ⟨r, hr, _, h⟩ := Full.findFlt_mem_iff hids hP hk hwt hnc
  obtain ⟨hwf, hwg⟩ := wellTyped_fOr hwt
  obtain ⟨rf, hrf, _, hf⟩ := Full.findFlt_mem_iff hids hP hk hwf hnc.2.2.2.1
  obtain ⟨rg, hrg, _, hg⟩ := Full.findFlt_mem_iff hids hP hk hwg hnc.2.2.2.2.1
  refine ⟨r, rf, rg, hr, hrf, hrg, ?_⟩
  intro j hj
  rw [h j hj, hf j hj, hg j hj, evalRef_fOr]
  obtain ⟨a, ha⟩ := hwf.1 j hj
  obtain ⟨b, hb⟩ := hwg.1 j hj
  rw [ha, hb]; cases a <;> cases b <;> simp

/-- Deciding from the root keys (with `$not` descended: fix of F-6b) whether documents are indexed
    loses nothing: the verdict on what is indexed is the verdict on the job's full data. -/
theorem indexed_data_suffices (P : Params) (j : Job) (f : Flt) :
    evalRef P (indexedDoc (includeDoc f) j) f = evalRef P (fullDoc j) f :=
  evalRef_indexed P j f

/-- Exactly the bool/int pair makes two keys of one slot differ in Python type: two slot-sharing
    values that are not (bool, int) or (int, bool) have the same type name, so `$type` cannot tell
    them apart and `NoBoolIntClash` holds for them. -/
theorem slot_clash_only_bool_int (v w : JVal) (h : slotEq (.val v) (.val w) = true) :
    pyTypeName v = pyTypeName w
      ∨ (pyTypeName v = "bool" ∧ pyTypeName w = "int") ∨ (pyTypeName v = "int" ∧ pyTypeName w = "bool") := by
  cases v <;> cases w <;> simp_all [slotEq, pyEq, slotTag, pyTypeName, numVal]

/-! ### the full statements, and why they are not theorems -/

def P0 : Params :=
  { rx := fun _ _ => some false, floatStr := fun _ => true, isclose := fun _ _ _ _ => some false }

theorem P0_near : NearRespectsEq P0 := fun _ _ _ _ _ _ _ _ => rfl

/-- The statement without the two extra hypotheses (`CorpusFlat`, `NoBoolIntClash`). -/
def find_eq_ref_full : Prop :=
  ∀ (P : Params) (c : Corpus) (f : Flt), (c.map (·.id)).Nodup → NearRespectsEq P → WellTyped P c f →
    ∃ r, findFlt P c f = .ok r ∧
      ∀ i, i ∈ r ↔ ∃ j ∈ c, j.id = i ∧ evalRef P (fullDoc j) f = .ok true

/-- The statement with `CorpusFlat` dropped and nothing put in its place.  Settled: for data as
    Python can hold it (distinct keys in every mapping) it is the theorem `find_eq_ref`; read
    literally over the model's association lists, which may repeat a key, it is false
    (`find_eq_ref_nonflat_false`) — a fact about the model's value type, not about signac. -/
def find_eq_ref_nonflat : Prop :=
  ∀ (P : Params) (c : Corpus) (f : Flt), (c.map (·.id)).Nodup → NearRespectsEq P → WellTyped P c f →
    NoBoolIntClash c f →
    ∃ r, findFlt P c f = .ok r ∧
      ∀ i, i ∈ r ↔ ∃ j ∈ c, j.id = i ∧ evalRef P (fullDoc j) f = .ok true

/-- two "mappings" inside a list, the first with a repeated key — no Python dict looks like it -/
def dupCorpus : Corpus :=
  [⟨"x", .obj [("a", .arr [.obj [("k", .int 1), ("k", .int 1)]])], none⟩,
   ⟨"y", .obj [("a", .arr [.obj [("k", .int 1), ("m", .int 2)]])], none⟩]

def dupFilter : Flt := .mk [("sp.a", .arr [.obj [("k", .int 1), ("z", .int 3)]])] none none none

theorem dupFilter_noClash : NoBoolIntClash dupCorpus dupFilter := by
  have e1 : analyseKey "sp.a" = .plain ["sp", "a"] := by decide
  refine ⟨?_, trivial, trivial, trivial⟩
  intro kv hkv nodes ha
  simp [flatten, flattenVal] at hkv
  subst hkv
  simp only [e1] at ha
  cases ha

/-- Why `CorpusKeysNodup` is a hypothesis of `find_eq_ref`: the model's `==` on association lists
    (same length, every entry of the left found on the right) is an equivalence only for distinct
    keys.  With the repeated key, `[{k:1,k:1}] == [{k:1,m:2}]` holds (not conversely), so both jobs
    share one index slot whose stored key is the first; the filter value `[{k:1,z:3}]` is `==` to
    that stored key but not to the second job's value.  The index returns both jobs, direct
    evaluation accepts only the first.  Unreachable from Python, where dict keys are distinct. -/
theorem find_eq_ref_nonflat_false : ¬ find_eq_ref_nonflat := by
  intro h
  obtain ⟨r, hr, hsel⟩ := h P0 dupCorpus dupFilter (by decide) P0_near
    ⟨by decide, by decide⟩ dupFilter_noClash
  have e : findFlt P0 dupCorpus dupFilter = .ok ["x", "y"] := by decide
  rw [e] at hr
  cases hr
  obtain ⟨j, hj, hid, hv⟩ := (hsel "y").mp (by decide)
  simp only [dupCorpus, List.mem_cons, List.not_mem_nil, or_false] at hj
  rcases hj with rfl | rfl
  · exact absurd hid (by decide)
  · exact absurd hv (by decide)

def clashCorpus : Corpus :=
  [⟨"x", .obj [("a", .bool true)], none⟩, ⟨"y", .obj [("a", .int 1)], none⟩]

def clashFilter : Flt := .mk [("sp.a", .obj [("$type", .str "bool")])] none none none

/-- F-6a in the model: jobs `{a: True}`, `{a: 1}` and `{'a': {'$type': 'bool'}}` — the index
    returns both jobs, direct evaluation accepts only the first.  Hence the full statement is
    false of the model (as it is of the code). -/
theorem find_eq_ref_full_false : ¬ find_eq_ref_full := by
  intro h
  obtain ⟨r, hr, hsel⟩ := h P0 clashCorpus clashFilter (by decide) P0_near
    ⟨by decide, by decide⟩
  have e : findFlt P0 clashCorpus clashFilter = .ok ["x", "y"] := by decide
  rw [e] at hr
  cases hr
  obtain ⟨j, hj, hid, hv⟩ := (hsel "y").mp (by decide)
  simp only [clashCorpus, List.mem_cons, List.not_mem_nil, or_false] at hj
  rcases hj with rfl | rfl
  · exact absurd hid (by decide)
  · exact absurd hv (by decide)

/-- F-6b in the model: with the former `_root_keys` (not descending into `$not`) documents are
    not indexed for `{'$not': {'doc.d': 1}}`, and the job whose document has `d == 1` is returned;
    with the fixed root keys it is not. -/
theorem old_root_keys_lose_documents :
    let c : Corpus := [⟨"x", .obj [], some (.obj [("d", .int 1)])⟩, ⟨"y", .obj [("a", .int 0)], none⟩]
    let flt : JVal := .obj [("$not", .obj [("doc.d", .int 1)])]
    findJobsOld P0 c flt = .ok ["x", "y"] ∧ findJobs P0 c flt = .ok ["y"] := by
  decide

/-! ### non-vacuity: the hypotheses of the main theorem hold for a concrete non-trivial instance -/

def exJ1 : Job := ⟨"j1", .obj [("a", .int 1), ("n", .obj [("x", .str "u")])], some (.obj [("d", .flt 1 1 "0.5")])⟩
def exJ2 : Job := ⟨"j2", .obj [("a", .flt 1 0 "1.0"), ("b", .arr [.int 1, .int 2])], none⟩
def exJ3 : Job := ⟨"j3", .obj [("a", .bool true)], some (.obj [("d", .int 2)])⟩
def exCorpus : Corpus := [exJ1, exJ2, exJ3]

/-- `{'a': 1, '$not': {'doc.d': {'$gt': 1}}, '$or': [{'n.x': 'u'}, {'b': {'$exists': True}}]}` -/
def exFilter : Flt :=
  .mk [("sp.a", .int 1)]
    (some (.mk [("doc.d", .obj [("$gt", .int 1)])] none none none))
    none
    (some [.mk [("sp.n.x", .str "u")] none none none, .mk [("sp.b", .obj [("$exists", .bool true)])] none none none])

theorem exFilter_noClash : NoBoolIntClash exCorpus exFilter := by
  have e1 : analyseKey "sp.a" = .plain ["sp", "a"] := by decide
  have e2 : analyseKey "doc.d.$gt" = .op ["doc", "d"] "$gt" := by decide
  have e3 : analyseKey "sp.n.x" = .plain ["sp", "n", "x"] := by decide
  have e4 : analyseKey "sp.b.$exists" = .op ["sp", "b"] "$exists" := by decide
  refine ⟨?_, ⟨?_, trivial, trivial, trivial⟩, trivial, ⟨?_, trivial, trivial, trivial⟩, ⟨?_, trivial, trivial, trivial⟩, trivial⟩
  all_goals
    intro kv hkv nodes ha
    simp [flatten, flattenVal, flattenKVs] at hkv
    subst hkv
    simp only [e1, e2, e3, e4] at ha
    first | cases ha | (simp at ha)

example : (exCorpus.map (·.id)).Nodup ∧ NearRespectsEq P0 ∧ CorpusFlat exCorpus
    ∧ WellTyped P0 exCorpus exFilter ∧ NoBoolIntClash exCorpus exFilter :=
  ⟨by decide, P0_near, by unfold CorpusFlat; decide, ⟨by decide, by decide⟩, exFilter_noClash⟩

/-- the theorem applied: without running the index, `j1` is selected and `j3` is not -/
example : ∃ r, findFlt P0 exCorpus exFilter = .ok r ∧ "j1" ∈ r ∧ "j3" ∉ r := by
  obtain ⟨r, hr, _, h⟩ := find_mem_iff_partial P0 exCorpus exFilter (by decide) P0_near
    (by unfold CorpusFlat; decide) ⟨by decide, by decide⟩ exFilter_noClash
  refine ⟨r, hr, ?_, ?_⟩
  · exact (h exJ1 (by simp [exCorpus])).mpr (by decide)
  · intro hm
    exact absurd ((h exJ3 (by simp [exCorpus])).mp hm) (by decide)

/-! ### non-vacuity of `find_eq_ref`: mappings inside lists, at two depths -/

def nfJ1 : Job := ⟨"n1", .obj [("a", .arr [.obj [("k", .int 1), ("m", .arr [.obj [("u", .str "s")]])]])], none⟩
def nfJ2 : Job := ⟨"n2", .obj [("a", .arr [.obj [("m", .arr [.obj [("u", .str "s")]]), ("k", .flt 1 0 "1.0")]])], none⟩
def nfJ3 : Job := ⟨"n3", .obj [("a", .arr [.obj [("k", .int 2)]])], some (.obj [("d", .int 0)])⟩
def nfCorpus : Corpus := [nfJ1, nfJ2, nfJ3]

/-- `{'a': [{'k': 1, 'm': [{'u': 's'}]}]}` -/
def nfFilter : Flt :=
  .mk [("sp.a", .arr [.obj [("k", .int 1), ("m", .arr [.obj [("u", .str "s")]])]])] none none none

theorem nfFilter_noClash : NoBoolIntClash nfCorpus nfFilter := by
  have e1 : analyseKey "sp.a" = .plain ["sp", "a"] := by decide
  refine ⟨?_, trivial, trivial, trivial⟩
  intro kv hkv nodes ha
  simp [flatten, flattenVal] at hkv
  subst hkv
  simp only [e1] at ha
  cases ha

example : (nfCorpus.map (·.id)).Nodup ∧ NearRespectsEq P0 ∧ CorpusKeysNodup nfCorpus
    ∧ ¬ CorpusFlat nfCorpus ∧ WellTyped P0 nfCorpus nfFilter ∧ NoBoolIntClash nfCorpus nfFilter :=
  ⟨by decide, P0_near, by unfold CorpusKeysNodup; decide, by unfold CorpusFlat; decide,
    ⟨by decide, by decide⟩, nfFilter_noClash⟩

/-- the theorem applied: `n1` and `n2` (same mapping, keys in another order, `1.0` for `1`) are
    selected, `n3` is not -/
example : ∃ r, findFlt P0 nfCorpus nfFilter = .ok r ∧ "n1" ∈ r ∧ "n2" ∈ r ∧ "n3" ∉ r := by
  obtain ⟨r, hr, _, h⟩ := find_mem_iff P0 nfCorpus nfFilter (by decide) P0_near
    (by unfold CorpusKeysNodup; decide) ⟨by decide, by decide⟩ nfFilter_noClash
  refine ⟨r, hr, ?_, ?_, ?_⟩
  · exact (h nfJ1 (by simp [nfCorpus])).mpr (by decide)
  · exact (h nfJ2 (by simp [nfCorpus])).mpr (by decide)
  · intro hm
    exact absurd ((h nfJ3 (by simp [nfCorpus])).mp hm) (by decide)

end Signac.C06

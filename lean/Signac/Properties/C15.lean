/-
  C15 — sync options are honoured: dry-run writes nothing, deep, exclude, selection, parallel.

  Same model as C13 (Signac/Sync.lean), i.e. the code with the fixes F-15a…f applied: every
  file mutation is gated by the proxy (also `copytree`), nested documents are proxied, `deep` is
  forwarded to the job level, `copytree` prunes excluded names, a dry run onto a missing
  destination job is a no-op.  Property theorems only; proofs in Signac/Proofs/Sync*.lean.
-/
import Signac.Proofs.SyncMore
import Signac.Proofs.SyncParallel
namespace Signac.C15
open Signac Signac.Sync

/-- `dry_run_frame` (1): with `dry_run=True` no mutating step is performed and the destination is
    returned unchanged — at every entry point, for every outcome. -/
theorem dry_run_no_step (o : Opts) (h : o.dry = true) (e : Entry) (w : World) :
    (run o e w).log = [] ∧ (w.after o e).dst = w.dst ∧ (w.after o e).src = w.src :=
  ⟨(run_dry o h e w).1, (run_dry o h e w).2, rfl⟩

/-- `dry_run_frame` (2): the dry run reports exactly what the real run from the same state reports:
    ok, FileSyncConflict(f), DocumentSyncConflict(keys), SchemaSyncConflict, ….  Hypotheses: directory
    listings of the source have distinct names; source job documents have distinct keys; the
    implicit exclude patterns match the file names they are made from (`TablesOk`, true of
    `re.match`). -/
theorem dry_run_same_outcome (o : Opts) (e : Entry) (w : World) (hw : WFEntries (wsOf w.src))
    (ht : TablesOk o)
    (hdoc : ∀ id sjob, getE id (wsOf w.src) = some (.dir sjob) →
      (keys (docOf Extracted.FN_JOB_DOCUMENT sjob)).Nodup) :
    (run o.asDry e w).err = (run o e w).err := (run_err_dry o e w hw ht hdoc).symm

/-- `deep_by_content`: under `deep=True` two files differ iff their bytes differ, whatever their
    sizes' and timestamps' relation (equal bytes have equal size). -/
theorem deep_by_content (a b : FMeta) (h : SizeOfCid a b) : differs true a b = true ↔ a.cid ≠ b.cid :=
  differs_deep_iff a b h

/-- … at the job level: with `deep` and no strategy a reachable non-excluded file with different
    bytes — even with equal size and mtime — makes `sync_jobs` raise FileSyncConflict … -/
theorem deep_conflict_detected (o : Opts) (hdeep : o.deep = true) (sjob djob : Entries) (n : Name)
    (p : Path) (ms md : FMeta) (hwf : WFEntries sjob) (hb : Both sjob djob n p ms md)
    (hrec : p ≠ [] → o.recursive = true) (hsz : SizeOfCid ms md) (hbytes : ms.cid ≠ md.cid)
    (hx : excluded o (lastName n p) = false) (hst : o.strategy = Strategy.none) :
    ∃ fn, (syncJobDirs o sjob djob).err = some (.fileConflict fn) := by
  have hdiff : differs o.deep ms md = true := by rw [hdeep]; exact (differs_deep_iff ms md hsz).mpr hbytes
  have hne := walk_conflict_fails o hb [] hwf hrec hdiff hx hst
  cases he : (walkDir o [] (.dir sjob) djob).err with
  | none => exact absurd he hne
  | some e =>
    obtain ⟨fn, hfn⟩ := walkDir_err_kind o [] (.dir sjob) djob e he
    exact ⟨fn, by simp only [syncJobDirs, he, hfn]⟩

/-- … and at the project level: a successful project sync has run `sync_jobs` with the very same
    options (in particular the same `deep`) on every selected job that existed, so with `deep`
    and no strategy such a job has no reachable non-excluded file with different bytes. -/
theorem deep_at_project_level (o : Opts) (hdry : o.dry = false) (hdeep : o.deep = true) (w : World)
    (id : Name) (sjob djob ws : Entries) (n : Name) (p : Path) (ms md : FMeta)
    (hnd : (names (wsOf w.src)).Nodup) (hs : getE id (wsOf w.src) = some (.dir sjob))
    (hsel : selected o id = true) (hws : getE WS w.dst = some (.dir ws))
    (hd : getE id ws = some (.dir djob))
    (hwf : WFEntries sjob) (hb : Both sjob djob n p ms md) (hrec : p ≠ [] → o.recursive = true)
    (hsz : SizeOfCid ms md) (hbytes : ms.cid ≠ md.cid) (hx : excluded o (lastName n p) = false)
    (hst : o.strategy = Strategy.none) :
    (run o .project w).err ≠ none := by
  intro hok
  have h := syncProjects_ok o w.src w.dst hok
  simp only [run] at hok
  rw [h.2] at hok
  have hws' : getE WS (syncDoc o Extracted.FN_PROJECT_DOCUMENT w.src ⟨w.dst, []⟩).d = some (.dir ws) := by
    rw [getE_syncDoc_other o _ w.src ⟨w.dst, []⟩ WS pdoc_ne_ws pdoc_bak_ne_ws]; exact hws
  obtain ⟨fn, hfn⟩ := deep_conflict_detected o hdeep sjob djob n p ms md hwf hb hrec hsz hbytes hx hst
  rcases syncJobs_job o hdry id sjob (wsOf w.src) _ ws hnd hs hsel hws' hok with ⟨h0, _⟩ | ⟨dj, h1, h2, _⟩ | ⟨m, h1⟩
  · rw [hd] at h0; cases h0
  · rw [hd] at h1; cases h1
    rw [hfn] at h2; cases h2
  · rw [hd] at h1; cases h1

/-- `exclude_never_touched` (existing job): a path whose last name is excluded and that the
    destination does not have is not created; a destination file with an excluded name is not
    modified — in every run, at every depth (the walk, and `copytree` of a missing directory). -/
theorem exclude_never_touched (o : Opts) (sjob djob : Entries) (n : Name) (p : Path) (hwf : WFEntries sjob)
    (hx : excluded o (lastName n p) = true)
    (h1 : n ≠ Extracted.FN_JOB_DOCUMENT) (h2 : n ≠ Extracted.FN_JOB_DOCUMENT ++ "~") :
    (lookupP n p djob = none → lookupP n p (syncJobDirs o sjob djob).d = none) ∧
    (∀ md, lookupP n p djob = some (.file md) → lookupP n p (syncJobDirs o sjob djob).d = some (.file md)) := by
  rw [syncJobDirs_lookup o sjob djob n p h1 h2]
  exact ⟨walk_excluded_not_created o p n [] sjob djob hwf hx,
         fun md => walk_excluded_not_modified o p n [] sjob djob md hwf hx⟩

/-- `exclude_never_touched` (cloned job): a clone holds no top-level name matching a user pattern
    (other than the state point and the document) and, below the top level, no path whose last
    name matches a user pattern. -/
theorem exclude_never_cloned (o : Opts) (sjob : Entries) (n : Name) :
    (cloneIgnored o n = true → lookupP n [] (cloneJob o sjob) = none) ∧
    (∀ k q, o.userExcl (lastName k q) = true → lookupP n (k :: q) (cloneJob o sjob) = none) := by
  refine ⟨fun h => by simp [lookupP, cloneJob, getE_copyTop, h], fun k q h => ?_⟩
  simp only [lookupP, cloneJob, getE_copyTop]
  cases cloneIgnored o n with
  | true => simp
  | false =>
    simp only [Bool.false_eq_true, if_false]
    cases hg : getE n sjob with
    | none => simp
    | some c =>
      cases c with
      | file m => simp [copyNode]
      | dir ch =>
        simp only [Option.map, copyNode]
        exact copy_lookup_ignored o.now o.userExcl q k ch h

/-- `unselected_never_touched`: a job outside the selection (or one the source does not have) is
    neither created nor modified by a project sync, in every run. -/
theorem unselected_never_touched (o : Opts) (w : World) (id : Name)
    (h : ∀ sn, (id, sn) ∈ wsOf w.src → selected o id = false) :
    getE id (wsOf (w.after o .project).dst) = getE id (wsOf w.dst) := by
  simp only [World.after, run]
  rcases syncProjects_ws o w.src w.dst with h' | h'
  · rw [h']
  · rw [h', syncJobs_job_other o id (wsOf w.src) h, wsOf_syncDoc]

/-- `parallel_eq_sequential`: the steps logged for one job all have their footprint inside that
    job's directory (`head_under`), steps with different footprints commute, hence two schedules
    (e.g. the sequential one and any interleaving produced by the thread pool) that contain each
    job's steps in the same order leave every job directory in the same state.  Assumes each
    step is atomic. -/
theorem parallel_eq_sequential (ws : Entries) (l1 l2 : List Step)
    (h : ∀ job, stepsOf job l1 = stepsOf job l2) (job : Name) :
    getE job (applyAll ws l1) = getE job (applyAll ws l2) := schedules_agree ws l1 l2 h job

/-- the per-job step lists have pairwise disjoint footprints -/
theorem per_job_footprint (id k : Name) (ss : List Step) :
    stepsOf k (ss.map (Step.under id)) = if id = k then ss.map (Step.under id) else [] := by
  by_cases h : id = k
  · subst h; simp [stepsOf_map_under_same]
  · simp [h, stepsOf_map_under_other h]

/-! non-vacuity -/

def exOpts (dry deep : Bool) : Opts :=
  { strategy := .none, docSync := .byKey none, recursive := true,
    userExcl := fun n => n == "skip.log",
    spPat := fun n => n == Extracted.FN_STATE_POINT,
    docPat := fun n => n == Extracted.FN_JOB_DOCUMENT || n == Extracted.FN_JOB_DOCUMENT ++ "~",
    selection := some ["j1"], checkSchema := false, gate := false, dry := dry, deep := deep, now := 9 }

def exSrcJob : Entries :=
  [("both", .file ⟨4, 3, 5, none⟩), ("d", .dir [("skip.log", .file ⟨3, 2, 5, none⟩)]), ("f", .file ⟨8, 1, 5, none⟩)]
def exDstJob : Entries := [("both", .file ⟨5, 3, 5, none⟩)]

def exWorld : World :=
  { src := [(WS, .dir [("j1", .dir exSrcJob), ("j2", .dir exSrcJob)])],
    dst := [(WS, .dir [("j1", .dir exDstJob)])] }

example : WFEntries (wsOf exWorld.src) ∧ TablesOk (exOpts false true) ∧
    (run (exOpts true true) .project exWorld).err = some (.fileConflict "both") ∧
    (run (exOpts true false) .project exWorld).err = none :=
  ⟨by simp [WFEntries, WFNode, exWorld, wsOf, getE, WS, exSrcJob, names],
   ⟨⟨by decide, by decide⟩, by decide⟩, by rfl, by decide⟩

example : Both exSrcJob exDstJob "both" [] ⟨4, 3, 5, none⟩ ⟨5, 3, 5, none⟩ ∧
    SizeOfCid ⟨4, 3, 5, none⟩ ⟨5, 3, 5, none⟩ ∧ excluded (exOpts false true) (lastName "d" ["skip.log"]) = true ∧
    lookupP "d" ["skip.log"] exDstJob = none ∧
    (∀ sn, ("j2", sn) ∈ wsOf exWorld.src → selected (exOpts false false) "j2" = false) :=
  ⟨Both.top (by rfl) (by rfl), by simp [SizeOfCid], by decide, by rfl, fun _ _ => by decide⟩

example : ∀ job, stepsOf job [Step.put "a" ["x"] (.dir []), .put "b" [] (.dir []), .del "a" ["y"]] =
    stepsOf job [Step.put "b" [] (.dir []), .put "a" ["x"] (.dir []), .del "a" ["y"]] := by
  intro job
  by_cases ha : job = "a"
  · subst ha; rfl
  · by_cases hb : job = "b"
    · subst hb; rfl
    · have h1 : ("a" == job) = false := by simpa using fun e => ha e.symm
      have h2 : ("b" == job) = false := by simpa using fun e => hb e.symm
      simp [stepsOf, List.filter, Step.head, h1, h2]

end Signac.C15

/-
  C01 — the job id is the canonical, order-independent hash of the state point.
  Property theorems only; helper lemmas live in Signac/Proofs.
-/
import Signac.Extracted
import Signac.Proofs.Canon
import Signac.Proofs.Sorted
import Signac.Proofs.Md5Shape
import Signac.Proofs.FloatTokB
import Signac.Proofs.EncInj
import Signac.Proofs.BytesInj
import Signac.Proofs.JsonRoundTrip
namespace Signac.C01
open Signac

/-- The id is, by definition of the model, the MD5 hex digest of the UTF-8 bytes of the
    canonical text (sorted keys at every level, ", " / ": ", ASCII escapes). Stated so that
    the definition the other theorems talk about is visible. -/
theorem calcId_is_md5_of_canonText (v : JVal) :
    calcId v = md5hex (utf8 (encChars (canon v))) := rfl

/-- Order independence at every nesting level: two values related by any sequence of
    re-orderings of object entries (anywhere inside the value) have the same id. -/
theorem calcId_equiv {v w : JVal} (h : JEquiv v w) : calcId v = calcId w := by
  simp only [calcId, calcIdChars, canonChars, equiv_canon h]

/-- Every permutation of the entries of a mapping with distinct keys gives the same id. -/
theorem calcId_perm {a b : List (String × JVal)} (hp : a.Perm b)
    (hn : (a.map Prod.fst).Nodup) : calcId (.obj a) = calcId (.obj b) := by
  simp only [calcId, calcIdChars, canonChars, canon, canonObj_perm hp hn]

/-- The hashed text has its keys strictly increasing in every object at every depth. -/
theorem canon_sorted (v : JVal) : SortedDeep (canon v) := Signac.canon_sorted v

/-- Hashing the already-sorted spelling (e.g. what a `sort_keys` dump re-parses to)
    gives the same id: `canon` is idempotent. -/
theorem calcId_canon (v : JVal) : calcId (canon v) = calcId v := by
  simp only [calcId, calcIdChars, canonChars, canon_idem]

/-- The id has exactly `JOB_ID_LENGTH` characters, all lower-case hexadecimal
    (`JOB_ID_LENGTH` is regenerated from the running `signac.project`). -/
theorem calcId_shape (v : JVal) :
    (calcIdChars v).length = Extracted.JOB_ID_LENGTH ∧ ∀ c ∈ calcIdChars v, c ∈ hexAlphabet :=
  ⟨md5hexChars_length _, md5hexChars_hex _⟩

/-- The workspace scanner's pattern is the one ids satisfy: 32 characters of `[a-f0-9]`. -/
theorem id_pattern_is_32_hex :
    Extracted.JOB_ID_REGEX = "[a-f0-9]{" ++ toString Extracted.JOB_ID_LENGTH ++ "}"
    ∧ Extracted.JOB_ID_LENGTH = 32 := by decide

/- non-vacuity: a concrete non-trivial instance of the hypotheses of `calcId_equiv`
   (nested re-ordering) and of `calcId_perm`. -/
example : JEquiv (.obj [("b", .arr [.obj [("x", .int 1), ("y", .null)]]), ("a", .int 1)])
                 (.obj [("a", .int 1), ("b", .arr [.obj [("y", .null), ("x", .int 1)]])]) :=
  JEquiv.trans
    (JEquiv.swap [] [] "b" "a" _ _ (by decide))
    (JEquiv.inObj [("a", .int 1)] [] "b"
      (JEquiv.inArr [] [] (JEquiv.swap [] [] "x" "y" _ _ (by decide))))

example : ([("b", JVal.int 2), ("a", JVal.int 1)].Perm [("a", .int 1), ("b", .int 2)])
    ∧ (([("b", JVal.int 2), ("a", JVal.int 1)]).map Prod.fst).Nodup :=
  ⟨List.Perm.swap _ _ _, by decide⟩

/-! ### The converse: state points that differ as JSON values are hashed from different bytes

`FloatsOk fv v` (Signac/Proofs/EncInj.lean) says that every float leaf of `v` carries a
well-formed float token (`FloatTok`: non-empty, characters of `0123456789+-.eNaIfinty`, at
least one character that an integer token cannot contain) and that the token determines the
float's value through `fv`.  The model treats CPython's float `repr` as an opaque token, so
this is the hypothesis under which "same text, same value" can hold at all. -/

/-- `json.dumps` is injective: the printed text determines the value (key order included). -/
theorem encChars_injective (fv : String → Int × Nat) {v w : JVal} (hv : FloatsOk fv v)
    (hw : FloatsOk fv w) (h : encChars v = encChars w) : v = w :=
  encChars_inj fv hv hw h

/-- The hashed text determines the canonical value: 1 vs 1.0 vs true vs "1", a different list
    order, an extra key, … all change the text. -/
theorem canonChars_injective (fv : String → Int × Nat) {v w : JVal} (hv : FloatsOk fv v)
    (hw : FloatsOk fv w) (h : canonChars v = canonChars w) : canon v = canon w :=
  encChars_inj fv (canon_floatsOk fv v hv) (canon_floatsOk fv w hw) h

/-- Two state points that differ as JSON values are hashed from different byte strings. -/
theorem distinct_values_distinct_hashed_bytes (fv : String → Int × Nat) {v w : JVal}
    (hv : FloatsOk fv v) (hw : FloatsOk fv w) (h : canon v ≠ canon w) :
    utf8 (canonChars v) ≠ utf8 (canonChars w) :=
  fun hb => h (canonChars_injective fv hv hw (utf8_inj hb))

/-- Equal ids of different state points are an MD5 collision, nothing else. -/
theorem equal_ids_collision_or_equal (fv : String → Int × Nat) {v w : JVal}
    (hv : FloatsOk fv v) (hw : FloatsOk fv w) (h : calcId v = calcId w) :
    canon v = canon w ∨
      (utf8 (canonChars v) ≠ utf8 (canonChars w)
        ∧ md5 (utf8 (canonChars v)) = md5 (utf8 (canonChars w))) := by
  have hm : md5 (utf8 (canonChars v)) = md5 (utf8 (canonChars w)) :=
    hexOfBytes_inj _ _ (String.ofList_injective h)
  by_cases hc : canon v = canon w
  · exact Or.inl hc
  · exact Or.inr ⟨distinct_values_distinct_hashed_bytes fv hv hw hc, hm⟩

/- Concrete instances.  `fvDemo` reads the two float tokens used below. -/
def fvDemo (r : String) : Int × Nat :=
  if r = "1.0" then (1, 0) else if r = "-2.5" then (-5, 1) else (0, 0)

theorem floatTok_one : FloatTok "1.0" := ⟨by decide, by decide, by decide⟩

/-- {"a": 1}, {"a": 1.0}, {"a": true}, {"a": "1"}: pairwise different hashed bytes
    (by the theorem; the `decide` lines below re-check the texts by evaluation). -/
theorem int_float_bool_str_distinct :
    let i := JVal.obj [("a", .int 1)]
    let f := JVal.obj [("a", .flt 1 0 "1.0")]
    let b := JVal.obj [("a", .bool true)]
    let s := JVal.obj [("a", .str "1")]
    utf8 (canonChars i) ≠ utf8 (canonChars f) ∧ utf8 (canonChars i) ≠ utf8 (canonChars b) ∧
    utf8 (canonChars i) ≠ utf8 (canonChars s) ∧ utf8 (canonChars f) ≠ utf8 (canonChars b) ∧
    utf8 (canonChars f) ≠ utf8 (canonChars s) ∧ utf8 (canonChars b) ≠ utf8 (canonChars s) := by
  have hf : FloatsOk fvDemo (.obj [("a", .flt 1 0 "1.0")]) := by
    simp only [FloatsOk, FloatsOkObj, and_true]; exact ⟨floatTok_one, by decide⟩
  have hi : FloatsOk fvDemo (.obj [("a", .int 1)]) := by simp [FloatsOk, FloatsOkObj]
  have hb : FloatsOk fvDemo (.obj [("a", .bool true)]) := by simp [FloatsOk, FloatsOkObj]
  have hs : FloatsOk fvDemo (.obj [("a", .str "1")]) := by simp [FloatsOk, FloatsOkObj]
  refine ⟨?_, ?_, ?_, ?_, ?_, ?_⟩ <;>
    (apply distinct_values_distinct_hashed_bytes fvDemo (by assumption) (by assumption)
     simp [canon, canonObj, insertKV])

example : canonChars (.obj [("a", .int 1)]) = "{\"a\": 1}".toList
    ∧ canonChars (.obj [("a", .flt 1 0 "1.0")]) = "{\"a\": 1.0}".toList
    ∧ canonChars (.obj [("a", .bool true)]) = "{\"a\": true}".toList
    ∧ canonChars (.obj [("a", .str "1")]) = "{\"a\": \"1\"}".toList := by decide

/-- [1, 2] vs [2, 1]: list order matters. -/
theorem list_order_distinct :
    utf8 (canonChars (.arr [.int 1, .int 2])) ≠ utf8 (canonChars (.arr [.int 2, .int 1])) := by
  apply distinct_values_distinct_hashed_bytes fvDemo
    (by simp [FloatsOk, FloatsOkList]) (by simp [FloatsOk, FloatsOkList])
  simp [canon, canonList]

/-- {"a": 1} vs {"a": 1, "b": null}: an extra key matters, even with value null. -/
theorem extra_key_distinct :
    utf8 (canonChars (.obj [("a", .int 1)]))
      ≠ utf8 (canonChars (.obj [("a", .int 1), ("b", .null)])) := by
  apply distinct_values_distinct_hashed_bytes fvDemo
    (by simp [FloatsOk, FloatsOkObj]) (by simp [FloatsOk, FloatsOkObj])
  simp [canon, canonObj, insertKV]

example : canonChars (.arr [.int 1, .int 2]) ≠ canonChars (.arr [.int 2, .int 1])
    ∧ canonChars (.obj [("a", .int 1)]) ≠ canonChars (.obj [("a", .int 1), ("b", .null)]) := by
  decide

/- non-vacuity of `FloatsOk`: a nested value with float leaves (one of them inside an array
   inside an object) satisfies it for the concrete `fvDemo`. -/
example : FloatsOk fvDemo
    (.obj [("b", .arr [.flt (-5) 1 "-2.5", .obj [("x", .flt 1 0 "1.0"), ("y", .null)]]),
           ("a", .int 1)]) := by
  simp only [FloatsOk, FloatsOkObj, FloatsOkList, and_true]
  exact ⟨⟨⟨by decide, by decide, by decide⟩, by decide⟩, floatTok_one, by decide⟩

/-- The same with the hypothesis in executable form: `floatsTokB` is what the driver evaluates on
    every value of the correspondence run (`ftok` lines), `fvAgreesB fv` says the repr token
    determines the float's value.  So for the values the check runs on, equal ids mean equal
    canonical values or an MD5 collision. -/
theorem equal_ids_collision_or_equal_checked (fv : String → Int × Nat) {v w : JVal}
    (hv : floatsTokB v = true ∧ fvAgreesB fv v = true) (hw : floatsTokB w = true ∧ fvAgreesB fv w = true)
    (h : calcId v = calcId w) :
    canon v = canon w ∨
      (utf8 (canonChars v) ≠ utf8 (canonChars w) ∧ md5 (utf8 (canonChars v)) = md5 (utf8 (canonChars w))) :=
  equal_ids_collision_or_equal fv ((floatsOk_iff fv v).mpr hv) ((floatsOk_iff fv w).mpr hw) h

example : floatsTokB (.obj [("b", .arr [.flt (-5) 1 "-2.5", .obj [("x", .flt 1 0 "1.0")]]), ("a", .int 1)]) = true := by
  decide

/-! ### The JSON write/read round trip

`parseText fv` (Signac/JsonParse.lean) is the model's `json.loads`: objects are read as
association lists in the order written; float tokens become `.flt n e r` with `(n, e) = fv r`.
`FloatsOk fv v` is the same hypothesis as above: the float leaves of `v` carry float tokens
that `fv` reads back to their values. -/

/-- Reading `json.dumps(v)` gives `v` back, exactly (key order and duplicates included). -/
theorem dump_parses_back (fv : String → Int × Nat) {v : JVal} (hv : FloatsOk fv v) :
    parseText fv (dumpChars v) = some v :=
  parseText_enc fv hv

/-- Reading the hashed text `json.dumps(v, sort_keys=True)` gives the canonical value. -/
theorem canonText_parses_back (fv : String → Int × Nat) {v : JVal} (hv : FloatsOk fv v) :
    parseText fv (canonChars v) = some (canon v) :=
  parseText_canonChars fv hv

/-- The id is identical after a JSON write/read round trip through the sort_keys text:
    what is read back hashes to the original id. -/
theorem roundtrip_same_id (fv : String → Int × Nat) {v : JVal} (hv : FloatsOk fv v) :
    ∃ w, parseText fv (canonChars v) = some w ∧ calcId w = calcId v :=
  ⟨canon v, parseText_canonChars fv hv, calcId_canon v⟩

/-- … and through the insertion-order dump, i.e. the content of the state point file: reading
    the file back gives a state point with the same id (the validation `Job.init` /
    `_StatePointDict.load` perform). -/
theorem dump_roundtrip_same_id (fv : String → Int × Nat) {v : JVal} (hv : FloatsOk fv v) :
    ∃ w, parseText fv (dumpChars v) = some w ∧ calcId w = calcId v :=
  ⟨v, parseText_enc fv hv, rfl⟩

/-- Two texts produced by `json.dumps` that read back to the same value are the same text. -/
theorem parse_injective_on_range (fv : String → Int × Nat) {v w : JVal} (hv : FloatsOk fv v)
    (hw : FloatsOk fv w) (h : parseText fv (encChars v) = parseText fv (encChars w)) :
    encChars v = encChars w := by
  rw [parseText_enc fv hv, parseText_enc fv hw] at h
  rw [Option.some.inj h]

/- non-vacuity: a nested value with floats, a string needing every kind of escape (quote,
   backslash, control, BMP `\u00e9`, astral surrogate pair), an empty array and an empty object
   satisfies the hypothesis for the concrete `fvDemo`, so its dump and its hashed text read back. -/
example :
    let v := JVal.obj [("b", .arr [.flt (-5) 1 "-2.5", .obj [("x", .flt 1 0 "1.0"), ("y", .null)]]),
                       ("a", .int (-12)), ("s", .str "q\"\\\n\x01é😀"), ("e", .arr []), ("o", .obj [])]
    FloatsOk fvDemo v ∧ parseText fvDemo (dumpChars v) = some v
      ∧ parseText fvDemo (canonChars v) = some (canon v) := by
  refine ⟨?_, ?_⟩
  · simp only [FloatsOk, FloatsOkObj, FloatsOkList, and_true]
    exact ⟨⟨⟨by decide, by decide, by decide⟩, by decide⟩, floatTok_one, by decide⟩
  · have hv : FloatsOk fvDemo (JVal.obj [("b", .arr [.flt (-5) 1 "-2.5",
        .obj [("x", .flt 1 0 "1.0"), ("y", .null)]]), ("a", .int (-12)),
        ("s", .str "q\"\\\n\x01é😀"), ("e", .arr []), ("o", .obj [])]) := by
      simp only [FloatsOk, FloatsOkObj, FloatsOkList, and_true]
      exact ⟨⟨⟨by decide, by decide, by decide⟩, by decide⟩, floatTok_one, by decide⟩
    exact ⟨dump_parses_back fvDemo hv, canonText_parses_back fvDemo hv⟩

end Signac.C01

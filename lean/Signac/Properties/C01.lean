/-
  C01 — the job id is the canonical, order-independent hash of the state point.
  Property theorems only; helper lemmas live in Signac/Proofs.
-/
import Signac.Extracted
import Signac.Proofs.Canon
import Signac.Proofs.Sorted
import Signac.Proofs.Md5Shape
namespace Signac.C01
open Signac

/-- The id is, by definition of the model, the MD5 hex digest of the UTF-8 bytes of the
    canonical text (sorted keys at every level, ", " / ": ", ASCII escapes). Stated so that
    the definition the other theorems talk about is visible. -/
theorem calcId_is_md5_of_canonText (v : JVal) :
    calcId v = md5hex (utf8 (encChars (canon v))) := rfl

/-- Order independence at every nesting level: two values related by any sequence of
    re-orderings of object entries (anywhere inside the value) have the same id. -/
theorem calcId_equiv {v w : JVal} (h : JEquiv v w) : calcId v = calcId w := by
  simp only [calcId, calcIdChars, canonChars, equiv_canon h]

/-- Every permutation of the entries of a mapping with distinct keys gives the same id. -/
theorem calcId_perm {a b : List (String × JVal)} (hp : a.Perm b)
    (hn : (a.map Prod.fst).Nodup) : calcId (.obj a) = calcId (.obj b) := by
  simp only [calcId, calcIdChars, canonChars, canon, canonObj_perm hp hn]

/-- The hashed text has its keys strictly increasing in every object at every depth. -/
theorem canon_sorted (v : JVal) : SortedDeep (canon v) := Signac.canon_sorted v

/-- Hashing the already-sorted spelling (e.g. what a `sort_keys` dump re-parses to)
    gives the same id: `canon` is idempotent. -/
theorem calcId_canon (v : JVal) : calcId (canon v) = calcId v := by
  simp only [calcId, calcIdChars, canonChars, canon_idem]

/-- The id has exactly `JOB_ID_LENGTH` characters, all lower-case hexadecimal
    (`JOB_ID_LENGTH` is regenerated from the running `signac.project`). -/
theorem calcId_shape (v : JVal) :
    (calcIdChars v).length = Extracted.JOB_ID_LENGTH ∧ ∀ c ∈ calcIdChars v, c ∈ hexAlphabet :=
  ⟨md5hexChars_length _, md5hexChars_hex _⟩

/-- The workspace scanner's pattern is the one ids satisfy: 32 characters of `[a-f0-9]`. -/
theorem id_pattern_is_32_hex :
    Extracted.JOB_ID_REGEX = "[a-f0-9]{" ++ toString Extracted.JOB_ID_LENGTH ++ "}"
    ∧ Extracted.JOB_ID_LENGTH = 32 := by decide

/- non-vacuity: a concrete non-trivial instance of the hypotheses of `calcId_equiv`
   (nested re-ordering) and of `calcId_perm`. -/
example : JEquiv (.obj [("b", .arr [.obj [("x", .int 1), ("y", .null)]]), ("a", .int 1)])
                 (.obj [("a", .int 1), ("b", .arr [.obj [("y", .null), ("x", .int 1)]])]) :=
  JEquiv.trans
    (JEquiv.swap [] [] "b" "a" _ _ (by decide))
    (JEquiv.inObj [("a", .int 1)] [] "b"
      (JEquiv.inArr [] [] (JEquiv.swap [] [] "x" "y" _ _ (by decide))))

example : ([("b", JVal.int 2), ("a", JVal.int 1)].Perm [("a", .int 1), ("b", .int 2)])
    ∧ (([("b", JVal.int 2), ("a", JVal.int 1)]).map Prod.fst).Nodup :=
  ⟨List.Perm.swap _ _ _, by decide⟩

end Signac.C01

/-
  C16 — export then import reproduces the project; nothing dropped, merged or misplaced.
  Property theorems only; helper lemmas live in Signac/Proofs/IE*.lean, the model in
  Signac/ImportExport.lean (which mirrors the code after the F-16a/b/c/d fix commits, see its header).

  Objects: a job is `(id, files)`, a file `(relative path components, Content)`; the state point
  file, the document file and all other files are ordinary members.  `hash` (state point ↦ id) is
  arbitrary in every theorem; the driver instantiates it with `calcId` (C01).
-/
import Signac.Extracted
import Signac.ImportExport
import Signac.Proofs.IEChecks
import Signac.Proofs.IERoundtrip
import Signac.Proofs.IENested
import Signac.Proofs.IENestedMore
import Signac.Proofs.IEFrame
import Signac.Proofs.IEExists
import Signac.Proofs.IESchema
namespace Signac.C16
open Signac Signac.IE

/-! ### export: what the checks guarantee, where the members go -/

/-- "Export rejects non-unique or leaf/node-conflicting paths": a path list that passes
    `_check_path_function_unique` and the (two-pass) `_check_directory_structure_validity` is
    injective, and component-wise no path is a prefix of another. -/
theorem export_checks_sound (ps : List String) (hu : checkUnique ps = true) (hl : checkLeafNode ps = true) :
    ps.Nodup ∧ PrefixFree (ps.map splitSlash) :=
  ⟨checkUnique_nodup ps hu, checks_sound ps hu hl⟩

/-- The same for `_export_jobs` as a whole, on the places the paths denote: whenever it gets as far
    as copying, every normalised path is relative and below the target (not absolute, no leading
    `..`), the normalised paths are prefix-free (so `a`, `a/`, `a/.` cannot coexist), and the target
    root itself is only used by a single job. -/
theorem export_accepts_sound (spec : PathSpec) (jobs : List (String × JVal)) (ps : List String)
    (h : exportPaths spec jobs = .ok ps) :
    (∀ n ∈ ps.map normpath, escapes n = false)
    ∧ PrefixFree ((ps.map normpath).map splitSlash)
    ∧ ("." ∈ ps.map normpath → ps.length ≤ 1) := by
  unfold exportPaths at h
  cases hr : rawPaths spec jobs with
  | error e => simp [hr] at h
  | ok ps' =>
    simp only [hr] at h
    cases hcn : checkNormalized (ps'.map normpath) with
    | false => simp [hcn] at h
    | true =>
      simp only [hcn, Bool.not_true, Bool.false_eq_true, if_false] at h
      have hps : ps' = ps := by
        split at h
        · cases h
        · cases h; rfl
      subst hps
      simp only [checkNormalized, Bool.and_eq_true, Bool.not_eq_eq_eq_not, Bool.not_true] at hcn
      obtain ⟨⟨⟨hesc, hu⟩, hroot⟩, hl⟩ := hcn
      refine ⟨?_, checks_sound _ hu hl, ?_⟩
      · intro n hmem
        rw [List.any_eq_false] at hesc
        cases hx : escapes n with
        | false => rfl
        | true => exact absurd hx (hesc n hmem)
      · intro hdot
        have hc := List.contains_iff_mem.mpr hdot
        rw [hc] at hroot
        simp only [Bool.true_and, decide_eq_false_iff_not, Nat.not_lt, List.length_map] at hroot
        exact hroot

/-- The one-pass check of the pinned tree was weaker (F-16c, repaired): it accepts a node that comes
    before its leaf although the two-pass check rejects the pair. -/
theorem coded_leafnode_check_is_order_dependent :
    checkLeafNodeCoded [] ["a", "a/x"] = true ∧ checkLeafNodeCoded [] ["a/x", "a"] = false
    ∧ checkLeafNode ["a", "a/x"] = false := by decide

/-- The zip analyser of the pinned tree was wrong in the same way (F-16a, repaired): by its string test the
    directory `a/10` lies inside the job directory `a/1`, and `relpath` then places the member
    `a/10/f` outside that job's workspace directory.  The component-wise test does not fire. -/
theorem coded_zip_prefix_test_is_wrong :
    zipPolicyCoded.test [["a", "1"]] ["a", "10"] = true
    ∧ zipPolicy.test [["a", "1"]] ["a", "10"] = false
    ∧ (filesUnderCoded ["a", "1"] [(["a", "10", "f"], .blob 0)]).map (·.1) = [["..", "10", "f"]]
    ∧ (filesUnder ["a", "1"] [(["a", "10", "f"], .blob 0)]).map (·.1) = [] := by decide

/-- Export writes only beneath its target, and only copies: every member is a file of some
    exported job, placed below that job's path. -/
theorem export_under_target (P : Project) (ds : List Comps) :
    ∀ m ∈ exportMembers P ds, ∃ j d f, (j, d) ∈ P.zip ds ∧ (f, m.2) ∈ j.files ∧ m.1 = d ++ f :=
  exportMembers_under P ds

/-- Nothing is dropped on export: every file (state point file, document, data) of every job is a member. -/
theorem export_complete (P : Project) (ds : List Comps) :
    ∀ e ∈ P.zip ds, ∀ fc ∈ e.1.files, (e.2 ++ fc.1, fc.2) ∈ exportMembers P ds :=
  exportMembers_complete P ds

/-! ### export ∘ import = identity -/

/-- zip: importing the exported members into an empty project gives back exactly the exported
    jobs.  `_partial`: under the extra hypotheses `NoNestedSp` and — for zip only, known finding
    F-16e: `copytree_to_zip` does not store empty directories — `NoEmptyDirs`. -/
theorem valid_paths_roundtrip_zip_partial (hash : JVal → String) (P : Project) (ds : List Comps)
    (hlen : P.length = ds.length) (hwf : WF hash P) (hnn : NoNestedSp P) (hne : NoEmptyDirs P)
    (hpf : PrefixFree ds) (order : List Comps) :
    (importFrom .zip hash .none [] P ds order).err = none
    ∧ ProjEquiv (importFrom .zip hash .none [] P ds order).proj P := by
  have h := zip_roundtrip (goodExport_of hwf hnn hpf)
  rw [zip_fst_eq hlen] at h
  show (importZip hash .none [] (zipMembers P ds)).err = none
    ∧ ProjEquiv (importZip hash .none [] (zipMembers P ds)).proj P
  rw [zipMembers_eq ds hne]
  exact ⟨h.1, h.2.1, h.2.2⟩

/-- tar (and compressed tar): the same. -/
theorem valid_paths_roundtrip_tar_partial (hash : JVal → String) (P : Project) (ds : List Comps)
    (hlen : P.length = ds.length) (hwf : WF hash P) (hnn : NoNestedSp P) (hpf : PrefixFree ds)
    (order : List Comps) :
    (importFrom .tar hash .none [] P ds order).err = none
    ∧ ProjEquiv (importFrom .tar hash .none [] P ds order).proj P := by
  have h := tar_roundtrip (goodExport_of hwf hnn hpf)
  rw [zip_fst_eq hlen] at h
  exact ⟨h.1, h.2.1, h.2.2⟩

/-- directory: the same, for every order in which `os.walk` may visit the directories of the
    exported tree (any duplicate-free order that reaches every job directory). -/
theorem valid_paths_roundtrip_dir_partial (hash : JVal → String) (P : Project) (ds : List Comps)
    (hlen : P.length = ds.length) (hne : P ≠ []) (hwf : WF hash P) (hnn : NoNestedSp P) (hpf : PrefixFree ds)
    (order : List Comps) (hnd : order.Nodup) (hall : ∀ d ∈ ds, d ∈ order) :
    (importFrom .dir hash .none [] P ds order).err = none
    ∧ ProjEquiv (importFrom .dir hash .none [] P ds order).proj P := by
  have hall' : ∀ e ∈ P.zip ds, e.2 ∈ order :=
    fun e he => hall e.2 (List.of_mem_zip (a := e.1) (b := e.2) he).2
  have h := dir_roundtrip (goodExport_of hwf hnn hpf) order hnd hall'
  rw [zip_fst_eq hlen] at h
  have hemp : P.isEmpty = false := by
    cases P with
    | nil => exact absurd rfl hne
    | cons _ _ => rfl
  simp only [importFrom, hemp, Bool.false_eq_true, if_false]
  exact ⟨h.1, h.2.1, h.2.2⟩

/-- the model's own visiting order is admissible -/
theorem walkOrder_admissible (hash : JVal → String) (P : Project) (ds : List Comps)
    (hwf : WF hash P) (hnn : NoNestedSp P) (hpf : PrefixFree ds) :
    (walkOrder (exportMembers P ds)).Nodup ∧ ∀ e ∈ P.zip ds, e.2 ∈ walkOrder (exportMembers P ds) :=
  walkOrder_ok (goodExport_of hwf hnn hpf)

/-- An empty project exported to a directory creates nothing; the import refuses the origin before
    it touches the destination ("or the call raises before any job has been copied"). -/
theorem empty_dir_export_raises_first (hash : JVal → String) (schema : Schema) (dst : Project)
    (ds order : List Comps) :
    importFrom .dir hash schema dst [] ds order = ⟨dst, some .valueError, []⟩ := rfl

/-- The full statement (neither `NoNestedSp` nor `NoEmptyDirs`; directories visited parents first, as
    `sorted` / `os.walk` do). -/
def valid_paths_roundtrip_full : Prop :=
  ∀ (hash : JVal → String) (P : Project) (ds : List Comps) (t : Target),
    P.length = ds.length → (t = .dir → P ≠ []) → WF hash P → PrefixFree ds →
    (importFrom t hash .none [] P ds (walkOrder (exportMembers P ds))).err = none
    ∧ ProjEquiv (importFrom t hash .none [] P ds (walkOrder (exportMembers P ds))).proj P

private def hE : JVal → String := fun _ => "e"
private def jE : Job := ⟨"e", [([fnSp], .sp .null), (["emptydir"], .dir)]⟩

/-- It is FALSE of the model, as it is of the code (F-16e, known finding): a job with an empty
    sub-directory comes back from a zip archive without it. -/
theorem valid_paths_roundtrip_full_false : ¬ valid_paths_roundtrip_full := by
  intro h
  have h' := h hE [jE] [[]] .zip rfl (by intro hh; cases hh)
    ⟨by decide, fun j hj => by
        simp only [List.mem_singleton] at hj; subst hj; exact ⟨.null, rfl, rfl⟩,
      fun j hj fc hfc => by
        simp only [List.mem_singleton] at hj; subst hj
        simp only [jE, List.mem_cons, List.not_mem_nil, or_false] at hfc
        rcases hfc with rfl | rfl <;> simp⟩
    (by unfold PrefixFree; exact List.pairwise_singleton _ _)
  have hmem := (h'.2.1 jE).mpr List.mem_cons_self
  have hlen : ∀ j ∈ (importFrom .zip hE .none [] [jE] [[]] (walkOrder (exportMembers [jE] [[]]))).proj,
      j.files.length = 1 := by decide
  exact absurd (hlen jE hmem) (by decide)

/-- The statement without `NoNestedSp` but with `NoEmptyDirs` for zip: a job may hold, in a
    sub-directory, a file called `signac_statepoint.json` (e.g. a copy of another job's directory).
    DECIDED below: as literally stated it is false of the model for zip and directory targets, for
    a reason that is an artefact of the model's path type and not a defect of signac
    (`valid_paths_roundtrip_nested_false`); it holds for tar targets (`valid_paths_roundtrip_tar`),
    for all targets when no job sits at the target root, e.g. for every project with two or more
    jobs (`valid_paths_roundtrip_subdirs`, `valid_paths_roundtrip_multi`), and for all targets under
    the hypothesis that no entry of the root job has the empty string as its first path component
    (`valid_paths_roundtrip_partial`); in particular for every project without empty path components
    (`valid_paths_roundtrip`, the headline statement), and for directory targets with ANY parents-first
    visiting order without any condition on names (`valid_paths_roundtrip_dir_anyorder`). -/
def valid_paths_roundtrip_nested : Prop :=
  ∀ (hash : JVal → String) (P : Project) (ds : List Comps) (t : Target),
    P.length = ds.length → (t = .dir → P ≠ []) → (t = .zip → NoEmptyDirs P) → WF hash P → PrefixFree ds →
    (importFrom t hash .none [] P ds (walkOrder (exportMembers P ds))).err = none
    ∧ ProjEquiv (importFrom t hash .none [] P ds (walkOrder (exportMembers P ds))).proj P

/-- the same for one target kind -/
def valid_paths_roundtrip_nested_at (t : Target) : Prop :=
  ∀ (hash : JVal → String) (P : Project) (ds : List Comps),
    P.length = ds.length → (t = .dir → P ≠ []) → (t = .zip → NoEmptyDirs P) → WF hash P → PrefixFree ds →
    (importFrom t hash .none [] P ds (walkOrder (exportMembers P ds))).err = none
    ∧ ProjEquiv (importFrom t hash .none [] P ds (walkOrder (exportMembers P ds))).proj P

private def hN : JVal → String
  | .null => "root"
  | _ => "inner"

/-- one job, exported to the target root, that holds a directory whose NAME IS THE EMPTY STRING with a
    (foreign) state point file in it, listed before the job's own state point file -/
private def jN : Job := ⟨"root", [(["", fnSp], .sp (.int 1)), ([fnSp], .sp .null)]⟩

private theorem jN_wf : WF hN [jN] :=
  ⟨by decide, fun j hj => by
      simp only [List.mem_singleton] at hj; subst hj; exact ⟨.null, rfl, rfl⟩,
    fun j hj fc hfc => by
      simp only [List.mem_singleton] at hj; subst hj
      simp only [jN, List.mem_cons, List.not_mem_nil, or_false] at hfc
      rcases hfc with rfl | rfl <;> simp⟩

private theorem jN_nodirs : NoEmptyDirs [jN] := by
  intro j hj fc hfc
  simp only [List.mem_singleton] at hj; subst hj
  simp only [jN, List.mem_cons, List.not_mem_nil, or_false] at hfc
  rcases hfc with rfl | rfl <;> rfl

private theorem jN_contra {r : ImportResult} (hids : r.proj.map (·.id) = ["inner", "root"])
    (heq : ProjEquiv r.proj [jN]) : False := by
  have hmem : "inner" ∈ r.proj.map (·.id) := by rw [hids]; exact List.mem_cons_self
  rcases List.mem_map.mp hmem with ⟨j, hj, hid⟩
  have := (heq.1 j).mp hj
  simp only [List.mem_singleton] at this
  subst this
  exact absurd hid (by decide)

/-- zip: FALSE of the model.  Witness `jN` at the target root: the directory list of the zip
    analyser is `{"" (the directory named ""), "" (the root)}`; both have the joined name `""`, `sorted`
    cannot order them, the model's stable sort keeps the order of the member list and visits the
    directory named `""` first — before the root has been identified — reads the state point file
    in it and imports it as a second job `inner`.  No file system or archive written by signac can
    contain a directory named `""`; this is an artefact of `Comps = List String`, not a defect. -/
theorem valid_paths_roundtrip_nested_zip_false : ¬ valid_paths_roundtrip_nested_at .zip := by
  intro h
  have h' := h hN [jN] [[]] rfl (by intro hh; cases hh) (fun _ => jN_nodirs) jN_wf
    (by unfold PrefixFree; exact List.pairwise_singleton _ _)
  exact jN_contra (by decide) h'.2

/-- directory: FALSE of the model, same witness: `walkOrder` (= `sorted`) is not a top-down order
    when a directory is named `""`. -/
theorem valid_paths_roundtrip_nested_dir_false : ¬ valid_paths_roundtrip_nested_at .dir := by
  intro h
  have h' := h hN [jN] [[]] rfl (by intro _; simp) (by intro hh; cases hh) jN_wf
    (by unfold PrefixFree; exact List.pairwise_singleton _ _)
  exact jN_contra (by decide) h'.2

theorem valid_paths_roundtrip_nested_false : ¬ valid_paths_roundtrip_nested :=
  fun h => valid_paths_roundtrip_nested_zip_false (fun hash P ds => h hash P ds .zip)

/-- tar (and compressed tar) WITHOUT `NoNestedSp` and without any condition on names: nested state
    point files are harmless.  Every sub-directory of a job directory is a member of the archive, comes
    after its parent in `sorted` order, and is skipped because its parent was identified or skipped. -/
theorem valid_paths_roundtrip_tar (hash : JVal → String) (P : Project) (ds : List Comps)
    (hlen : P.length = ds.length) (hwf : WF hash P) (hpf : PrefixFree ds) (order : List Comps) :
    (importFrom .tar hash .none [] P ds order).err = none
    ∧ ProjEquiv (importFrom .tar hash .none [] P ds order).proj P := by
  have h := tar_roundtripN (goodExportN_of hwf hpf)
  rw [zip_fst_eq hlen] at h
  exact ⟨h.1, h.2.1, h.2.2⟩

theorem valid_paths_roundtrip_nested_tar : valid_paths_roundtrip_nested_at .tar :=
  fun hash P ds hlen _ _ hwf hpf => valid_paths_roundtrip_tar hash P ds hlen hwf hpf _

/-- All target kinds WITHOUT `NoNestedSp`.  `_partial`: the extra hypothesis is exactly
    `[] ∈ ds → TopNamed P` — if a job is exported to the target root, no entry of a job has the empty
    string as its first path component (which no real file has).  The visiting order is the sorted
    (parents first) one; this is what makes the nested state point files harmless: the job directory
    is identified first and nothing below it is looked at. -/
theorem valid_paths_roundtrip_partial (hash : JVal → String) (P : Project) (ds : List Comps) (t : Target)
    (hlen : P.length = ds.length) (hne : t = .dir → P ≠ []) (hnd : t = .zip → NoEmptyDirs P)
    (hwf : WF hash P) (hpf : PrefixFree ds) (htop : [] ∈ ds → TopNamed P) :
    (importFrom t hash .none [] P ds (walkOrder (exportMembers P ds))).err = none
    ∧ ProjEquiv (importFrom t hash .none [] P ds (walkOrder (exportMembers P ds))).proj P := by
  have G := goodExportN_of hwf hpf
  have htopE := topNamedE_of (P := P) (ds := ds) htop
  cases t with
  | tar => exact valid_paths_roundtrip_tar hash P ds hlen hwf hpf _
  | zip =>
    have h := zip_roundtripN G htopE
    rw [zip_fst_eq hlen] at h
    show (importZip hash .none [] (zipMembers P ds)).err = none
      ∧ ProjEquiv (importZip hash .none [] (zipMembers P ds)).proj P
    rw [zipMembers_eq ds (hnd rfl)]
    exact ⟨h.1, h.2.1, h.2.2⟩
  | dir =>
    have h := dir_roundtripN G htopE
    rw [zip_fst_eq hlen] at h
    have hemp : P.isEmpty = false := by
      cases P with
      | nil => exact absurd rfl (hne rfl)
      | cons _ _ => rfl
    simp only [importFrom, hemp, Bool.false_eq_true, if_false]
    exact ⟨h.1, h.2.1, h.2.2⟩

/-- No extra hypothesis when no job is exported to the target root itself. -/
theorem valid_paths_roundtrip_subdirs (hash : JVal → String) (P : Project) (ds : List Comps) (t : Target)
    (hlen : P.length = ds.length) (hne : t = .dir → P ≠ []) (hnd : t = .zip → NoEmptyDirs P)
    (hwf : WF hash P) (hpf : PrefixFree ds) (hroot : [] ∉ ds) :
    (importFrom t hash .none [] P ds (walkOrder (exportMembers P ds))).err = none
    ∧ ProjEquiv (importFrom t hash .none [] P ds (walkOrder (exportMembers P ds))).proj P :=
  valid_paths_roundtrip_partial hash P ds t hlen hne hnd hwf hpf (fun h => absurd h hroot)

/-- In particular: every project with at least two jobs (prefix-free paths cannot contain the root
    then) — heterogeneous and nested state points, documents, nested files, nested state point
    files, all target kinds. -/
theorem valid_paths_roundtrip_multi (hash : JVal → String) (P : Project) (ds : List Comps) (t : Target)
    (hlen : P.length = ds.length) (h2 : 2 ≤ P.length) (hnd : t = .zip → NoEmptyDirs P)
    (hwf : WF hash P) (hpf : PrefixFree ds) :
    (importFrom t hash .none [] P ds (walkOrder (exportMembers P ds))).err = none
    ∧ ProjEquiv (importFrom t hash .none [] P ds (walkOrder (exportMembers P ds))).proj P := by
  refine valid_paths_roundtrip_subdirs hash P ds t hlen ?_ hnd hwf hpf ?_
  · intro _ hP
    rw [hP] at h2
    simp at h2
  · intro hmem
    have h2' : 2 ≤ ds.length := hlen ▸ h2
    match ds, h2', hpf, hmem with
    | [], h2', _, _ => simp at h2'
    | [_], h2', _, _ => simp at h2'
    | a :: b :: r, _, hpf, hmem =>
      unfold PrefixFree at hpf
      have h1 := List.pairwise_cons.mp hpf
      rcases List.mem_cons.mp hmem with h | h
      · exact (h1.1 b List.mem_cons_self).1 (h ▸ List.nil_prefix)
      · exact (h1.1 [] h).2 List.nil_prefix

/-- directory, ANY admissible visiting order, without `NoNestedSp` and without any condition on
    names: for every `order` that is duplicate-free, lists parents before children (`ParentsFirst`;
    `os.walk(topdown=True)` always does, whatever the listing order inside each directory) and
    reaches every job directory, the import gives back the project.  A nested state point file is
    harmless because its job directory is visited — and identified — before anything below it. -/
theorem valid_paths_roundtrip_dir_anyorder (hash : JVal → String) (P : Project) (ds : List Comps)
    (hlen : P.length = ds.length) (hne : P ≠ []) (hwf : WF hash P) (hpf : PrefixFree ds)
    (order : List Comps) (hnd : order.Nodup) (hpar : ParentsFirst order) (hall : ∀ d ∈ ds, d ∈ order) :
    (importFrom .dir hash .none [] P ds order).err = none
    ∧ ProjEquiv (importFrom .dir hash .none [] P ds order).proj P := by
  have hall' : ∀ e ∈ P.zip ds, e.2 ∈ order :=
    fun e he => hall e.2 (List.of_mem_zip (a := e.1) (b := e.2) he).2
  have h := dir_roundtrip_anyorder (goodExportN_of hwf hpf) order hnd hpar hall'
  rw [zip_fst_eq hlen] at h
  have hemp : P.isEmpty = false := by
    cases P with
    | nil => exact absurd rfl hne
    | cons _ _ => rfl
  simp only [importFrom, hemp, Bool.false_eq_true, if_false]
  exact ⟨h.1, h.2.1, h.2.2⟩

/-- the model's own visiting order (`sorted`) is such an order: duplicate-free, parents first, and
    it reaches every job directory — when no path component is empty (`PathsWF`, and the first
    component of every export path) -/
theorem walkOrder_admissible_nested (hash : JVal → String) (P : Project) (ds : List Comps)
    (hwf : WF hash P) (hp : PathsWF P) (hds : ∀ d ∈ ds, d.head? ≠ some "") (hpf : PrefixFree ds) :
    (walkOrder (exportMembers P ds)).Nodup ∧ ParentsFirst (walkOrder (exportMembers P ds))
    ∧ ∀ e ∈ P.zip ds, e.2 ∈ walkOrder (exportMembers P ds) :=
  have h := walkOrder_okN (goodExportN_of hwf hpf)
  ⟨h.1, walkOrder_export_parentsFirst hp hds, h.2⟩

/-- HEADLINE.  For every well-formed project (distinct ids, every job directory holds its state point
    file, no empty path component), every prefix-free path list and every target kind (directory,
    zip, tar / compressed tar): export followed by import into an empty project raises nothing and
    gives back the same jobs — ids, state point files, documents, all files, nested state point files
    included.  (zip: under `NoEmptyDirs`, known finding F-16e; directory: a non-empty project, an
    empty one creates nothing and the import refuses the origin, `empty_dir_export_raises_first`.) -/
theorem valid_paths_roundtrip (hash : JVal → String) (P : Project) (ds : List Comps) (t : Target)
    (hlen : P.length = ds.length) (hne : t = .dir → P ≠ []) (hnd : t = .zip → NoEmptyDirs P)
    (hwf : WF hash P) (hp : PathsWF P) (hpf : PrefixFree ds) :
    (importFrom t hash .none [] P ds (walkOrder (exportMembers P ds))).err = none
    ∧ ProjEquiv (importFrom t hash .none [] P ds (walkOrder (exportMembers P ds))).proj P :=
  valid_paths_roundtrip_partial hash P ds t hlen hne hnd hwf hpf (fun _ => topNamed_of_pathsWF hp)

/-! ### import never overwrites, never leaves the job directories -/

/-- zip: if the export contains a job whose id the destination already holds, the import raises
    DestinationExistsError before anything is copied: destination unchanged, nothing written. -/
theorem import_no_overwrite_zip (hash : JVal → String) (P : Project) (ds : List Comps) (dst : Project)
    (hwf : WF hash P) (hnn : NoNestedSp P) (hne : NoEmptyDirs P) (hpf : PrefixFree ds)
    (hex : ∃ e ∈ P.zip ds, hasId e.1.id dst = true) (order : List Comps) :
    importFrom .zip hash .none dst P ds order = ⟨dst, some .destinationExists, []⟩ := by
  show importZip hash .none dst (zipMembers P ds) = _
  rw [zipMembers_eq ds hne]
  exact zip_exists (goodExport_of hwf hnn hpf) dst hex

theorem import_no_overwrite_tar (hash : JVal → String) (P : Project) (ds : List Comps) (dst : Project)
    (hwf : WF hash P) (hnn : NoNestedSp P) (hpf : PrefixFree ds)
    (hex : ∃ e ∈ P.zip ds, hasId e.1.id dst = true) (order : List Comps) :
    importFrom .tar hash .none dst P ds order = ⟨dst, some .destinationExists, []⟩ :=
  tar_exists (goodExport_of hwf hnn hpf) dst hex

/-- directory: the crawl is lazy (jobs found earlier have been copied), but it does raise
    DestinationExistsError, and by `import_safe_dir` the existing job is untouched. -/
theorem import_no_overwrite_dir (hash : JVal → String) (P : Project) (ds : List Comps) (dst : Project)
    (hwf : WF hash P) (hnn : NoNestedSp P) (hpf : PrefixFree ds)
    (hex : ∃ e ∈ P.zip ds, hasId e.1.id dst = true)
    (order : List Comps) (hnd : order.Nodup) (hall : ∀ d ∈ ds, d ∈ order) :
    (importFrom .dir hash .none dst P ds order).err = some .destinationExists := by
  have hall' : ∀ e ∈ P.zip ds, e.2 ∈ order :=
    fun e he => hall e.2 (List.of_mem_zip (a := e.1) (b := e.2) he).2
  have hne : P.isEmpty = false := by
    rcases hex with ⟨e, he, _⟩
    cases P with
    | nil => simp at he
    | cons _ _ => rfl
  simp only [importFrom, hne, Bool.false_eq_true, if_false]
  exact dir_exists (goodExport_of hwf hnn hpf) dst order hnd hall' hex

/-- zip WITHOUT `NoNestedSp`: the extra hypothesis is `[] ∈ ds → TopNamed P` (only when a job sits at
    the target root: no entry with the empty string as first path component). -/
theorem import_no_overwrite_zip_nested (hash : JVal → String) (P : Project) (ds : List Comps) (dst : Project)
    (hwf : WF hash P) (hne : NoEmptyDirs P) (hpf : PrefixFree ds) (htop : [] ∈ ds → TopNamed P)
    (hex : ∃ e ∈ P.zip ds, hasId e.1.id dst = true) (order : List Comps) :
    importFrom .zip hash .none dst P ds order = ⟨dst, some .destinationExists, []⟩ := by
  show importZip hash .none dst (zipMembers P ds) = _
  rw [zipMembers_eq ds hne]
  exact zip_existsN (goodExportN_of hwf hpf) (topNamedE_of htop) dst hex

/-- tar WITHOUT `NoNestedSp`, nothing extra. -/
theorem import_no_overwrite_tar_nested (hash : JVal → String) (P : Project) (ds : List Comps) (dst : Project)
    (hwf : WF hash P) (hpf : PrefixFree ds)
    (hex : ∃ e ∈ P.zip ds, hasId e.1.id dst = true) (order : List Comps) :
    importFrom .tar hash .none dst P ds order = ⟨dst, some .destinationExists, []⟩ :=
  tar_existsN (goodExportN_of hwf hpf) dst hex

/-- directory WITHOUT `NoNestedSp`, any admissible visiting order (duplicate-free, parents first,
    reaching every job directory), nothing extra. -/
theorem import_no_overwrite_dir_nested (hash : JVal → String) (P : Project) (ds : List Comps) (dst : Project)
    (hwf : WF hash P) (hpf : PrefixFree ds)
    (hex : ∃ e ∈ P.zip ds, hasId e.1.id dst = true)
    (order : List Comps) (hnd : order.Nodup) (hpar : ParentsFirst order) (hall : ∀ d ∈ ds, d ∈ order) :
    (importFrom .dir hash .none dst P ds order).err = some .destinationExists := by
  have hall' : ∀ e ∈ P.zip ds, e.2 ∈ order :=
    fun e he => hall e.2 (List.of_mem_zip (a := e.1) (b := e.2) he).2
  have hne : P.isEmpty = false := by
    rcases hex with ⟨e, he, _⟩
    cases P with
    | nil => simp at he
    | cons _ _ => rfl
  simp only [importFrom, hne, Bool.false_eq_true, if_false]
  exact dir_existsN (goodExportN_of hwf hpf) dst order hnd hpar hall' hex

/-- directory WITHOUT `NoNestedSp`, the model's own (sorted) visiting order: `[] ∈ ds → TopNamed P`. -/
theorem import_no_overwrite_dir_walk_nested (hash : JVal → String) (P : Project) (ds : List Comps)
    (dst : Project) (hwf : WF hash P) (hpf : PrefixFree ds) (htop : [] ∈ ds → TopNamed P)
    (hex : ∃ e ∈ P.zip ds, hasId e.1.id dst = true) :
    (importFrom .dir hash .none dst P ds (walkOrder (exportMembers P ds))).err = some .destinationExists := by
  have G := goodExportN_of hwf hpf
  have hne : P.isEmpty = false := by
    rcases hex with ⟨e, he, _⟩
    cases P with
    | nil => simp at he
    | cons _ _ => rfl
  simp only [importFrom, hne, Bool.false_eq_true, if_false]
  exact dir_exists_order G dst _ (walkOrder_okN G).1 (walkOrder_okN G).2
    (walkOrder_noBadPair G (topNamedE_of htop)) hex

/-- All target kinds, no extra hypothesis, for projects with two or more jobs (no job can sit at the
    target root then): the import raises DestinationExistsError. -/
theorem import_no_overwrite_multi (hash : JVal → String) (P : Project) (ds : List Comps) (dst : Project)
    (t : Target) (hlen : P.length = ds.length) (h2 : 2 ≤ P.length) (hnd : t = .zip → NoEmptyDirs P)
    (hwf : WF hash P) (hpf : PrefixFree ds) (hex : ∃ e ∈ P.zip ds, hasId e.1.id dst = true) :
    (importFrom t hash .none dst P ds (walkOrder (exportMembers P ds))).err = some .destinationExists := by
  have hroot : [] ∈ ds → TopNamed P := fun h => absurd h (root_not_mem_of_two hpf (hlen ▸ h2))
  cases t with
  | zip => rw [import_no_overwrite_zip_nested hash P ds dst hwf (hnd rfl) hpf hroot hex]
  | tar => rw [import_no_overwrite_tar_nested hash P ds dst hwf hpf hex]
  | dir => exact import_no_overwrite_dir_walk_nested hash P ds dst hwf hpf hroot hex

/-- All target kinds, well-formed paths (`PathsWF`): the import raises DestinationExistsError; for zip and
    tar before anything is copied (destination unchanged, nothing written). -/
theorem import_no_overwrite (hash : JVal → String) (P : Project) (ds : List Comps) (dst : Project)
    (t : Target) (hnd : t = .zip → NoEmptyDirs P) (hwf : WF hash P) (hp : PathsWF P) (hpf : PrefixFree ds)
    (hex : ∃ e ∈ P.zip ds, hasId e.1.id dst = true) :
    (importFrom t hash .none dst P ds (walkOrder (exportMembers P ds))).err = some .destinationExists
    ∧ (t ≠ .dir → importFrom t hash .none dst P ds (walkOrder (exportMembers P ds))
                    = ⟨dst, some .destinationExists, []⟩) := by
  have hroot : [] ∈ ds → TopNamed P := fun _ => topNamed_of_pathsWF hp
  cases t with
  | zip =>
    have := import_no_overwrite_zip_nested hash P ds dst hwf (hnd rfl) hpf hroot hex
      (walkOrder (exportMembers P ds))
    exact ⟨by rw [this], fun _ => this⟩
  | tar =>
    have := import_no_overwrite_tar_nested hash P ds dst hwf hpf hex (walkOrder (exportMembers P ds))
    exact ⟨by rw [this], fun _ => this⟩
  | dir =>
    exact ⟨import_no_overwrite_dir_walk_nested hash P ds dst hwf hpf hroot hex, fun h => absurd rfl h⟩

/-- zip, any archive / schema / destination: if the import raises at all, it raised during the
    analysis — nothing has been copied, nothing written. -/
theorem raise_before_copy_zip (hash : JVal → String) (schema : Schema) (dst : Project)
    (files : List (Comps × Content)) (h : (importZip hash schema dst files).err ≠ none) :
    (importZip hash schema dst files).proj = dst ∧ (importZip hash schema dst files).writes = [] := by
  unfold importZip at h ⊢
  dsimp only at h ⊢
  split
  · exact ⟨rfl, rfl⟩
  · split
    · exact ⟨rfl, rfl⟩
    · rename_i maps heq hids
      rw [heq] at h
      simp only [hids] at h
      exact absurd (zipCopy_spec files maps ⟨dst, none, []⟩).2 h

/-- what "safe" means for an import result `r` into `dst` from an archive holding `files` -/
def ImportSafe (_files : List (Comps × Content)) (dst : Project) (r : ImportResult) : Prop :=
  (∀ j ∈ dst, j ∈ r.proj)                                  -- existing jobs are still there, unchanged
  ∧ (r.proj.map (·.id)).Nodup                              -- and no id was added a second time
  ∧ ∀ w ∈ r.writes, ∃ id rel, w = wsName :: id :: rel      -- every write is workspace/<id>/<rel>
      ∧ hasId id dst = false                               --   of a job that was not there before
      ∧ ".." ∉ rel                                         --   and stays below it

theorem importSafe_of_safe {files : List (Comps × Content)} {dst : Project} {r : ImportResult}
    (h : Safe files dst r) (hfiles : ∀ fc ∈ files, ".." ∉ fc.1) : ImportSafe files dst r := by
  refine ⟨?_, h.nodup, fun w hw => frame_no_dotdot (h.frame w hw) hfiles⟩
  intro j hj
  rcases h.keeps with ⟨extra, hex⟩
  rw [hex]
  exact List.mem_append_left _ hj

/-- For EVERY zip member list, schema and destination (not only exports): import never overwrites
    an existing job and never writes outside `workspace/<new id>/`. -/
theorem import_safe_zip (hash : JVal → String) (schema : Schema) (dst : Project)
    (files : List (Comps × Content)) (hdst : (dst.map (·.id)).Nodup) (hfiles : ∀ fc ∈ files, ".." ∉ fc.1) :
    ImportSafe files dst (importZip hash schema dst files) :=
  importSafe_of_safe (importZip_safe hash schema dst files hdst) hfiles

theorem import_safe_tar (hash : JVal → String) (schema : Schema) (dst : Project)
    (files : List (Comps × Content)) (dirs : List Comps) (hdst : (dst.map (·.id)).Nodup)
    (hfiles : ∀ fc ∈ files, ".." ∉ fc.1) :
    ImportSafe files dst (importTar hash schema dst files dirs) :=
  importSafe_of_safe (importTar_safe hash schema dst files dirs hdst) hfiles

theorem import_safe_dir (hash : JVal → String) (schema : Schema) (dst : Project)
    (files : List (Comps × Content)) (order : List Comps) (hdst : (dst.map (·.id)).Nodup)
    (hfiles : ∀ fc ∈ files, ".." ∉ fc.1) :
    ImportSafe files dst (importDir hash schema dst files order) :=
  importSafe_of_safe (importDir_safe hash schema dst files order hdst) hfiles

/-! ### schema strings -/

/-- "A schema string parses back the path layout it describes": for every schema (literal and
    `{key[:type]}` components) and every state point whose addressed values are ints, word-like
    strings, bools or floats with `float(repr x) = x`, the path the layout produces exists and
    parses back to exactly the addressed values, re-nested. -/
theorem schema_string_roundtrip (sc : List SComp) (sp : JVal) (h : AllRepresentable sc sp) :
    ∃ cs, formatPath sc sp = some cs
      ∧ parsePath sc cs = (match nestFlat (fieldVals sc sp) [] with
                           | some kvs => some (.obj kvs)
                           | none => none) := by
  rcases formatPath_some sc sp h with ⟨cs, hcs⟩
  refine ⟨cs, hcs, ?_⟩
  unfold parsePath
  rw [parseFlat_formatPath sc sp h cs hcs]
  rfl

/-- The usual case spelled out: the fields of the schema are exactly the (distinct, dot-free) keys of a
    flat state point, in order.  Then the path parses back to the state point itself. -/
theorem schema_string_roundtrip_flat (sc : List SComp) (kvs : List (String × JVal))
    (hkeys : sc.filterMap fldKey = kvs.map (·.1)) (hnd : (kvs.map (·.1)).Nodup)
    (hnodot : ∀ kv ∈ kvs, '.' ∉ kv.1.toList) (hrep : AllRepresentable sc (.obj kvs)) :
    ∃ cs, formatPath sc (.obj kvs) = some cs ∧ parsePath sc cs = some (.obj kvs) := by
  rcases schema_string_roundtrip sc (.obj kvs) hrep with ⟨cs, h1, h2⟩
  refine ⟨cs, h1, ?_⟩
  rw [h2, fieldVals_flat kvs hnodot sc [] kvs rfl hnd hkeys,
    nestFlat_flat kvs [] (by simpa using hnd) hnodot]
  simp

/-- the patterns and names the hand-written matchers stand for are the ones of the running package -/
theorem extracted_constants_pinned :
    Extracted.RE_TYPES = [("bool", "\\w+"), ("float", "[+-]?([0-9]*[\\.])?[0-9]+"),
                          ("int", "[+-]?[0-9]+"), ("str", "\\w+")]
    ∧ Extracted.DOT_MAGIC_WORD = "__DOT__"
    ∧ Extracted.FN_STATE_POINT = "signac_statepoint.json" := by decide

/-! ### non-vacuity -/

private def h0 : JVal → String
  | .obj [(_, .int 1)] => "one"
  | _ => "other"

private def j1 : Job := ⟨"one", [([fnSp], .sp (.obj [("a", .int 1)])), (["sub", "f.txt"], .blob 1)]⟩
private def j2 : Job := ⟨"other", [([fnSp], .sp (.obj [("a", .int 10)])), (["signac_job_document.json"], .blob 2)]⟩

/-- a two-job project with a nested file and a document, exported to `a/1` and `a/10` -/
private theorem ex_good : WF h0 [j1, j2] ∧ NoNestedSp [j1, j2] ∧ PrefixFree [["a", "1"], ["a", "10"]]
    ∧ [j1, j2].length = [["a", "1"], ["a", "10"]].length ∧ [j1, j2] ≠ [] := by
  refine ⟨⟨by decide, ?_, ?_⟩, ?_, ?_, rfl, by simp⟩
  · intro j hj
    simp only [List.mem_cons, List.not_mem_nil, or_false] at hj
    rcases hj with rfl | rfl
    · exact ⟨_, rfl, rfl⟩
    · exact ⟨_, rfl, rfl⟩
  · intro j hj fc hfc
    simp only [List.mem_cons, List.not_mem_nil, or_false] at hj
    rcases hj with rfl | rfl <;> simp only [j1, j2, List.mem_cons, List.not_mem_nil, or_false] at hfc <;>
      rcases hfc with rfl | rfl <;> simp
  · intro j hj fc hfc g hg
    simp only [List.mem_cons, List.not_mem_nil, or_false] at hj
    rcases hj with rfl | rfl <;> simp only [j1, j2, List.mem_cons, List.not_mem_nil, or_false] at hfc <;>
      rcases hfc with rfl | rfl <;>
      (cases g with
       | nil => rfl
       | cons x xs =>
         cases xs with
         | nil => simp [fnSp, Extracted.FN_STATE_POINT] at hg
         | cons y ys => cases ys <;> simp at hg)
  · unfold PrefixFree
    refine List.Pairwise.cons ?_ (List.Pairwise.cons ?_ List.Pairwise.nil)
    · intro b hb
      simp only [List.mem_cons, List.not_mem_nil, or_false] at hb
      subst hb
      constructor <;> decide
    · intro b hb
      cases hb

example : WF h0 [j1, j2] ∧ NoNestedSp [j1, j2] ∧ PrefixFree [["a", "1"], ["a", "10"]]
    ∧ [j1, j2].length = [["a", "1"], ["a", "10"]].length ∧ [j1, j2] ≠ [] := ex_good

private theorem ex_nodirs : NoEmptyDirs [j1, j2] := by
  intro j hj fc hfc
  simp only [List.mem_cons, List.not_mem_nil, or_false] at hj
  rcases hj with rfl | rfl <;> simp only [j1, j2, List.mem_cons, List.not_mem_nil, or_false] at hfc <;>
    rcases hfc with rfl | rfl <;> rfl

example : NoEmptyDirs [j1, j2] := ex_nodirs

/-- job `one` holding a copy of the directory of job `other` (state point file and document) -/
private def j3 : Job := ⟨"one", [([fnSp], .sp (.obj [("a", .int 1)])),
  (["copy_of_other", fnSp], .sp (.obj [("a", .int 10)])),
  (["copy_of_other", "signac_job_document.json"], .blob 2)]⟩

/-- hypotheses of `valid_paths_roundtrip_partial` / `_multi` on a project that violates `NoNestedSp`:
    they hold, and the nested copy is not imported as a job of its own -/
private theorem ex_nested : WF h0 [j3, j2] ∧ ¬ NoNestedSp [j3, j2] ∧ NoEmptyDirs [j3, j2]
    ∧ TopNamed [j3, j2] ∧ PrefixFree [["a", "1"], ["a", "10"]] := by
  refine ⟨⟨by decide, ?_, ?_⟩, ?_, ?_, ?_, ex_good.2.2.1⟩
  · intro j hj
    simp only [List.mem_cons, List.not_mem_nil, or_false] at hj
    rcases hj with rfl | rfl
    · exact ⟨_, rfl, rfl⟩
    · exact ⟨_, rfl, rfl⟩
  · intro j hj fc hfc
    simp only [List.mem_cons, List.not_mem_nil, or_false] at hj
    rcases hj with rfl | rfl <;> simp only [j3, j2, List.mem_cons, List.not_mem_nil, or_false] at hfc
    · rcases hfc with rfl | rfl | rfl <;> simp
    · rcases hfc with rfl | rfl <;> simp
  · intro h
    have := h j3 List.mem_cons_self (["copy_of_other", fnSp], .sp (.obj [("a", .int 10)]))
      (by simp [j3]) ["copy_of_other"] rfl
    cases this
  · intro j hj fc hfc
    simp only [List.mem_cons, List.not_mem_nil, or_false] at hj
    rcases hj with rfl | rfl <;> simp only [j3, j2, List.mem_cons, List.not_mem_nil, or_false] at hfc
    · rcases hfc with rfl | rfl | rfl <;> rfl
    · rcases hfc with rfl | rfl <;> rfl
  · intro j hj fc hfc
    simp only [List.mem_cons, List.not_mem_nil, or_false] at hj
    rcases hj with rfl | rfl <;> simp only [j3, j2, List.mem_cons, List.not_mem_nil, or_false] at hfc
    · rcases hfc with rfl | rfl | rfl <;> simp [fnSp, Extracted.FN_STATE_POINT]
    · rcases hfc with rfl | rfl <;> simp [fnSp, Extracted.FN_STATE_POINT]

example (t : Target) :
    (importFrom t h0 .none [] [j3, j2] [["a", "1"], ["a", "10"]]
        (walkOrder (exportMembers [j3, j2] [["a", "1"], ["a", "10"]]))).err = none
    ∧ ProjEquiv (importFrom t h0 .none [] [j3, j2] [["a", "1"], ["a", "10"]]
        (walkOrder (exportMembers [j3, j2] [["a", "1"], ["a", "10"]]))).proj [j3, j2] :=
  valid_paths_roundtrip_multi h0 [j3, j2] [["a", "1"], ["a", "10"]] t rfl (by decide)
    (fun _ => ex_nested.2.2.1) ex_nested.1 ex_nested.2.2.2.2

/-- hypothesis `PathsWF` of `valid_paths_roundtrip` / `import_no_overwrite` / `walkOrder_admissible_nested` -/
private theorem ex_pathswf : PathsWF [j3, j2] := by
  intro j hj fc hfc
  simp only [List.mem_cons, List.not_mem_nil, or_false] at hj
  rcases hj with rfl | rfl <;> simp only [j3, j2, List.mem_cons, List.not_mem_nil, or_false] at hfc
  · rcases hfc with rfl | rfl | rfl <;> simp [fnSp, Extracted.FN_STATE_POINT]
  · rcases hfc with rfl | rfl <;> simp [fnSp, Extracted.FN_STATE_POINT]

example (t : Target) :
    (importFrom t h0 .none [] [j3, j2] [["a", "1"], ["a", "10"]]
        (walkOrder (exportMembers [j3, j2] [["a", "1"], ["a", "10"]]))).err = none
    ∧ ProjEquiv (importFrom t h0 .none [] [j3, j2] [["a", "1"], ["a", "10"]]
        (walkOrder (exportMembers [j3, j2] [["a", "1"], ["a", "10"]]))).proj [j3, j2] :=
  valid_paths_roundtrip h0 [j3, j2] [["a", "1"], ["a", "10"]] t rfl (by intro _; simp)
    (fun _ => ex_nested.2.2.1) ex_nested.1 ex_pathswf ex_nested.2.2.2.2

private theorem mem_j3 {j : Job} (hj : j ∈ [j3]) : j ∈ [j3, j2] := by
  simp only [List.mem_singleton] at hj
  subst hj
  exact List.mem_cons_self

/-- `valid_paths_roundtrip` with a job AT THE TARGET ROOT that holds a nested state point file
    (the case in which `TopNamed` matters) -/
example (t : Target) :
    (importFrom t h0 .none [] [j3] [[]] (walkOrder (exportMembers [j3] [[]]))).err = none
    ∧ ProjEquiv (importFrom t h0 .none [] [j3] [[]] (walkOrder (exportMembers [j3] [[]]))).proj [j3] :=
  valid_paths_roundtrip h0 [j3] [[]] t rfl (by intro _; simp)
    (fun _ j hj => ex_nested.2.2.1 j (mem_j3 hj))
    ⟨by decide, fun j hj => ex_nested.1.sp j (mem_j3 hj), fun j hj => ex_nested.1.nonempty j (mem_j3 hj)⟩
    (fun j hj => ex_pathswf j (mem_j3 hj))
    (by unfold PrefixFree; exact List.pairwise_singleton _ _)

/-- hypotheses of `valid_paths_roundtrip_dir_anyorder` / `import_no_overwrite_dir_nested`: an
    `os.walk` order that is NOT sorted (`a/10` listed before `a/1`) -/
private def exOrder : List Comps :=
  [[], ["a"], ["a", "10"], ["a", "1"], ["a", "1", "copy_of_other"]]

private theorem ex_order : exOrder.Nodup ∧ ParentsFirst exOrder
    ∧ ∀ d ∈ [["a", "1"], ["a", "10"]], d ∈ exOrder := by
  refine ⟨by decide, ?_, by decide⟩
  unfold ParentsFirst exOrder
  decide

example :
    (importFrom .dir h0 .none [] [j3, j2] [["a", "1"], ["a", "10"]] exOrder).err = none
    ∧ ProjEquiv (importFrom .dir h0 .none [] [j3, j2] [["a", "1"], ["a", "10"]] exOrder).proj [j3, j2] :=
  valid_paths_roundtrip_dir_anyorder h0 [j3, j2] [["a", "1"], ["a", "10"]] rfl (by simp)
    ex_nested.1 ex_nested.2.2.2.2 exOrder ex_order.1 ex_order.2.1 ex_order.2.2

/-- hypotheses of `walkOrder_admissible_nested` -/
example : (walkOrder (exportMembers [j3, j2] [["a", "1"], ["a", "10"]])).Nodup
    ∧ ParentsFirst (walkOrder (exportMembers [j3, j2] [["a", "1"], ["a", "10"]]))
    ∧ ∀ e ∈ [j3, j2].zip [["a", "1"], ["a", "10"]],
        e.2 ∈ walkOrder (exportMembers [j3, j2] [["a", "1"], ["a", "10"]]) :=
  walkOrder_admissible_nested h0 [j3, j2] [["a", "1"], ["a", "10"]] ex_nested.1 ex_pathswf
    (by decide) ex_nested.2.2.2.2

/-- hypothesis of `import_no_overwrite_*_nested`: the destination already holds a job `one`, the
    export holds job `one` with a nested copy of job `other` -/
private theorem ex_clash : ∃ e ∈ [j3, j2].zip [["a", "1"], ["a", "10"]], hasId e.1.id [j1] = true :=
  ⟨(j3, ["a", "1"]), by simp, by decide⟩

example (order : List Comps) :
    importFrom .zip h0 .none [j1] [j3, j2] [["a", "1"], ["a", "10"]] order
      = ⟨[j1], some .destinationExists, []⟩ :=
  import_no_overwrite_zip_nested h0 [j3, j2] [["a", "1"], ["a", "10"]] [j1] ex_nested.1 ex_nested.2.2.1
    ex_nested.2.2.2.2 (fun _ => ex_nested.2.2.2.1) ex_clash order

example (order : List Comps) :
    importFrom .tar h0 .none [j1] [j3, j2] [["a", "1"], ["a", "10"]] order
      = ⟨[j1], some .destinationExists, []⟩ :=
  import_no_overwrite_tar_nested h0 [j3, j2] [["a", "1"], ["a", "10"]] [j1] ex_nested.1
    ex_nested.2.2.2.2 ex_clash order

example :
    (importFrom .dir h0 .none [j1] [j3, j2] [["a", "1"], ["a", "10"]] exOrder).err
      = some .destinationExists :=
  import_no_overwrite_dir_nested h0 [j3, j2] [["a", "1"], ["a", "10"]] [j1] ex_nested.1
    ex_nested.2.2.2.2 ex_clash exOrder ex_order.1 ex_order.2.1 ex_order.2.2

example :
    (importFrom .dir h0 .none [j1] [j3, j2] [["a", "1"], ["a", "10"]]
      (walkOrder (exportMembers [j3, j2] [["a", "1"], ["a", "10"]]))).err = some .destinationExists :=
  import_no_overwrite_dir_walk_nested h0 [j3, j2] [["a", "1"], ["a", "10"]] [j1] ex_nested.1
    ex_nested.2.2.2.2 (fun _ => ex_nested.2.2.2.1) ex_clash

example (t : Target) :
    (importFrom t h0 .none [j1] [j3, j2] [["a", "1"], ["a", "10"]]
      (walkOrder (exportMembers [j3, j2] [["a", "1"], ["a", "10"]]))).err = some .destinationExists :=
  import_no_overwrite_multi h0 [j3, j2] [["a", "1"], ["a", "10"]] [j1] t rfl (by decide)
    (fun _ => ex_nested.2.2.1) ex_nested.1 ex_nested.2.2.2.2 ex_clash

example (t : Target) :
    (importFrom t h0 .none [j1] [j3, j2] [["a", "1"], ["a", "10"]]
      (walkOrder (exportMembers [j3, j2] [["a", "1"], ["a", "10"]]))).err = some .destinationExists :=
  (import_no_overwrite h0 [j3, j2] [["a", "1"], ["a", "10"]] [j1] t
    (fun _ => ex_nested.2.2.1) ex_nested.1 ex_pathswf ex_nested.2.2.2.2 ex_clash).1

/-- hypotheses of `export_checks_sound` / `export_accepts_sound` -/
example : checkUnique ["a/1", "a/10", "b"] = true ∧ checkLeafNode ["a/1", "a/10", "b"] = true := by decide

/-- hypothesis of `export_accepts_sound`: an accepted export whose second path is not in normal form;
    and the repaired checks refuse `..`, absolute paths and `b` next to `b/.` -/
example : exportPaths (.call ["a/1", "b/"]) [("i", .null), ("j", .null)] = .ok ["a/1", "b/"]
    ∧ checkNormalized (["../y", "z"].map normpath) = false
    ∧ checkNormalized (["/abs", "z"].map normpath) = false
    ∧ checkNormalized (["b", "b/."].map normpath) = false
    ∧ checkNormalized (["", "z"].map normpath) = false := ⟨rfl, rfl, rfl, rfl, rfl⟩

/-- hypothesis of `import_no_overwrite_*`: the destination already holds job "one" -/
example : ∃ e ∈ [j1, j2].zip [["a", "1"], ["a", "10"]], hasId e.1.id [j1] = true :=
  ⟨(j1, ["a", "1"]), by simp, by decide⟩

/-- hypothesis of `raise_before_copy_zip`: that import does raise -/
example : (importZip h0 .none [j1] (zipMembers [j1, j2] [["a", "1"], ["a", "10"]])).err ≠ none := by
  have := import_no_overwrite_zip h0 [j1, j2] [["a", "1"], ["a", "10"]] [j1] ex_good.1 ex_good.2.1 ex_nodirs
    ex_good.2.2.1
    ⟨(j1, ["a", "1"]), by simp, by decide⟩ []
  simp only [importFrom] at this
  rw [this]
  simp

/-- hypotheses of `import_safe_*` -/
example : ([j1].map (·.id)).Nodup ∧ ∀ fc ∈ exportMembers [j1, j2] [["a", "1"], ["a", "10"]], ".." ∉ fc.1 := by
  refine ⟨by decide, ?_⟩
  intro fc hfc
  simp only [exportMembers, exportBlock, j1, j2, List.zip_cons_cons, List.zip_nil_right, List.flatMap_cons,
    List.flatMap_nil, List.map_cons, List.map_nil, List.append_nil, List.cons_append, List.nil_append,
    List.mem_cons, List.not_mem_nil, or_false] at hfc
  rcases hfc with rfl | rfl | rfl | rfl <;> decide

/-- hypothesis of `schema_string_roundtrip`: schema `a/{a:int}/n_x/{n.x:bool}/{s}` on a nested state point -/
example : AllRepresentable [.lit "a", .fld "a" .int, .lit "n_x", .fld "n.x" .bool, .fld "s" .str]
    (.obj [("a", .int (-7)), ("n", .obj [("x", .bool true)]), ("s", .str "x_1")]) := by
  intro k ty hm
  simp only [List.mem_cons, List.not_mem_nil, or_false, reduceCtorEq, SComp.fld.injEq, false_or] at hm
  rcases hm with ⟨rfl, rfl⟩ | ⟨rfl, rfl⟩ | ⟨rfl, rfl⟩
  · exact ⟨.int (-7), rfl, -7, rfl⟩
  · exact ⟨.bool true, rfl, true, rfl⟩
  · exact ⟨.str "x_1", rfl, "x_1", rfl, by decide⟩

/-- hypotheses of `schema_string_roundtrip_flat`: schema `a/{a:int}/{s}/{b:bool}` -/
example : ([.lit "a", .fld "a" .int, .fld "s" .str, .fld "b" .bool] : List SComp).filterMap fldKey
      = [("a", JVal.int 3), ("s", .str "x_1"), ("b", .bool false)].map (·.1)
    ∧ ([("a", JVal.int 3), ("s", .str "x_1"), ("b", .bool false)].map (·.1)).Nodup
    ∧ (∀ kv ∈ [("a", JVal.int 3), ("s", .str "x_1"), ("b", .bool false)], '.' ∉ kv.1.toList)
    ∧ AllRepresentable [.lit "a", .fld "a" .int, .fld "s" .str, .fld "b" .bool]
        (.obj [("a", .int 3), ("s", .str "x_1"), ("b", .bool false)]) := by
  refine ⟨rfl, by decide, ?_, ?_⟩
  · intro kv hkv
    simp only [List.mem_cons, List.not_mem_nil, or_false] at hkv
    rcases hkv with rfl | rfl | rfl <;> decide
  · intro k ty hm
    simp only [List.mem_cons, List.not_mem_nil, or_false, reduceCtorEq, SComp.fld.injEq, false_or] at hm
    rcases hm with ⟨rfl, rfl⟩ | ⟨rfl, rfl⟩ | ⟨rfl, rfl⟩
    · exact ⟨.int 3, rfl, 3, rfl⟩
    · exact ⟨.str "x_1", rfl, "x_1", rfl, by decide⟩
    · exact ⟨.bool false, rfl, false, rfl⟩

end Signac.C16

/-
  C19 — discovery resolves to the nearest enclosing project; init_project is idempotent.
  Property theorems only; helper lemmas live in Signac/Proofs/DiscLocate.lean, DiscJob.lean.

  Paths are lists of components INNERMOST FIRST (`/a/b/c` = ["c","b","a"]); `q <:+ p`
  (`AncOrSelf q p`) reads "q is p or an ancestor of p".  A `Tree` is any assignment of
  kind / `.signac/config` marker (+ version) / legacy `signac.rc` marker to paths.
-/
import Signac.Extracted
import Signac.Discovery
import Signac.Proofs.DiscLocate
import Signac.Proofs.DiscJob
namespace Signac.C19
open Signac Signac.Disc

/-- The upward search of `_locate_config_dir` returns `q` iff `q` is `p` or an ancestor of
    `p`, is a project, and every project at or above `p` is at or above `q` (= `q` is the
    nearest one).  All trees, all paths. -/
theorem locate_nearest (t : Tree) (p q : Path) :
    findProject t p = some q ↔
      AncOrSelf q p ∧ isProject t q = true ∧
        ∀ r, AncOrSelf r p → isProject t r = true → AncOrSelf r q :=
  findProject_nearest t p q

/-- `get_project(p)` (search=True) returns the project at `q` iff `p` exists, `q` is the
    nearest project at or above `p`, and that project passes the version gate.  In particular
    a project further up is never returned past a nearer one, whatever the nearer one's
    version is. -/
theorem getProject_nearest (t : Tree) (p q : Path) :
    (getProject t p true).1 = .ok q ↔ t.kind p ≠ .absent ∧ Nearest t p q ∧ GateOk t q :=
  getProject_search_ok_iff t p q

/-- `get_project(p, search=False)` returns a project iff `p` itself is one, and then it is `p`. -/
theorem nosearch_exact (t : Tree) (p q : Path) :
    (getProject t p false).1 = .ok q ↔
      q = p ∧ t.kind p ≠ .absent ∧ isProject t p = true ∧ GateOk t p :=
  getProject_nosearch_ok_iff t p q

/-- Under the layout hypothesis of the property (names containing an id occur only as
    directories named exactly by an id directly inside a project's `workspace`),
    `get_job(p)` returns `(j, q)` iff `q/workspace/j` is a job directory at or above `p`,
    every job directory at or above `p` is at or above it (= it is the innermost one), and `q`
    — the project whose workspace holds it — passes the gate. -/
theorem getJob_innermost (t : Tree) (L : Layout t) (p : Path) (j : String) (q : Path) :
    (getJob t p).1 = .ok (j, q) ↔
      t.kind p ≠ .absent ∧ GateOk t q ∧ IsJobDir t (j :: "workspace" :: q) ∧
        AncOrSelf (j :: "workspace" :: q) p ∧
        ∀ d, IsJobDir t d → AncOrSelf d p → AncOrSelf d (j :: "workspace" :: q) :=
  getJob_innermost_aux t L p j q

/-- LookupError, never a guess: a non-existent path; nothing at or above the path (no project, no
    legacy config); no id in the path; the id-named path is not a directory. And whatever is
    returned is a project at or above the query. -/
theorem lookup_errors (t : Tree) (p : Path) :
    (t.kind p = .absent → ∀ s, getProject t p s = (.error .lookup, []))
    ∧ (t.kind p = .absent → getJob t p = (.error .lookup, []))
    ∧ ((∀ r, AncOrSelf r p → isProject t r = false) → (∀ r, AncOrSelf r p → t.rc r = none) →
        ∀ s, getProject t p s = (.error .lookup, []))
    ∧ ((∀ c ∈ p, ¬ HasMatch c) → getJob t p = (.error .lookup, []))
    ∧ (∀ s q, (getProject t p s).1 = .ok q → AncOrSelf q p ∧ isProject t q = true) := by
  refine ⟨?_, ?_, ?_, ?_, ?_⟩
  · intro h s; simp [getProject, h]
  · intro h; simp [getJob, h]
  · intro h1 h2 s
    unfold getProject
    by_cases hk : t.kind p = .absent
    · simp [hk]
    · cases s
      · simp [hk, h1 p (List.suffix_refl _)]
      · simp [hk, getProjectFrom_nothing t p h1 h2]
  · intro h
    unfold getJob
    by_cases hk : t.kind p = .absent
    · simp [hk]
    · simp [hk, (lastJob_none p).mpr h]
  · intro s q h
    cases s
    · have := (getProject_nosearch_ok_iff t p q).mp h
      rw [this.1]; exact ⟨List.suffix_refl _, this.2.2.1⟩
    · have := (getProject_search_ok_iff t p q).mp h
      exact ⟨this.2.1.1, this.2.1.2.1⟩

/-- `init_project` on an existing project whose workspace directory is there performs no
    mutating step at all and returns that project (or refuses it at the version gate). -/
theorem initProject_idempotent (t : Tree) (p : Path) (hp : isProject t p = true)
    (hk : t.kind p ≠ .absent) (hw : hasWorkspace t p = true) :
    (initProject t p).2 = [] ∧
      ((initProject t p).1 = .ok p ∨ (initProject t p).1 = .error .incompatible) := by
  rw [initProject_existing t p hp hk]
  refine ⟨openProject_steps_ws t p hw, ?_⟩
  unfold openProject
  unfold isProject at hp
  cases hc : t.cfg p with
  | none => rw [hc] at hp; cases hp
  | some v =>
    simp only []
    by_cases hg : Mig.gate (v.getD 1) = .ok
    · simp [hg, hw]
    · simp [hg]

/-- `init_project` on an existing project never writes the configuration and creates nothing
    except a missing `workspace` directory (what opening the project does anyway). -/
theorem initProject_never_rewrites (t : Tree) (p : Path) (hp : isProject t p = true)
    (hk : t.kind p ≠ .absent) :
    ∀ s ∈ (initProject t p).2, s = .mkdir ("workspace" :: p) := by
  rw [initProject_existing t p hp hk]
  exact openProject_steps t p

/-- `init_project` where there is no project and no legacy config: creates the missing levels
    of `p/.signac`, writes the config once, opens the new project. -/
theorem initProject_fresh (t : Tree) (p : Path) (hp : isProject t p = false) (hrc : t.rc p = none) :
    initProject t p = (.ok p, mkdirP t (".signac" :: p) ++ [.writeConfig p] ++
      (if hasWorkspace t p then [] else [.mkdir ("workspace" :: p)])) :=
  initProject_fresh_aux t p hp hrc

/-- The pattern the model scans for is the one the running package uses. -/
theorem id_pattern_tie :
    Extracted.JOB_ID_REGEX = "[a-f0-9]{" ++ toString idLen ++ "}" ∧ idLen = 32 := by decide

/-! ### non-vacuity -/

def idA : String := "0123456789abcdef0123456789abcdef"
def idB : String := "ffffffffffffffffffffffffffffffff"

/-- `/P` project, job `idA`, inside it a plain directory `sub` holding a nested project `N`
    with its own job `idB` and a data directory; plus a plain directory `/x` outside. -/
def exNodes : List Node := [
  ⟨[], .dir, none, none⟩,
  ⟨["P"], .dir, some (some 2), none⟩,
  ⟨["workspace", "P"], .dir, none, none⟩,
  ⟨[idA, "workspace", "P"], .dir, none, none⟩,
  ⟨["sub", idA, "workspace", "P"], .dir, none, none⟩,
  ⟨["N", "sub", idA, "workspace", "P"], .dir, some (some 2), none⟩,
  ⟨["workspace", "N", "sub", idA, "workspace", "P"], .dir, none, none⟩,
  ⟨[idB, "workspace", "N", "sub", idA, "workspace", "P"], .dir, none, none⟩,
  ⟨["data", idB, "workspace", "N", "sub", idA, "workspace", "P"], .dir, none, none⟩,
  ⟨["x"], .dir, none, none⟩ ]

def exTree : Tree := Tree.ofNodes exNodes

/-- the layout hypothesis is satisfiable by a tree with a project nested in a job directory -/
theorem exTree_layout : Layout exTree := layout_of_check exNodes (by decide)

/-- in it, the nearest project of the nested data directory is the nested project, -/
example : findProject exTree ["data", idB, "workspace", "N", "sub", idA, "workspace", "P"]
    = some ["N", "sub", idA, "workspace", "P"] := by decide

/-- the job of the nested data directory is the inner job in the nested project, -/
example : (getJob exTree ["data", idB, "workspace", "N", "sub", idA, "workspace", "P"]).1
    = .ok (idB, ["N", "sub", idA, "workspace", "P"]) := by rfl

/-- the job of the nested project directory itself is the outer job of the outer project, -/
example : (getJob exTree ["N", "sub", idA, "workspace", "P"]).1 = .ok (idA, ["P"]) := by rfl

/-- and outside every project both raise LookupError. -/
example : getProject exTree ["x"] true = (.error .lookup, [])
    ∧ getJob exTree ["x"] = (.error .lookup, []) := ⟨by rfl, by rfl⟩

/-- hypotheses of `initProject_idempotent` / `initProject_fresh` hold for `/P` resp. `/x` -/
example : isProject exTree ["P"] = true ∧ exTree.kind ["P"] ≠ .absent
    ∧ hasWorkspace exTree ["P"] = true := by decide

example : isProject exTree ["x"] = false ∧ exTree.rc ["x"] = none := by decide

end Signac.C19

/-
  C19 — discovery resolves to the nearest enclosing project; init_project is idempotent.
  Property theorems only; helper lemmas live in Signac/Proofs/DiscLocate.lean, DiscJob.lean.

  Paths are lists of components INNERMOST FIRST (`/a/b/c` = ["c","b","a"]); `q <:+ p`
  (`AncOrSelf q p`) reads "q is p or an ancestor of p".  A `Tree` is any assignment of
  kind / `.signac/config` marker (+ version) / legacy `signac.rc` marker to paths.
-/
import Signac.Extracted
import Signac.Discovery
import Signac.Proofs.DiscLocate
import Signac.Proofs.DiscJob
import Signac.DiscoveryS
import Signac.Proofs.DiscoverySLemmas
namespace Signac.C19
open Signac Signac.Disc

/-- The upward search of `_locate_config_dir` returns `q` iff `q` is `p` or an ancestor of
    `p`, is a project, and every project at or above `p` is at or above `q` (= `q` is the
    nearest one).  All trees, all paths. -/
theorem locate_nearest (t : Tree) (p q : Path) :
    findProject t p = some q ↔
      AncOrSelf q p ∧ isProject t q = true ∧
        ∀ r, AncOrSelf r p → isProject t r = true → AncOrSelf r q :=
  findProject_nearest t p q

/-- `get_project(p)` (search=True) returns the project at `q` iff `p` exists, `q` is the
    nearest project at or above `p`, and that project passes the version gate.  In particular
    a project further up is never returned past a nearer one, whatever the nearer one's
    version is. -/
theorem getProject_nearest (t : Tree) (p q : Path) :
    (getProject t p true).1 = .ok q ↔ t.kind p ≠ .absent ∧ Nearest t p q ∧ GateOk t q :=
  getProject_search_ok_iff t p q

/-- `get_project(p, search=False)` returns a project iff `p` itself is one, and then it is `p`. -/
theorem nosearch_exact (t : Tree) (p q : Path) :
    (getProject t p false).1 = .ok q ↔
      q = p ∧ t.kind p ≠ .absent ∧ isProject t p = true ∧ GateOk t p :=
  getProject_nosearch_ok_iff t p q

/-- The model of `get_job` is the code, literally: every component is scanned with
    `re.finditer` and only matches spanning the whole component pass the filter.  That comes to:
    a component has such a match iff it IS an id (`isIdName`: `idLen` characters of `[a-f0-9]`),
    the match then ends at `idLen`, and the matched id and the component cut at the end of the
    match are the component itself. -/
theorem complete_match_iff_idName (c : String) :
    (lastMatchEnd c).isSome = isIdName c
    ∧ (isIdName c = true →
        lastMatchEnd c = some idLen ∧ matchedId c idLen = c ∧ cutAt c idLen = c) :=
  ⟨lastMatchEnd_isSome c, fun h =>
    ⟨idLike_lastMatchEnd ((isIdName_iff c).mp h), idLike_matched ((isIdName_iff c).mp h),
      idLike_cut ((isIdName_iff c).mp h)⟩⟩

/-- Hence the last complete match in the path is the innermost component that is an id, taken
    as it stands, with the path from that component up (`lastJobSimple`). -/
theorem lastJob_simple (p : Path) : lastJob p = lastJobSimple p := lastJob_eq_simple p

/-- `get_job(p)` returns `(j, q)` iff `p` exists, `j` is the innermost component of `p` that
    is an id, the path from that component up is a directory, and `q` is the nearest project
    strictly above that directory and passes the gate.  All trees, all paths, no layout
    hypothesis. -/
theorem getJob_characterised (t : Tree) (p : Path) (j : String) (q : Path) :
    (getJob t p).1 = .ok (j, q) ↔
      t.kind p ≠ .absent ∧ ∃ rest, AncOrSelf (j :: rest) p ∧ isIdName j = true ∧
        (∀ h' tl, AncOrSelf (h' :: tl) p → isIdName h' = true → AncOrSelf (h' :: tl) (j :: rest)) ∧
        t.kind (j :: rest) = .dir ∧ Nearest t rest q ∧ GateOk t q :=
  getJob_ok_iff_simple t p j q

/-- No phantom jobs, no layout hypothesis: whatever `get_job(p)` returns, the id is a complete
    component of `p`, it is an id, and the path cut at that component is a directory of the
    tree at or above `p`. -/
theorem getJob_never_phantom (t : Tree) (p : Path) (j : String) (q : Path)
    (h : (getJob t p).1 = .ok (j, q)) :
    j ∈ p ∧ isIdName j = true ∧
      ∃ rest, AncOrSelf (j :: rest) p ∧ t.kind (j :: rest) = .dir := by
  obtain ⟨_, rest, hs, hid, _, hd, _, _⟩ := (getJob_ok_iff_simple t p j q).mp h
  exact ⟨hs.mem (List.mem_cons_self ..), hid, rest, hs, hd⟩

/-- Look-alikes are ignored: if no component of `p` is an id — whatever id-like runs the
    components contain — `get_job(p)` raises LookupError and does nothing. -/
theorem getJob_ignores_lookalikes (t : Tree) (p : Path) (h : ∀ c ∈ p, isIdName c = false) :
    getJob t p = (.error .lookup, []) := by
  unfold getJob
  by_cases hk : t.kind p = .absent
  · simp [hk]
  · simp [hk, (lastJob_none p).mpr h]

/-- Under the (weak) layout hypothesis of the property — a directory whose name IS an id sits
    directly inside a project's `workspace`, which is not itself a project; existing id-named
    paths are directories; existing paths sit in directories; names merely containing an
    id-like run are unconstrained — `get_job(p)` returns `(j, q)` iff `q/workspace/j` is a job
    directory at or above `p`, every job directory at or above `p` is at or above it (= it is
    the innermost one), and `q` — the project whose workspace holds it — passes the gate. -/
theorem getJob_innermost (t : Tree) (L : LayoutW t) (p : Path) (j : String) (q : Path) :
    (getJob t p).1 = .ok (j, q) ↔
      t.kind p ≠ .absent ∧ GateOk t q ∧ IsJobDir t (j :: "workspace" :: q) ∧
        AncOrSelf (j :: "workspace" :: q) p ∧
        ∀ d, IsJobDir t d → AncOrSelf d p → AncOrSelf d (j :: "workspace" :: q) :=
  getJob_innermost_aux t L p j q

/-- the old layout hypothesis (no name may even CONTAIN an id-like run unless it is a job
    directory) implies the weak one, -/
theorem layout_weaker (t : Tree) (L : Layout t) : LayoutW t := L.toW

/-- so the old statement is a corollary. -/
theorem getJob_innermost_strict (t : Tree) (L : Layout t) (p : Path) (j : String) (q : Path) :
    (getJob t p).1 = .ok (j, q) ↔
      t.kind p ≠ .absent ∧ GateOk t q ∧ IsJobDir t (j :: "workspace" :: q) ∧
        AncOrSelf (j :: "workspace" :: q) p ∧
        ∀ d, IsJobDir t d → AncOrSelf d p → AncOrSelf d (j :: "workspace" :: q) :=
  getJob_innermost t L.toW p j q

/-- LookupError, never a guess: a non-existent path; nothing at or above the path (no project, no
    legacy config); no component of the path is an id; the id-named path is not a directory.
    And whatever is returned is a project at or above the query. -/
theorem lookup_errors (t : Tree) (p : Path) :
    (t.kind p = .absent → ∀ s, getProject t p s = (.error .lookup, []))
    ∧ (t.kind p = .absent → getJob t p = (.error .lookup, []))
    ∧ ((∀ r, AncOrSelf r p → isProject t r = false) → (∀ r, AncOrSelf r p → t.rc r = none) →
        ∀ s, getProject t p s = (.error .lookup, []))
    ∧ ((∀ c ∈ p, isIdName c = false) → getJob t p = (.error .lookup, []))
    ∧ (∀ j rest, lastJob p = some (j, rest) → t.kind rest ≠ .dir →
        getJob t p = (.error .lookup, []))
    ∧ (∀ s q, (getProject t p s).1 = .ok q → AncOrSelf q p ∧ isProject t q = true) := by
  refine ⟨?_, ?_, ?_, ?_, ?_, ?_⟩
  · intro h s; simp [getProject, h]
  · intro h; simp [getJob, h]
  · intro h1 h2 s
    unfold getProject
    by_cases hk : t.kind p = .absent
    · simp [hk]
    · cases s
      · simp [hk, h1 p (List.suffix_refl _)]
      · simp [hk, getProjectFrom_nothing t p h1 h2]
  · exact getJob_ignores_lookalikes t p
  · intro j rest hl hd
    unfold getJob
    by_cases hk : t.kind p = .absent
    · simp [hk]
    · simp [hk, hl, hd]
  · intro s q h
    cases s
    · have := (getProject_nosearch_ok_iff t p q).mp h
      rw [this.1]; exact ⟨List.suffix_refl _, this.2.2.1⟩
    · have := (getProject_search_ok_iff t p q).mp h
      exact ⟨this.2.1.1, this.2.1.2.1⟩

/-- `init_project` on an existing project whose workspace directory is there performs no
    mutating step at all and returns that project (or refuses it at the version gate). -/
theorem initProject_idempotent (t : Tree) (p : Path) (hp : isProject t p = true)
    (hk : t.kind p ≠ .absent) (hw : hasWorkspace t p = true) :
    (initProject t p).2 = [] ∧
      ((initProject t p).1 = .ok p ∨ (initProject t p).1 = .error .incompatible) := by
  rw [initProject_existing t p hp hk]
  refine ⟨openProject_steps_ws t p hw, ?_⟩
  unfold openProject
  unfold isProject at hp
  cases hc : t.cfg p with
  | none => rw [hc] at hp; cases hp
  | some v =>
    simp only []
    by_cases hg : Mig.gate (v.getD 1) = .ok
    · simp [hg, hw]
    · simp [hg]

/-- `init_project` on an existing project never writes the configuration and creates nothing
    except a missing `workspace` directory (what opening the project does anyway). -/
theorem initProject_never_rewrites (t : Tree) (p : Path) (hp : isProject t p = true)
    (hk : t.kind p ≠ .absent) :
    ∀ s ∈ (initProject t p).2, s = .mkdir ("workspace" :: p) := by
  rw [initProject_existing t p hp hk]
  exact openProject_steps t p

/-- `init_project` where there is no project and no legacy config: creates the missing levels
    of `p/.signac`, writes the config once, opens the new project. -/
theorem initProject_fresh (t : Tree) (p : Path) (hp : isProject t p = false) (hrc : t.rc p = none) :
    initProject t p = (.ok p, mkdirP t (".signac" :: p) ++ [.writeConfig p] ++
      (if hasWorkspace t p then [] else [.mkdir ("workspace" :: p)])) :=
  initProject_fresh_aux t p hp hrc

/-- The pattern the model scans for is the one the running package uses. -/
theorem id_pattern_tie :
    Extracted.JOB_ID_REGEX = "[a-f0-9]{" ++ toString idLen ++ "}" ∧ idLen = 32 := by decide

/-! ### non-vacuity -/

def idA : String := "0123456789abcdef0123456789abcdef"
def idB : String := "ffffffffffffffffffffffffffffffff"

/-- `/P` project, job `idA`, inside it a plain directory `sub` holding a nested project `N`
    with its own job `idB` and a data directory; plus a plain directory `/x` outside. -/
def exNodes : List Node := [
  ⟨[], .dir, none, none⟩,
  ⟨["P"], .dir, some (some 2), none⟩,
  ⟨["workspace", "P"], .dir, none, none⟩,
  ⟨[idA, "workspace", "P"], .dir, none, none⟩,
  ⟨["sub", idA, "workspace", "P"], .dir, none, none⟩,
  ⟨["N", "sub", idA, "workspace", "P"], .dir, some (some 2), none⟩,
  ⟨["workspace", "N", "sub", idA, "workspace", "P"], .dir, none, none⟩,
  ⟨[idB, "workspace", "N", "sub", idA, "workspace", "P"], .dir, none, none⟩,
  ⟨["data", idB, "workspace", "N", "sub", idA, "workspace", "P"], .dir, none, none⟩,
  ⟨["x"], .dir, none, none⟩ ]

def exTree : Tree := Tree.ofNodes exNodes

/-- the (old, strict) layout hypothesis is satisfiable by a tree with a project nested in a job
    directory, and so is the weak one -/
theorem exTree_layout : Layout exTree := layout_of_check exNodes (by decide)

theorem exTree_layoutW : LayoutW exTree := exTree_layout.toW

/-- in it, the nearest project of the nested data directory is the nested project, -/
example : findProject exTree ["data", idB, "workspace", "N", "sub", idA, "workspace", "P"]
    = some ["N", "sub", idA, "workspace", "P"] := by decide

/-- the job of the nested data directory is the inner job in the nested project, -/
example : (getJob exTree ["data", idB, "workspace", "N", "sub", idA, "workspace", "P"]).1
    = .ok (idB, ["N", "sub", idA, "workspace", "P"]) := by rfl

/-- the job of the nested project directory itself is the outer job of the outer project, -/
example : (getJob exTree ["N", "sub", idA, "workspace", "P"]).1 = .ok (idA, ["P"]) := by rfl

/-- and outside every project both raise LookupError. -/
example : getProject exTree ["x"] true = (.error .lookup, [])
    ∧ getJob exTree ["x"] = (.error .lookup, []) := ⟨by rfl, by rfl⟩

/-- hypotheses of `initProject_idempotent` / `initProject_fresh` hold for `/P` resp. `/x` -/
example : isProject exTree ["P"] = true ∧ exTree.kind ["P"] ≠ .absent
    ∧ hasWorkspace exTree ["P"] = true := by decide

example : isProject exTree ["x"] = false ∧ exTree.rc ["x"] = none := by decide

/-! ### look-alikes -/

def lookX : String := "x0123456789abcdef0123456789abcdef"             -- "x" ++ idA
def lookBak : String := "0123456789abcdef0123456789abcdef.bak"        -- idA ++ ".bak"
def look40 : String := "0123456789abcdef0123456789abcdef01234567"     -- idA ++ 8 more hex characters

example : lookX = "x" ++ idA ∧ lookBak = idA ++ ".bak" ∧ look40 = idA ++ "01234567" := by decide

/-- `/P` project with the real job `idA`; next to it in the workspace three look-alike
    directories (`x<id>`, `<id>.bak`, a 40-hex name), each with a file inside; inside the real job
    directory a look-alike directory `x<id>` with a file inside. -/
def lookNodes : List Node := [
  ⟨[], .dir, none, none⟩,
  ⟨["P"], .dir, some (some 2), none⟩,
  ⟨["workspace", "P"], .dir, none, none⟩,
  ⟨[idA, "workspace", "P"], .dir, none, none⟩,
  ⟨[lookX, "workspace", "P"], .dir, none, none⟩,
  ⟨["f", lookX, "workspace", "P"], .file, none, none⟩,
  ⟨[lookBak, "workspace", "P"], .dir, none, none⟩,
  ⟨["f", lookBak, "workspace", "P"], .file, none, none⟩,
  ⟨[look40, "workspace", "P"], .dir, none, none⟩,
  ⟨["f", look40, "workspace", "P"], .file, none, none⟩,
  ⟨[lookX, idA, "workspace", "P"], .dir, none, none⟩,
  ⟨["f", lookX, idA, "workspace", "P"], .file, none, none⟩ ]

def lookTree : Tree := Tree.ofNodes lookNodes

/-- the look-alikes contain a match of the pattern (the OLD code took it), but are no ids -/
example : hasMatchB lookX = true ∧ hasMatchB lookBak = true ∧ hasMatchB look40 = true
    ∧ isIdName lookX = false ∧ isIdName lookBak = false ∧ isIdName look40 = false
    ∧ isIdName idA = true := by decide

/-- the tree with look-alikes satisfies the weak layout hypothesis but not the old one: the
    weakening is strict -/
theorem lookTree_layoutW : LayoutW lookTree := layoutW_of_check lookNodes (by decide)

theorem lookTree_not_layout : ¬ Layout lookTree := by
  intro L
  have := (L.idlike lookX ["workspace", "P"] (by decide) ((hasMatchB_iff lookX).mp (by decide))).2.1
  exact absurd ((isIdName_iff lookX).mpr this) (by decide)

/-- `get_job` of a look-alike directory, or of a file in it: LookupError, nothing done -/
example : getJob lookTree [lookX, "workspace", "P"] = (.error .lookup, [])
    ∧ getJob lookTree ["f", lookX, "workspace", "P"] = (.error .lookup, []) := ⟨by rfl, by rfl⟩

example : getJob lookTree [lookBak, "workspace", "P"] = (.error .lookup, [])
    ∧ getJob lookTree ["f", lookBak, "workspace", "P"] = (.error .lookup, []) := ⟨by rfl, by rfl⟩

example : getJob lookTree [look40, "workspace", "P"] = (.error .lookup, [])
    ∧ getJob lookTree ["f", look40, "workspace", "P"] = (.error .lookup, []) := ⟨by rfl, by rfl⟩

/-- a look-alike directory INSIDE a real job directory: the enclosing job is returned -/
example : getJob lookTree [lookX, idA, "workspace", "P"] = (.ok (idA, ["P"]), [])
    ∧ getJob lookTree ["f", lookX, idA, "workspace", "P"] = (.ok (idA, ["P"]), []) := ⟨by rfl, by rfl⟩

/-- the hypotheses of `getJob_ignores_lookalikes` hold of the first three queries -/
example : (∀ c ∈ ["f", lookX, "workspace", "P"], isIdName c = false)
    ∧ (∀ c ∈ ["f", lookBak, "workspace", "P"], isIdName c = false)
    ∧ (∀ c ∈ ["f", look40, "workspace", "P"], isIdName c = false) := by decide

/-! ### the clause "existing id-named paths are directories" of `LayoutW` is needed -/

/-- `/P` project, job `idA`, and inside the job directory a FILE whose name is an id. -/
def fileNodes : List Node := [
  ⟨[], .dir, none, none⟩,
  ⟨["P"], .dir, some (some 2), none⟩,
  ⟨["workspace", "P"], .dir, none, none⟩,
  ⟨[idA, "workspace", "P"], .dir, none, none⟩,
  ⟨[idB, idA, "workspace", "P"], .file, none, none⟩ ]

def fileTree : Tree := Tree.ofNodes fileNodes

/-- If the layout hypothesis constrains only id-named DIRECTORIES (`LayoutDirOnly`: `LayoutW`
    without its clause `iddir`), the equivalence of `getJob_innermost` fails: for an id-named
    file inside a job directory `get_job` takes the file's name for the job id, finds that
    `<file>/..` does not exist and raises LookupError, although the innermost job directory
    containing the path exists (and its project passes the gate). -/
theorem getJob_innermost_needs_iddir :
    ∃ (t : Tree) (p : Path) (j : String) (q : Path), LayoutDirOnly t ∧
      getJob t p = (.error .lookup, []) ∧
      (t.kind p ≠ .absent ∧ GateOk t q ∧ IsJobDir t (j :: "workspace" :: q) ∧
        AncOrSelf (j :: "workspace" :: q) p ∧
        ∀ d, IsJobDir t d → AncOrSelf d p → AncOrSelf d (j :: "workspace" :: q)) := by
  refine ⟨fileTree, [idB, idA, "workspace", "P"], idA, ["P"],
    layoutDirOnly_of_check fileNodes (by decide), by rfl, by decide, ⟨some 2, by rfl, by decide⟩,
    ⟨idA, ["P"], rfl, (isIdName_iff idA).mp (by decide), by decide, by decide⟩, List.suffix_cons _ _, ?_⟩
  intro d hd hs
  rcases List.suffix_cons_iff.mp hs with rfl | hs'
  · obtain ⟨_, _, _, _, _, hk⟩ := hd
    exact absurd hk (by decide)
  · exact hs'

/-! ### the schema version as the string in the file (Signac/DiscoveryS.lean)

`DiscS.TreeS` carries the raw `schema_version` strings, `getProjectS` / `getJobS` convert them
with `int()` where the code does.  "Passes the gate" becomes `Accepted`: the config has the key
and `int()` reads its string as the supported version. -/
open Signac.DiscS Signac.PyInt

/-- `getProject_nearest` for EVERY string tree (integer literals or not): `get_project(p)`
    returns `q` iff `p` exists, `q` is the nearest project at or above `p`, and the string its
    config declares is read by `int()` as the supported version.  A nearer project whose string
    is anything else — "3", "2.1", "" — is never skipped (`C20.gate_refuses_strings`). -/
theorem getProjectS_nearest (ts : TreeS) (p q : Path) :
    (getProjectS ts p true).1 = .ok q ↔
      ts.kind p ≠ .absent ∧ NearestS ts p q ∧
        ∃ s, ts.cfgS q = some (some s) ∧ pyInt s = some (Mig.SCHEMA : Int) :=
  getProjectS_search_ok_iff ts p q

/-- `nosearch_exact` for every string tree. -/
theorem nosearchS_exact (ts : TreeS) (p q : Path) :
    (getProjectS ts p false).1 = .ok q ↔
      q = p ∧ ts.kind p ≠ .absent ∧ isProjectS ts p = true ∧
        ∃ s, ts.cfgS p = some (some s) ∧ pyInt s = some (Mig.SCHEMA : Int) :=
  getProjectS_nosearch_ok_iff ts p q

/-- The upward search itself does not look at the version at all. -/
theorem locateS_nearest (ts : TreeS) (p q : Path) : findProjectS ts p = some q ↔ NearestS ts p q :=
  findProjectS_nearest ts p q

/-- `getJob_innermost` transfers to every string tree whose versions are integer literals
    (`Denotes ts t`, see `C20.stringLayer_refines`). -/
theorem getJobS_innermost (ts : TreeS) (t : Tree) (h : Denotes ts t) (L : LayoutW t) (p : Path)
    (j : String) (q : Path) :
    (getJobS ts p).1 = .ok (j, q) ↔
      t.kind p ≠ .absent ∧ GateOk t q ∧ IsJobDir t (j :: "workspace" :: q) ∧
        AncOrSelf (j :: "workspace" :: q) p ∧
        ∀ d, IsJobDir t d → AncOrSelf d p → AncOrSelf d (j :: "workspace" :: q) := by
  rw [getJobS_eq h]
  simp only [liftR, liftE_ok_iff]
  exact getJob_innermost t L p j q

/-- and for a string tree outside that domain: whatever `get_job` returns, the project's string
    is one `int()` reads as the supported version -/
theorem getJobS_accepted (ts : TreeS) (p : Path) (j : String) (q : Path)
    (h : (getJobS ts p).1 = .ok (j, q)) :
    ∃ s, ts.cfgS q = some (some s) ∧ pyInt s = some (Mig.SCHEMA : Int) :=
  getJobS_accepts ts p j q h

/-- the nested example with the versions written as strings: the outer project says " 2", the
    nested one "02" -/
def exTreeS : TreeS := TreeS.ofNodes [
  ⟨[], .dir, none, none⟩,
  ⟨["P"], .dir, some (some " 2"), none⟩,
  ⟨["workspace", "P"], .dir, none, none⟩,
  ⟨[idA, "workspace", "P"], .dir, none, none⟩,
  ⟨["sub", idA, "workspace", "P"], .dir, none, none⟩,
  ⟨["N", "sub", idA, "workspace", "P"], .dir, some (some "02"), none⟩,
  ⟨["workspace", "N", "sub", idA, "workspace", "P"], .dir, none, none⟩,
  ⟨[idB, "workspace", "N", "sub", idA, "workspace", "P"], .dir, none, none⟩,
  ⟨["data", idB, "workspace", "N", "sub", idA, "workspace", "P"], .dir, none, none⟩,
  ⟨["x"], .dir, none, none⟩ ]

theorem exTreeS_denotes : Denotes exTreeS exTreeS.toTree :=
  denotes_toTree _ (intLiterals_ofNodes _ (by decide))

example : (getJobS exTreeS ["data", idB, "workspace", "N", "sub", idA, "workspace", "P"]).1
    = .ok (idB, ["N", "sub", idA, "workspace", "P"]) := by rfl

example : (getJobS exTreeS ["N", "sub", idA, "workspace", "P"]).1 = .ok (idA, ["P"]) := by rfl

example : getProjectS exTreeS ["x"] true = (.error (.base .lookup), []) := by rfl

end Signac.C19

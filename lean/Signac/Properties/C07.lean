/-
  C07 — all query front ends, cursors and groupby agree with find_jobs.
  Property theorems only; helper lemmas live in Signac/Proofs/Query*.lean.
-/
import Signac.Proofs.QueryCorpus
namespace Signac.C07
open Signac Signac.Query

/-- `len(cursor)` is the number of ids the cursor holds. -/
theorem cursor_len (ids : List JobId) : Cursor.len ids = ids.length := rfl

end Signac.C07

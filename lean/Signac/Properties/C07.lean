/-
  C07 — all query front ends, cursors and groupby agree with find_jobs.
  Property theorems only; helper lemmas live in Signac/Proofs/QueryFront.lean.

  Reading guide.  `ofJson` is `dict(_add_prefix(filter))` + the pops of `_find_result`; `nf` is
  the flattened normal form of a filter (dotted keys at every level).  `findFlt` / `evalRef` are
  as in C06.  `parseFilterArg C toks` is `parse_filter_arg` with CPython's `int`, `float`,
  `json.loads` as the parameter `C`.  `Cursor.*` are the `JobsCursor` methods over its cached id
  list.  `groupby` resolves dotted keys through sub-mappings (fix F-7).
-/
import Signac.Proofs.QueryGroup
namespace Signac.C07
open Signac Signac.Query
open Signac.Query.Full (CorpusKeysNodup)

/-! ### spellings -/

/-- Everything `find_jobs` and the reference evaluator see of a filter is its flattened normal
    form: two spellings with the same normal form select the same jobs (and raise the same
    exceptions) on every corpus. -/
theorem spellings_same_result {f g : Flt} (h : nf f = nf g) (P : Params) :
    (∀ c, findFlt P c f = findFlt P c g) ∧ ∀ d, evalRef P d f = evalRef P d g :=
  same_nf_same_result h P

/-- Nested mapping vs dotted key: `{k: {k2: v, …}}` and `{"k.k2": v, …}` have the same normal form
    (with logical operators `n a o` alongside, at any depth of `k`). -/
theorem nested_eq_dotted (k : String) (kv : String × JVal) (rest : List (String × JVal))
    (n : Option Flt) (a o : Option (List Flt)) :
    nf (.mk [(k, .obj (kv :: rest))] n a o)
      = nf (.mk ((kv :: rest).map (fun p => (k ++ "." ++ p.1, p.2))) n a o) := by
  simp only [nf, flatten_nested]

/-- Operator as nested mapping vs key suffix: `{k: {"$lt": v}}` and `{"k.$lt": v}`. -/
theorem op_suffix_eq_nested (k op : String) (v : JVal) (n : Option Flt) (a o : Option (List Flt)) :
    nf (.mk [(k, .obj [(op, v)])] n a o) = nf (.mk [(k ++ "." ++ op, v)] n a o) :=
  nested_eq_dotted k (op, v) [] n a o

/-- A rewriting step may be applied to one entry among others: flattening is compositional. -/
theorem spelling_in_context (xs ys zs zs' : List (String × JVal)) (h : flatten zs = flatten zs')
    (n : Option Flt) (a o : Option (List Flt)) :
    nf (.mk (xs ++ zs ++ ys) n a o) = nf (.mk (xs ++ zs' ++ ys) n a o) := by
  simp only [nf, flatten_append, h]

/-- A one-entry filter with a non-logical key is that entry, prefixed. -/
theorem ofJson_single (k : String) (v : JVal) (h : k ≠ "$and" ∧ k ≠ "$or" ∧ k ≠ "$not") :
    ofJson (.obj [(k, v)]) = .ok (.mk [(prefixKey k, v)] none none none) := by
  unfold ofJson ofEntries
  rw [if_neg (by simp [h.1, h.2.1]), if_neg h.2.2]
  rfl

/-- The `sp.` prefix is optional: a key without a namespace of its own is prefixed to exactly what
    the explicitly prefixed key is. -/
theorem sp_prefix_optional (k : String) (v : JVal)
    (h1 : ¬ (k.toList.contains '.' = true ∧ (rootOf k = "sp" ∨ rootOf k = "doc")))
    (h2 : k ≠ "sp" ∧ k ≠ "doc") (h3 : k ≠ "$and" ∧ k ≠ "$or" ∧ k ≠ "$not") :
    ofJson (.obj [(k, v)]) = ofJson (.obj [("sp." ++ k, v)]) := by
  have e : prefixKey ("sp." ++ k) = prefixKey k := prefixKey_optional k (prefixKey_plain k h1 h2)
  have ne : ∀ s : String, s.toList.head? = some '$' → "sp." ++ k ≠ s := by
    intro s hs heq
    have := congrArg String.toList heq
    rw [toList_sp_dot] at this
    rw [← this] at hs
    simp at hs
  rw [ofJson_single k v h3, ofJson_single ("sp." ++ k) v ⟨ne "$and" rfl, ne "$or" rfl, ne "$not" rfl⟩, e]

/-- The namespace may be given as a mapping: `{"sp": {k: v}}` and `{"sp.k": v}` (same for `doc`). -/
theorem namespace_as_mapping (k : String) (v : JVal) (n : Option Flt) (a o : Option (List Flt)) :
    nf (.mk [("sp", .obj [(k, v)])] n a o) = nf (.mk [("sp." ++ k, v)] n a o)
    ∧ nf (.mk [("doc", .obj [(k, v)])] n a o) = nf (.mk [("doc." ++ k, v)] n a o) := by
  constructor
  · rw [op_suffix_eq_nested]; rfl
  · rw [op_suffix_eq_nested]; rfl

/-! ### command line syntax -/

/-- `signac find <tokens>` evaluates the mapping the tokens parse to (and no tokens = all jobs). -/
theorem cli_eq_mapping (P : Params) (C : CliParams) (c : Corpus) (toks : List String) :
    findCli P C c toks = (match parseFilterArg C toks with
      | .error e => .error e
      | .ok none => .ok (c.map (·.id))
      | .ok (some f) => findJobs P c f) := rfl

/-- `key value` denotes `{key: cast(value)}` for a plain key and a plain value token. -/
theorem cli_pair (C : CliParams) (k v : String) (j : JVal)
    (hk : isJsonLike k = .ok false) (hv1 : v ≠ "!") (hv2 : isJsonLike v = .ok false)
    (hv3 : isRegexTok v = false) (hc : cast C v = .ok j) :
    parseFilterArg C [k, v] = .ok (some (.obj [(k, j)])) := by
  simp [parseFilterArg, parseSimpleDict, parseSimple, parseSingle, hk, hv1, hv2, hv3, hc, dictOfPairs,
    dictCons, lookupKV]

/-- a lone key (and `key !`) denotes `{key: {"$exists": true}}`. -/
theorem cli_exists (C : CliParams) (k : String) (hk : isJsonLike k = .ok false) :
    parseFilterArg C [k] = .ok (some (.obj [(k, existsTrue)]))
    ∧ parseFilterArg C [k, "!"] = .ok (some (.obj [(k, existsTrue)])) := by
  constructor
  · simp [parseFilterArg, parseSingle, hk]
  · simp [parseFilterArg, parseSimpleDict, parseSimple, parseSingle, hk, dictOfPairs, dictCons, lookupKV]

/-- a single JSON-looking token is the filter itself. -/
theorem cli_json (C : CliParams) (a : String) (j : JVal) (ha : isJsonLike a = .ok true)
    (hj : C.jsonLoads a = some j) : parseFilterArg C [a] = .ok (some j) := by
  simp [parseFilterArg, ha, hj]

/-- An int token and a float token of the same integer value are the same query (`a 4` = `a 4.0`):
    plain keys are looked up through the integer the value denotes. -/
theorem cli_int_eq_float (P : Params) (docs : List (JobId × JVal)) (k : String) (n : Int)
    (hk : ∃ nodes, analyseKey k = .plain nodes) (r : String) :
    findExpression P docs k (.int n) = findExpression P docs k (.flt n 0 r) := by
  refine findExpression_intValued hk (n := n) ?_ ?_
  · simp [intValued, numVal, isNumber]
  · simp [intValued, numVal, isNumber]

/-! ### cursor -/

/-- `len`, indexing from both ends, slicing and membership all describe the cursor's id list. -/
theorem cursor_consistent (ids : List JobId) :
    Cursor.len ids = ids.length
    ∧ (∀ i : Nat, Cursor.getitem ids (i : Int) = ids[i]?)
    ∧ (∀ k : Nat, 0 < k → Cursor.getitem ids (-(k : Int)) = if k ≤ ids.length then ids[ids.length - k]? else none)
    ∧ (∀ j, Cursor.contains ids j = true ↔ j ∈ ids)
    ∧ Cursor.slice ids none none none = some ids
    ∧ (∀ a b, Cursor.slice ids a b (some 0) = none)
    ∧ (∀ a b s xs, Cursor.slice ids a b s = some xs → ∀ x ∈ xs, x ∈ ids) :=
  ⟨rfl, getitem_nat ids, getitem_neg ids, contains_iff ids, slice_all ids, slice_step_zero ids,
    fun _ _ _ _ h => slice_mem h⟩

/-! ### groupby -/

/-- `groupby(key[, default])` partitions exactly the jobs its pre-filter selects: the members of
    all groups together are a permutation of the selected ids, and every member's own value for the
    key is the group's label (the first member's value) or `==` to it. -/
theorem groupby_partition (P : Params) (c : Corpus) (flt : JVal) (gk : GroupKeys) (dflt : Option JVal)
    (gs : List (JVal × List JobId)) (h : groupby P c flt gk dflt = .ok gs) :
    ∃ ids, findJobs P c (groupFilter flt gk dflt) = .ok ids ∧
      (gs.flatMap (·.2)).Perm ((c.map (·.id)).filter (fun i => ids.contains i)) ∧
      ∀ g ∈ gs, ∀ i ∈ g.2, ∃ j ∈ c, j.id = i ∧ ∃ l, labelOf j gk dflt = .ok l ∧ (g.1 = l ∨ pyEq g.1 l = true) :=
  groupby_spec h

/-- With distinct job ids no job is in two groups (nor twice in one). -/
theorem groupby_disjoint (P : Params) (c : Corpus) (flt : JVal) (gk : GroupKeys) (dflt : Option JVal)
    (gs : List (JVal × List JobId)) (hids : (c.map (·.id)).Nodup)
    (h : groupby P c flt gk dflt = .ok gs) : (gs.flatMap (·.2)).Nodup := by
  obtain ⟨ids, _, hp, _⟩ := groupby_spec h
  exact hp.nodup_iff.mpr (hids.filter _)

/-- The pre-filter: without a default only jobs having the key(s) are grouped, on top of the
    cursor's own filter; with a default the cursor's filter alone. -/
theorem groupby_prefilter (flt : JVal) (k : String) (d : JVal) (hf : falsy flt = false) :
    groupFilter flt (.single k) none = .obj [("$and", .arr [.obj [(k, existsTrue)], flt])]
    ∧ groupFilter flt (.single k) (some d) = flt
    ∧ groupFilter (.obj []) (.single k) none = .obj [(k, existsTrue)] := by
  refine ⟨?_, ?_, rfl⟩
  · cases flt with
    | obj kvs => cases kvs with
      | nil => simp [falsy] at hf
      | cons _ _ => rfl
    | null => simp [falsy] at hf
    | _ => rfl
  · cases flt with
    | obj kvs => cases kvs with
      | nil => simp [falsy] at hf
      | cons _ _ => rfl
    | null => simp [falsy] at hf
    | _ => rfl

/-- Two different groups returned by `groupby` never carry `==` labels: sorting with Python's `<`
    puts `==` labels next to each other, so `itertools.groupby` opens one group for them
    (`1`, `1.0`, `True` share a group; so do `[1, {"a": 2}]` and `[1.0, {"a": 2.0}]`).
    Hypotheses: every mapping in the job data, and in the default, has distinct keys — an invariant
    of Python dicts (`CorpusKeysNodup`, see C06) — and `groupby` returned, i.e. `sorted` did not
    raise: the model then has checked that all labels are mutually orderable, on which Python's
    ordering is a total preorder whose equivalence is `==` (`pyCmp_lt_trans`, `pyCmp_flip`,
    `pyCmp_eq_iff`, `pyCmp_congr_wf` in Proofs/QueryOrder.lean and QueryValFull.lean). -/
theorem groupby_labels_distinct (P : Params) (c : Corpus) (flt : JVal) (gk : GroupKeys)
    (dflt : Option JVal) (gs : List (JVal × List JobId)) (hkeys : CorpusKeysNodup c)
    (hdflt : ∀ d, dflt = some d → keysOK d = true) (h : groupby P c flt gk dflt = .ok gs) :
    gs.Pairwise (fun g g' => pyEq g.1 g'.1 = false) :=
  groupby_distinct hkeys hdflt h

/-- Position form of `groupby_labels_distinct`: the labels of any two groups of the result, the
    first returned before the second, are not `==`. -/
theorem groupby_two_groups_differ (P : Params) (c : Corpus) (flt : JVal) (gk : GroupKeys)
    (dflt : Option JVal) (g₁ g₂ : JVal × List JobId) (rest₁ rest₂ rest₃ : List (JVal × List JobId))
    (hkeys : CorpusKeysNodup c) (hdflt : ∀ d, dflt = some d → keysOK d = true)
    (h : groupby P c flt gk dflt = .ok (rest₁ ++ g₁ :: rest₂ ++ g₂ :: rest₃)) :
    pyEq g₁.1 g₂.1 = false := by
  have hp := groupby_distinct hkeys hdflt h
  rw [List.append_assoc, List.pairwise_append] at hp
  have := hp.2.1
  rw [List.cons_append, List.pairwise_cons] at this
  exact this.1 g₂ (by simp)

/-- The statement without the well-formedness hypotheses.  For data as Python can hold it this is
    `groupby_labels_distinct`; it is left open only for association lists that repeat a key (on
    which the model's `==` is not reflexive and which no Python dict corresponds to).  No
    counterexample is known there: labels that `sorted` accepts must be mutually orderable, and
    ordering two lists compares their mappings with `==` in both directions. -/
def groupby_labels_distinct_full : Prop :=
  ∀ (P : Params) (c : Corpus) (flt : JVal) (gk : GroupKeys) (dflt : Option JVal)
    (gs : List (JVal × List JobId)), groupby P c flt gk dflt = .ok gs →
    gs.Pairwise (fun g g' => pyEq g.1 g'.1 = false)

/-! ### non-vacuity -/

/-- `{"n": {"x": {"$lt": 3}}, "a": 1}` and `{"n.x.$lt": 3, "a": 1}` have the same normal form. -/
example :
    nf (.mk [("sp.n", .obj [("x", .obj [("$lt", .int 3)])]), ("sp.a", .int 1)] none none none)
      = nf (.mk [("sp.n.x.$lt", .int 3), ("sp.a", .int 1)] none none none) := by rfl

def P0 : Params :=
  { rx := fun _ _ => some false, floatStr := fun _ => true, isclose := fun _ _ _ _ => some false }

def gC : Corpus :=
  [⟨"p", .obj [("n", .obj [("x", .int 2)])], none⟩, ⟨"q", .obj [("n", .obj [("x", .flt 2 0 "2.0")])], none⟩,
   ⟨"r", .obj [("n", .obj [("x", .int 1)])], none⟩]

/-- grouping three jobs by the nested key `n.x`: two groups, `1` and `2 == 2.0`. -/
example : groupby P0 gC (.obj []) (.single "n.x") none
    = .ok [(.int 1, ["r"]), (.int 2, ["p", "q"])] := by rfl

def gD : Corpus :=
  [⟨"p", .obj [("x", .arr [.int 1, .obj [("a", .int 2), ("b", .null)]])], none⟩,
   ⟨"q", .obj [("x", .arr [.bool true, .obj [("b", .null), ("a", .flt 2 0 "2.0")]])], none⟩,
   ⟨"r", .obj [("x", .arr [.int 0, .obj [("z", .int 0)]])], none⟩,
   ⟨"s", .obj [("x", .arr [.flt 1 0 "1.0", .obj [("a", .int 2), ("b", .null)], .int 5])], none⟩]

/-- labels that are lists holding mappings: `[1, {a: 2, b: None}]` and `[True, {b: None, a: 2.0}]`
    share a group; the hypotheses of `groupby_labels_distinct` hold and `groupby` returns. -/
example : CorpusKeysNodup gD ∧ groupby P0 gD (.obj []) (.single "x") none
    = .ok [(.arr [.int 0, .obj [("z", .int 0)]], ["r"]),
           (.arr [.int 1, .obj [("a", .int 2), ("b", .null)]], ["p", "q"]),
           (.arr [.flt 1 0 "1.0", .obj [("a", .int 2), ("b", .null)], .int 5], ["s"])] :=
  ⟨by unfold CorpusKeysNodup; decide, by rfl⟩

example : ∃ (C : CliParams) (k v : String) (j : JVal), isJsonLike k = .ok false ∧ v ≠ "!" ∧
    isJsonLike v = .ok false ∧ isRegexTok v = false ∧ cast C v = .ok j :=
  ⟨⟨fun _ => some 4, fun _ => none, fun _ => none⟩, "a", "4", .int 4, by decide, by decide, by decide,
    by decide, by rfl⟩

end Signac.C07

/-
  C17 — a linked view is an exact, self-healing picture of the selected jobs.
  Property theorems only; the lemmas live in Signac/Proofs/View*.lean, the model in
  Signac/LinkedView.lean.

  Reading guide.  A view is a finite map  path ↦ directory | link(target job id)  (`vget`).
  `IsTreeOf v L` says that `v` is EXACTLY the picture of the link set `L`
  (see `tree_reading`): at every path of `L` a link with the target `L` gives, at every non-empty
  proper prefix of such a path a directory, nothing anywhere else.
  `Valid L` = what `create_linked_view` lets through (distinct paths, none below another, all
  end in the leaf name) + all components are ordinary names (not "" or ".").
  The theorems that need the last clause carry the suffix `_partial`; the statements without it
  are `…_full` and are refuted by a concrete link set.

  The model is the code as it stands (after the fixes of F-16b, F-16c, F-17a … F-17d, the six
  defects this check found; see proposed/F-16b-view.md … F-17d.md).
-/
import Signac.Proofs.ViewUpdate
import Signac.Proofs.ViewChecks
namespace Signac.C17
open Signac Signac.LV

/-- What "exact picture" means, spelled out: one link per entry of `L` resolving to its job,
    every link comes from `L`, every directory leads to a link of `L`, the ancestors of every
    link are directories. -/
theorem tree_reading {L : List (Path × String)} {v : View} (hV : Valid L) (hT : IsTreeOf v L) :
    (∀ k ∈ keysOf L, ∃ t, linkTarget L k = some t ∧ vget v k = some (.link t)) ∧
    (∀ q t, vget v q = some (.link t) → q ∈ keysOf L ∧ linkTarget L q = some t) ∧
    (∀ q, vget v q = some .dir → q ≠ [] ∧ ∃ k ∈ keysOf L, properPrefix q k = true) ∧
    (∀ q k, q ≠ [] → k ∈ keysOf L → properPrefix q k = true → vget v q = some .dir) :=
  ⟨fun _ hk => tree_key hV hT hk,
   fun _ _ h => tree_link hV hT h,
   fun q h => by
     obtain ⟨hq, k, hk, hp⟩ := tree_present hV hT (q := q) (by simp [h])
     refine ⟨hq, k, hk, ?_⟩
     rcases prefix_cases hp with e | hpp
     · subst e
       obtain ⟨t, _, hl⟩ := tree_key hV hT hk
       rw [h] at hl; cases hl
     · exact hpp,
   fun _ _ hq hk hp => tree_dir hV hT hq hk hp⟩

/-- **Exact.**  Creating a view in an empty prefix performs no failing step and leaves exactly
    the picture of the link set. -/
theorem view_exact_partial (L : List (Path × String)) (hV : Valid L) :
    (updateView [] L).2 = none ∧ IsTreeOf (updateView [] L).1 L :=
  update_correct valid_nil hV isTreeOf_nil

/-- **Self-healing.**  Whatever accepted link set `L0` the existing view is the picture of
    (its targets may dangle, its jobs may have moved), updating it for `L` performs no failing
    step and leaves exactly the picture of `L`: no obsolete, dangling or duplicate link, no empty
    directory, no missing link. -/
theorem view_incremental_partial {L0 L : List (Path × String)} {v : View}
    (hV0 : Valid L0) (hV : Valid L) (hT : IsTreeOf v L0) :
    (updateView v L).2 = none ∧ IsTreeOf (updateView v L).1 L :=
  update_correct hV0 hV hT

/-- Incremental = from scratch: the updated view and a view built in an empty prefix agree at
    every path. -/
theorem view_incremental_eq_scratch_partial {L0 L : List (Path × String)} {v : View}
    (hV0 : Valid L0) (hV : Valid L) (hT : IsTreeOf v L0) (p : Path) :
    vget (updateView v L).1 p = vget (updateView [] L).1 p := by
  rw [(update_correct hV0 hV hT).2 p, (view_exact_partial L hV).2 p]

/-- **Idempotent.**  On an up-to-date view the update consists of no step at all. -/
theorem view_idempotent_partial {L : List (Path × String)} {v : View}
    (hV : Valid L) (hT : IsTreeOf v L) :
    viewSteps v L = [] ∧ updateView v L = (v, none) := by
  have h := steps_nil_of_tree hV hT
  exact ⟨h, by simp [updateView, h, runSteps]⟩

/-- … in particular running `create_linked_view` twice: the second run is a no-op. -/
theorem view_twice_partial {L0 L : List (Path × String)} {v : View}
    (hV0 : Valid L0) (hV : Valid L) (hT : IsTreeOf v L0) :
    updateView (updateView v L).1 L = ((updateView v L).1, none) :=
  (view_idempotent_partial hV (update_correct hV0 hV hT).2).2

/-- The statements without "components are ordinary names". -/
def view_exact_full : Prop :=
  ∀ L : List (Path × String), ValidRaw L → (updateView [] L).2 = none ∧ IsTreeOf (updateView [] L).1 L

def view_incremental_full : Prop :=
  ∀ (L0 L : List (Path × String)) (v : View), ValidRaw L0 → ValidRaw L → IsTreeOf v L0 →
    (updateView v L).2 = none ∧ IsTreeOf (updateView v L).1 L

/-- They are false of the model: the raw paths `["", "job"]` and `["job"]` pass the checks but
    name the same place, the second `symlink` fails with EEXIST. -/
theorem view_exact_full_false : ¬ view_exact_full := by
  intro h
  have := (h clashLinks clashLinks_validRaw).1
  rw [clashLinks_fails] at this
  cases this

theorem view_incremental_full_false : ¬ view_incremental_full := by
  intro h
  have := (h [] clashLinks [] ⟨by simp [keysOf], by simp [keysOf], by simp [keysOf]⟩
    clashLinks_validRaw isTreeOf_nil).1
  rw [clashLinks_fails] at this
  cases this

/-- **Accepted inputs are representable**: whenever `create_linked_view` gets as far as the link
    set, no top-level key or string value contains the separator, every selected job has a path,
    the paths are pairwise different, none leaves the prefix, none lies below another, and the
    link set pairs the i-th path with the i-th selected job. -/
theorem view_accepts_sound {jobs : List Job} {spec : PathSpec} {L : List (Path × String)}
    (h : createLinks jobs spec = .ok L) :
    Representable jobs spec ∧
      ∃ ps, pathStrings jobs spec = some (.ok ps) ∧ ps.length = jobs.length ∧
        L = (ps.map linkKey).zip (jobs.map (·.id)) := by
  refine ⟨representable_of_ok h, ?_⟩
  obtain ⟨_, ps, h2, _, h4, _, _, h7⟩ := createLinks_ok h
  exact ⟨ps, h2, h4, h7⟩

/-- **Rejects.**  An input that cannot be represented (separator in a key or value, a job
    without a path, two jobs with the same path, a path outside the prefix, a path that is both
    a link and a directory) never reaches the first file-system step: the existing view is
    returned unchanged and the outcome is a rejection (or the input lies outside the modelled
    fragment of format strings). -/
theorem view_rejects {jobs : List Job} {spec : PathSpec} (v : View)
    (h : ¬ Representable jobs spec) :
    (createView v jobs spec).1 = v ∧
      ((∃ e, (createView v jobs spec).2 = .rejected e) ∨ (createView v jobs spec).2 = .unmodelled) :=
  createView_not_ok (fun _ hL => h (representable_of_ok hL))

/-- End to end: an accepted input whose link paths consist of ordinary names, on a view that is
    the picture of an earlier accepted link set, ends normally with the exact picture. -/
theorem view_create_partial {jobs : List Job} {spec : PathSpec} {L0 L : List (Path × String)} {v : View}
    (hL : createLinks jobs spec = .ok L) (hV0 : Valid L0) (hV : Valid L) (hT : IsTreeOf v L0) :
    ∃ v', createView v jobs spec = (v', .done) ∧ IsTreeOf v' L := by
  obtain ⟨h1, h2⟩ := update_correct hV0 hV hT
  cases hu : updateView v L with
  | mk v' e =>
    rw [hu] at h1 h2
    simp only at h1 h2
    subst h1
    exact ⟨v', by simp [createView, hL, hu], h2⟩

/-! non-vacuity: concrete accepted link sets (a re-keyed job, a removed branch, a new branch,
    a directory literally called `job`), a non-empty view that is the picture of the first, and
    an unrepresentable input. -/

def exL0 : List (Path × String) :=
  [(["a", "1", "job"], "id1"), (["a", "2", "job"], "id2"), (["a", "job", "job"], "id3")]
def exL : List (Path × String) :=
  [(["a", "1", "job"], "id9"), (["b", "x y", "job"], "id2")]

example : Valid exL0 ∧ Valid exL :=
  ⟨⟨by decide, by decide, by decide, by decide⟩, ⟨by decide, by decide, by decide, by decide⟩⟩

example : ∃ v, IsTreeOf v exL0 ∧ vget v ["a", "job"] = some .dir ∧
    vget v ["a", "2", "job"] = some (.link "id2") := by
  have hV : Valid exL0 := ⟨by decide, by decide, by decide, by decide⟩
  have hT := (view_exact_partial exL0 hV).2
  refine ⟨_, hT, ?_, ?_⟩
  · exact tree_dir hV hT (by decide) (k := ["a", "job", "job"]) (by decide) (by decide)
  · obtain ⟨t, ht, hv⟩ := tree_key hV hT (k := ["a", "2", "job"]) (by decide)
    have : t = "id2" := by
      have : linkTarget exL0 ["a", "2", "job"] = some "id2" := by decide
      rw [this] at ht; cases ht; rfl
    rw [hv, this]

example : ¬ Representable [{ id := "j1", sp := [("a", .str "x/y")] }] .auto := by
  rintro ⟨h, _⟩
  have := (h _ List.mem_cons_self ("a", .str "x/y") List.mem_cons_self).2 "x/y" rfl
  revert this
  decide

end Signac.C17

/-
  C17 — a linked view is an exact, self-healing picture of the selected jobs.
  Property theorems only; the lemmas live in Signac/Proofs/View*.lean, the model in
  Signac/LinkedView.lean.

  Reading guide.  A view is a finite map  path ↦ directory | link(target job id)  (`vget`).
  `IsTreeOf v L` says that `v` is EXACTLY the picture of the link set `L`
  (see `tree_reading`): at every path of `L` a link with the target `L` gives, at every non-empty
  proper prefix of such a path a directory, nothing anywhere else.
  `Valid L` = what `create_linked_view` lets through (distinct paths, none below another, all
  end in the leaf name) + all components are ordinary names (not "" or ".").
  The theorems that need the last clause carry the suffix `_partial`; the statements without it
  are `…_full` and are refuted by a concrete link set.

  From the checks to `Valid` (last section).  Since the F-17e fix (link paths are normalised
  before the checks, a normalised path generated for two jobs is refused) every accepted link
  set is valid: `accepts_valid`.  The end-to-end theorems `view_create`, `view_scratch`,
  `view_incremental_eq_scratch`, `view_idempotent`, `view_twice` therefore have no hypothesis
  but "the current and the previous input were accepted" and "the view is the picture of the
  previous link set".  The inputs that went wrong before the fix are now rejected without
  touching the view (`clash_*`, `byId_dup_rejected`, `abs_rejected`) or accepted with a valid
  link set and a second run without any step (`up_*`, `dot_*`).

  The model is the code as it stands (after the fixes of F-16b, F-16c, F-17a … F-17e, the seven
  defects this check found; see proposed/F-16b-view.md … F-17d.md).
-/
import Signac.Proofs.ViewUpdate
import Signac.Proofs.ViewChecks
import Signac.Proofs.ViewAccept
namespace Signac.C17
open Signac Signac.LV

/-- What "exact picture" means, spelled out: one link per entry of `L` resolving to its job,
    every link comes from `L`, every directory leads to a link of `L`, the ancestors of every
    link are directories. -/
theorem tree_reading {L : List (Path × String)} {v : View} (hV : Valid L) (hT : IsTreeOf v L) :
    (∀ k ∈ keysOf L, ∃ t, linkTarget L k = some t ∧ vget v k = some (.link t)) ∧
    (∀ q t, vget v q = some (.link t) → q ∈ keysOf L ∧ linkTarget L q = some t) ∧
    (∀ q, vget v q = some .dir → q ≠ [] ∧ ∃ k ∈ keysOf L, properPrefix q k = true) ∧
    (∀ q k, q ≠ [] → k ∈ keysOf L → properPrefix q k = true → vget v q = some .dir) :=
  ⟨fun _ hk => tree_key hV hT hk,
   fun _ _ h => tree_link hV hT h,
   fun q h => by
     obtain ⟨hq, k, hk, hp⟩ := tree_present hV hT (q := q) (by simp [h])
     refine ⟨hq, k, hk, ?_⟩
     rcases prefix_cases hp with e | hpp
     · subst e
       obtain ⟨t, _, hl⟩ := tree_key hV hT hk
       rw [h] at hl; cases hl
     · exact hpp,
   fun _ _ hq hk hp => tree_dir hV hT hq hk hp⟩

/-- **Exact.**  Creating a view in an empty prefix performs no failing step and leaves exactly
    the picture of the link set. -/
theorem view_exact_partial (L : List (Path × String)) (hV : Valid L) :
    (updateView [] L).2 = none ∧ IsTreeOf (updateView [] L).1 L :=
  update_correct valid_nil hV isTreeOf_nil

/-- **Self-healing.**  Whatever accepted link set `L0` the existing view is the picture of
    (its targets may dangle, its jobs may have moved), updating it for `L` performs no failing
    step and leaves exactly the picture of `L`: no obsolete, dangling or duplicate link, no empty
    directory, no missing link. -/
theorem view_incremental_partial {L0 L : List (Path × String)} {v : View}
    (hV0 : Valid L0) (hV : Valid L) (hT : IsTreeOf v L0) :
    (updateView v L).2 = none ∧ IsTreeOf (updateView v L).1 L :=
  update_correct hV0 hV hT

/-- Incremental = from scratch: the updated view and a view built in an empty prefix agree at
    every path. -/
theorem view_incremental_eq_scratch_partial {L0 L : List (Path × String)} {v : View}
    (hV0 : Valid L0) (hV : Valid L) (hT : IsTreeOf v L0) (p : Path) :
    vget (updateView v L).1 p = vget (updateView [] L).1 p := by
  rw [(update_correct hV0 hV hT).2 p, (view_exact_partial L hV).2 p]

/-- **Idempotent.**  On an up-to-date view the update consists of no step at all. -/
theorem view_idempotent_partial {L : List (Path × String)} {v : View}
    (hV : Valid L) (hT : IsTreeOf v L) :
    viewSteps v L = [] ∧ updateView v L = (v, none) := by
  have h := steps_nil_of_tree hV hT
  exact ⟨h, by simp [updateView, h, runSteps]⟩

/-- … in particular running `create_linked_view` twice: the second run is a no-op. -/
theorem view_twice_partial {L0 L : List (Path × String)} {v : View}
    (hV0 : Valid L0) (hV : Valid L) (hT : IsTreeOf v L0) :
    updateView (updateView v L).1 L = ((updateView v L).1, none) :=
  (view_idempotent_partial hV (update_correct hV0 hV hT).2).2

/-- The statements without "components are ordinary names". -/
def view_exact_full : Prop :=
  ∀ L : List (Path × String), ValidRaw L → (updateView [] L).2 = none ∧ IsTreeOf (updateView [] L).1 L

def view_incremental_full : Prop :=
  ∀ (L0 L : List (Path × String)) (v : View), ValidRaw L0 → ValidRaw L → IsTreeOf v L0 →
    (updateView v L).2 = none ∧ IsTreeOf (updateView v L).1 L

/-- They are false of the model: the raw paths `["", "job"]` and `["job"]` pass the checks but
    name the same place, the second `symlink` fails with EEXIST. -/
theorem view_exact_full_false : ¬ view_exact_full := by
  intro h
  have := (h clashLinks clashLinks_validRaw).1
  rw [clashLinks_fails] at this
  cases this

theorem view_incremental_full_false : ¬ view_incremental_full := by
  intro h
  have := (h [] clashLinks [] ⟨by simp [keysOf], by simp [keysOf], by simp [keysOf]⟩
    clashLinks_validRaw isTreeOf_nil).1
  rw [clashLinks_fails] at this
  cases this

/-- **Accepted inputs are representable**: whenever `create_linked_view` gets as far as the link
    set, no top-level key or string value contains the separator, every selected job has a path,
    the paths are pairwise different (also after normalisation), none leaves the prefix, none
    lies below another, and the link set pairs the i-th path with the i-th selected job. -/
theorem view_accepts_sound {jobs : List Job} {spec : PathSpec} {L : List (Path × String)}
    (h : createLinks jobs spec = .ok L) :
    Representable jobs spec ∧
      ∃ ps, pathStrings jobs spec = some (.ok ps) ∧ ps.length = jobs.length ∧
        L = (ps.map linkKey).zip (jobs.map (·.id)) := by
  refine ⟨representable_of_ok h, ?_⟩
  obtain ⟨_, ps, h2, _, h4, _, _, _, h7⟩ := createLinks_ok h
  exact ⟨ps, h2, h4, h7⟩

/-- **Rejects.**  An input that cannot be represented (separator in a key or value, a job
    without a path, two jobs with the same (normalised) path, a path outside the prefix, a path that is both
    a link and a directory) never reaches the first file-system step: the existing view is
    returned unchanged and the outcome is a rejection (or the input lies outside the modelled
    fragment of format strings). -/
theorem view_rejects {jobs : List Job} {spec : PathSpec} (v : View)
    (h : ¬ Representable jobs spec) :
    (createView v jobs spec).1 = v ∧
      ((∃ e, (createView v jobs spec).2 = .rejected e) ∨ (createView v jobs spec).2 = .unmodelled) :=
  createView_not_ok (fun _ hL => h (representable_of_ok hL))

/-- End to end: an accepted input whose link paths consist of ordinary names, on a view that is
    the picture of an earlier accepted link set, ends normally with the exact picture. -/
theorem view_create_partial {jobs : List Job} {spec : PathSpec} {L0 L : List (Path × String)} {v : View}
    (hL : createLinks jobs spec = .ok L) (hV0 : Valid L0) (hV : Valid L) (hT : IsTreeOf v L0) :
    ∃ v', createView v jobs spec = (v', .done) ∧ IsTreeOf v' L := by
  obtain ⟨h1, h2⟩ := update_correct hV0 hV hT
  cases hu : updateView v L with
  | mk v' e =>
    rw [hu] at h1 h2
    simp only at h1 h2
    subst h1
    exact ⟨v', by simp [createView, hL, hu], h2⟩

/-! non-vacuity: concrete accepted link sets (a re-keyed job, a removed branch, a new branch,
    a directory literally called `job`), a non-empty view that is the picture of the first, and
    an unrepresentable input. -/

def exL0 : List (Path × String) :=
  [(["a", "1", "job"], "id1"), (["a", "2", "job"], "id2"), (["a", "job", "job"], "id3")]
def exL : List (Path × String) :=
  [(["a", "1", "job"], "id9"), (["b", "x y", "job"], "id2")]

example : Valid exL0 ∧ Valid exL :=
  ⟨⟨by decide, by decide, by decide, by decide⟩, ⟨by decide, by decide, by decide, by decide⟩⟩

example : ∃ v, IsTreeOf v exL0 ∧ vget v ["a", "job"] = some .dir ∧
    vget v ["a", "2", "job"] = some (.link "id2") := by
  have hV : Valid exL0 := ⟨by decide, by decide, by decide, by decide⟩
  have hT := (view_exact_partial exL0 hV).2
  refine ⟨_, hT, ?_, ?_⟩
  · exact tree_dir hV hT (by decide) (k := ["a", "job", "job"]) (by decide) (by decide)
  · obtain ⟨t, ht, hv⟩ := tree_key hV hT (k := ["a", "2", "job"]) (by decide)
    have : t = "id2" := by
      have : linkTarget exL0 ["a", "2", "job"] = some "id2" := by decide
      rw [this] at ht; cases ht; rfl
    rw [hv, this]

example : ¬ Representable [{ id := "j1", sp := [("a", .str "x/y")] }] .auto := by
  rintro ⟨h, _⟩
  have := (h _ List.mem_cons_self ("a", .str "x/y") List.mem_cons_self).2 "x/y" rfl
  revert this
  decide

/-! ## From the acceptance checks to `Valid`

    `create_linked_view` normalises every link path (`normpath(join(path, "job"))`), refuses a
    normalised path that is generated for two jobs, an absolute path, a path with ".." and a path
    that is both a link and a directory.  What gets through is a valid link set. -/

/-- **Every accepted link set is valid**: the link paths are pairwise different, none lies below
    another, each ends in the leaf name, no component is "" or ".". -/
theorem accepts_valid {jobs : List Job} {spec : PathSpec} {L : List (Path × String)}
    (hL : createLinks jobs spec = .ok L) : Valid L :=
  valid_of_ok hL

/-! ### end to end -/

/-- **Create / update.**  An accepted input, on a view that is the picture of an earlier accepted
    input (whose jobs may have moved or vanished since), ends normally with the exact picture:
    one link per selected job at its path, the directories leading there, nothing else. -/
theorem view_create {jobs jobs0 : List Job} {spec spec0 : PathSpec}
    {L L0 : List (Path × String)} {v : View}
    (hL : createLinks jobs spec = .ok L) (hL0 : createLinks jobs0 spec0 = .ok L0)
    (hT : IsTreeOf v L0) :
    ∃ v', createView v jobs spec = (v', .done) ∧ IsTreeOf v' L :=
  view_create_partial hL (valid_of_ok hL0) (valid_of_ok hL) hT

/-- **From scratch.** -/
theorem view_scratch {jobs : List Job} {spec : PathSpec} {L : List (Path × String)}
    (hL : createLinks jobs spec = .ok L) :
    ∃ v', createView [] jobs spec = (v', .done) ∧ IsTreeOf v' L :=
  view_create_partial hL valid_nil (valid_of_ok hL) isTreeOf_nil

/-- **Incremental = from scratch**, at every path. -/
theorem view_incremental_eq_scratch {jobs jobs0 : List Job} {spec spec0 : PathSpec}
    {L L0 : List (Path × String)} {v : View}
    (hL : createLinks jobs spec = .ok L) (hL0 : createLinks jobs0 spec0 = .ok L0)
    (hT : IsTreeOf v L0) (p : Path) :
    vget (createView v jobs spec).1 p = vget (createView [] jobs spec).1 p := by
  obtain ⟨v1, h1, hT1⟩ := view_create hL hL0 hT
  obtain ⟨v2, h2, hT2⟩ := view_scratch hL
  rw [h1, h2, hT1 p, hT2 p]

/-- **Idempotent.**  On an up-to-date view the run consists of no step at all. -/
theorem view_idempotent {jobs : List Job} {spec : PathSpec} {L : List (Path × String)} {v : View}
    (hL : createLinks jobs spec = .ok L) (hT : IsTreeOf v L) :
    viewSteps v L = [] ∧ createView v jobs spec = (v, .done) := by
  obtain ⟨h1, h2⟩ := view_idempotent_partial (valid_of_ok hL) hT
  exact ⟨h1, by simp only [createView, hL, h2]⟩

/-- **Twice.**  The second of two runs is a no-op. -/
theorem view_twice {jobs jobs0 : List Job} {spec spec0 : PathSpec}
    {L L0 : List (Path × String)} {v : View}
    (hL : createLinks jobs spec = .ok L) (hL0 : createLinks jobs0 spec0 = .ok L0)
    (hT : IsTreeOf v L0) :
    ∃ v', createView v jobs spec = (v', .done) ∧ IsTreeOf v' L ∧
      viewSteps v' L = [] ∧ createView v' jobs spec = (v', .done) := by
  obtain ⟨v', h1, hT'⟩ := view_create hL hL0 hT
  exact ⟨v', h1, hT', view_idempotent hL hT'⟩

/-- Anything else is rejected (or outside the modelled fragment) and leaves the view as it is;
    together with `view_create`: the outcome is never a failed file-system step. -/
theorem view_never_fails {jobs jobs0 : List Job} {spec spec0 : PathSpec}
    {L0 : List (Path × String)} {v : View}
    (hL0 : createLinks jobs0 spec0 = .ok L0) (hT : IsTreeOf v L0) :
    ∀ e, (createView v jobs spec).2 ≠ .failed e := by
  intro e he
  cases hc : createLinks jobs spec with
  | ok L =>
    obtain ⟨v', h1, _⟩ := view_create hc hL0 hT
    rw [h1] at he; cases he
  | reject r => simp [createView, hc] at he
  | unmodelled => simp [createView, hc] at he

/-! ### the inputs that went wrong before the F-17e fix -/

/-- anything that is refused leaves every view untouched -/
theorem createView_reject {jobs : List Job} {spec : PathSpec} {e : Reject} (v : View)
    (h : createLinks jobs spec = .reject e) : createView v jobs spec = (v, .rejected e) := by
  simp only [createView, h]

/-! state points `{"a": ""}` and `{"a": "."}`, `path="d/{a}"`: the path strings "d/" and "d/."
    both normalise to the link path "d/job".  (Before: both accepted, second `symlink` EEXIST,
    partial view.)  Now: RuntimeError before any file-system step. -/

def clashJobs : List Job :=
  [{ id := "1", sp := [("a", .str "")] }, { id := "2", sp := [("a", .str ".")] }]

theorem clash_rejected : createLinks clashJobs (.fmt "d/{a}") = .reject .runtime := by decide

theorem clash_view_untouched (v : View) :
    createView v clashJobs (.fmt "d/{a}") = (v, .rejected .runtime) :=
  createView_reject v clash_rejected

/-! state points `{"a": ".."}` and `{"a": "x"}`, `path=None`: `normpath("a/..")` is ".", the link
    path is `normpath("./job")` = "job".  (Before: link path "./job", every re-run removed and
    re-created the link.)  Now: a valid link set, and the second run does nothing. -/

def upJobs : List Job :=
  [{ id := "1", sp := [("a", .str "..")] }, { id := "2", sp := [("a", .str "x")] }]
def upLinks : List (Path × String) := [(["job"], "1"), (["a", "x", "job"], "2")]

theorem up_accepted : createLinks upJobs .auto = .ok upLinks := by decide

theorem up_valid : Valid upLinks := accepts_valid up_accepted

theorem up_twice : ∃ v, createView [] upJobs .auto = (v, .done) ∧ IsTreeOf v upLinks ∧
    viewSteps v upLinks = [] ∧ createView v upJobs .auto = (v, .done) := by
  obtain ⟨v, h1, hT⟩ := view_scratch up_accepted
  exact ⟨v, h1, hT, view_idempotent up_accepted hT⟩

/-! one job, `path="."` and `path="a//b"`: link paths "job" and "a/b/job". -/

def dotJobs : List Job := [{ id := "1", sp := [] }]

theorem dot_accepted : createLinks dotJobs (.fmt ".") = .ok [(["job"], "1")] := by decide

theorem dbl_accepted : createLinks dotJobs (.fmt "a//b") = .ok [(["a", "b", "job"], "1")] := by
  decide

theorem dot_twice : ∃ v, createView [] dotJobs (.fmt ".") = (v, .done) ∧
    viewSteps v [(["job"], "1")] = [] ∧ createView v dotJobs (.fmt ".") = (v, .done) := by
  obtain ⟨v, h1, hT⟩ := view_scratch dot_accepted
  exact ⟨v, h1, view_idempotent dot_accepted hT⟩

/-! by-id paths for the (unreal) ids "a" and "a/": the same normalised link path, refused.
    (Before: accepted with a duplicate key — the model does not restrict ids to hex digests.) -/

theorem byId_dup_rejected :
    createLinks [{ id := "a", sp := [] }, { id := "a/", sp := [] }] .byId = .reject .runtime := by
  decide

/-! absolute paths keep their leading separator through `normpath` and are refused, also when
    they come from a nested value (top-level values are covered by the separator check), and so
    are paths that leave the prefix. -/

theorem abs_rejected :
    createLinks dotJobs (.fmt "/abs") = .reject .runtime ∧
    createLinks dotJobs (.fmt "a/../..") = .reject .runtime ∧
    createLinks [{ id := "1", sp := [("a", .obj [("b", .str "/")])] },
                 { id := "2", sp := [("a", .obj [("b", .str "x")])] }] .auto = .reject .runtime := by
  decide

example : normpath "" = "." ∧ normpath "a/.." = "." ∧ normpath "./job" = "job" ∧
    normpath "/x/job" = "/x/job" ∧ normpath "//x" = "//x" ∧ normpath "///x/../.." = "/" ∧
    normpath "a//b/./c/" = "a/b/c" ∧ normpath "../a/../../b" = "../../b" := by decide

/-! ### non-vacuity: concrete accepted inputs and an instance of the end-to-end theorems -/

/-- short stand-ins for job ids -/
def id1 : String := "0a"
def id2 : String := "1b"
def id3 : String := "2c"

/-- the earlier selection … -/
def exJobs0 : List Job :=
  [{ id := id1, sp := [("a", .int 1), ("b", .str "x y")] },
   { id := id2, sp := [("a", .int 2), ("b", .str "x y")] }]
/-- … and the current one: a job removed, a job added, a state point changed -/
def exJobs : List Job :=
  [{ id := id2, sp := [("a", .int 2), ("b", .str "z")] },
   { id := id3, sp := [("a", .int 3), ("b", .str "x y")] }]

/- (`decide +kernel`: the kernel evaluates `str` of integers and the key sort much faster than the
   elaborator; no extra axioms, see `#print axioms`) -/
theorem exJobs0_accepted :
    createLinks exJobs0 .auto = .ok [(["a", "1", "job"], id1), (["a", "2", "job"], id2)] := by
  decide +kernel
theorem exJobs_accepted : createLinks exJobs .auto =
    .ok [(["a", "2", "b", "z", "job"], id2), (["a", "3", "b", "x y", "job"], id3)] := by
  decide +kernel
example : createLinks exJobs .byId = .ok [([id2, "job"], id2), ([id3, "job"], id3)] := by decide
example : createLinks exJobs (.fmt "run/{a}/") =
    .ok [(["run", "2", "job"], id2), (["run", "3", "job"], id3)] := by decide +kernel

/-- the view of `exJobs0` (automatic paths) updated for `exJobs`, then for `exJobs` by id -/
example : ∃ v0 v' v'', createView [] exJobs0 .auto = (v0, .done) ∧
    createView v0 exJobs .auto = (v', .done) ∧
    vget v' ["a", "2", "b", "z", "job"] = some (.link id2) ∧ vget v' ["a", "1", "job"] = none ∧
    vget v' ["a", "2"] = some .dir ∧ createView v' exJobs .auto = (v', .done) ∧
    createView v' exJobs .byId = (v'', .done) ∧
    vget v'' [id3, "job"] = some (.link id3) ∧ vget v'' ["a"] = none := by
  have hb : createLinks exJobs .byId = .ok [([id2, "job"], id2), ([id3, "job"], id3)] := by decide
  obtain ⟨v0, hv0, hT0⟩ := view_scratch exJobs0_accepted
  obtain ⟨v', hv', hT', _, hv''⟩ := view_twice exJobs_accepted exJobs0_accepted hT0
  obtain ⟨v'', hv3, hT3⟩ := view_create hb exJobs_accepted hT'
  refine ⟨v0, v', v'', hv0, hv', ?_, ?_, ?_, hv'', hv3, ?_, ?_⟩
  · rw [hT']; decide
  · rw [hT']; decide
  · rw [hT']; decide
  · rw [hT3]; decide
  · rw [hT3]; decide

end Signac.C17

/- C03 — placeholder until the workspace model lands (no theorems yet). -/
import Signac.Json
namespace Signac.C03
end Signac.C03

/-
  C03 — the workspace equals a simple model after any history of API operations.
  The model (Signac.Workspace) *is* the simple model: per project a finite map
  id ↦ (state point, document, files) plus live handles; it is tied to the real code
  step by step by the correspondence run (harness/props/c03.py).  The theorems say what
  holds of it after EVERY finite history, for every hash function.
-/
import Signac.Proofs.WsOps
namespace Signac.C03
open Signac Signac.Ws

variable (hash : JVal → String)

/-- After any finite history of public operations (including failing ones) every job
    directory name is the hash of its state point and no id occurs twice. -/
theorem reachable_inv (ops : List Op) : WsInv hash (run hash World.empty ops) :=
  run_inv (wsInv_empty hash) ops

/-- ... from any state satisfying the invariant, one more operation keeps it. -/
theorem step_preserves (w : World) (h : WsInv hash w) (op : Op) : WsInv hash (step hash w op).1 :=
  step_inv h op

/-- check() passes after every step of every history, in both projects. -/
theorem check_passes_always (ops : List Op) (p : Nat) :
    check hash ((run hash World.empty ops).jobs p) = [] :=
  check_nil_of_inv (wsInv_jobs (reachable_inv hash ops) p)

/-- Every job directory name is the hash of its state point file. -/
theorem dir_name_is_hash (ops : List Op) (p : Nat) (id : String) (jd : JobData)
    (hm : (id, jd) ∈ (run hash World.empty ops).jobs p) : hash jd.sp = id :=
  (wsInv_jobs (reachable_inv hash ops) p).1 id jd hm

/-- len / iteration / membership agree: the listing has no duplicate id, and an id is
    listed exactly when a lookup of it succeeds. -/
theorem len_iter_contains_agree (ops : List Op) (p : Nat) :
    (((run hash World.empty ops).jobs p).map Prod.fst).Nodup ∧
    ∀ id, id ∈ ((run hash World.empty ops).jobs p).map Prod.fst ↔
      (alookup id ((run hash World.empty ops).jobs p)).isSome = true := by
  refine ⟨(wsInv_jobs (reachable_inv hash ops) p).2, fun id => ⟨?_, alookup_isSome_mem⟩⟩
  intro h
  obtain ⟨⟨i, jd⟩, hm, rfl⟩ := List.mem_map.mp h
  rw [alookup_of_mem_nodup hm (wsInv_jobs (reachable_inv hash ops) p).2]; rfl

/-- Creating, copying, pickling and dropping handles, cache maintenance, session restarts and
    foreign directories never change any job ("opening is lazy", "only id-named directories count"). -/
theorem handle_and_cache_ops_touch_no_job (w : World) (op : Op) (h : op.isHandleOrCacheOp = true) :
    (step hash w op).1.p0 = w.p0 ∧ (step hash w op).1.p1 = w.p1 :=
  handle_ops_keep_jobs w op h

/- non-vacuity: a concrete history with two projects, a re-key, a failing move and a clone -/
example : (run (fun v => canonText v) World.empty
    [.openSp "h1" 0 (.obj [("a", .int 1)]), .init "h1", .dset "h1" "k" (.int 2),
     .spset "h1" "b" (.int 0), .move "h1" 1, .clone "h1" 0 "h2"]).p0.length = 1 := by decide

end Signac.C03

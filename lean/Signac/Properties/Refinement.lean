/-
  Refinement — the file-system level lifecycle programs (model of C11, `Signac.Lifecycle`)
  implement the abstract workspace operations (the sentences of C04; model `Signac.Workspace`).
  Property theorems only (lemmas: Signac/Proofs/LifeRefine.lean, LifeRefineWs.lean).

  Layering:   step program, run event-free   ──absW──▶   abstract operation (`Op.spec`)   ◀──WsRel──   `Ws.step`

  * `Clean C w`   every directory of the world is settled: complete state-point file whose hash is
                  the directory name, no backup, no stray temp files, payload paths distinct and
                  non-empty (`Settled`).  The state between operations of a healthy workspace.
  * `absW w`      (project, id) ↦ (state point, payload as path ↦ bytes | directory).
  * `Refines C prog w spec`:  the event-free run `run C noEv prog w` returns `(spec (absW w)).2`,
                  ends in a `Clean` world, and `absW final = (spec (absW w)).1`.
  * `Scans P order`: `order` lists each item of the directory once (state-point file, one `file`
                  per file path, one `dir` per directory path), as `scandir` would.

  Trusted reading: model-to-model.  Both models are tied to the Python code separately, by the
  differential tests of their drivers; nothing here talks about the code itself, about events
  (crashes / faults: C11), or about handles and caches (C03/C04/C08).
-/
import Signac.Proofs.LifeRefineWs
import Signac.Proofs.LifeNoWrite
import Signac.Proofs.LifeOkRun
namespace Signac.Refinement
open Signac Signac.Life Signac.Refine

variable {Sp : Type}

/-- `Job.init()`: an absent job (no directory — or an existing EMPTY directory) becomes
    `(v, no payload)`; an existing job is left alone; the result is ok.  `force` plays no role. -/
theorem init_refines (C : Codec Sp) (k : Key) (v : Sp) (force : Bool) (w : World Sp)
    (hc : CleanBut C w k) (hv : C.hash v = k.2) : Refines C (initProg C k v force) w (specInit k v) :=
  Life.init_refines C k v force w hc hv

/-- state-point change `x → y` with new state point `v` from a clean world: `y` absent ⟹ `y` holds
    `x`'s payload with state point `v` and `x` is gone; `y` present ⟹ DestinationExistsError and
    nothing changes; `x` absent ⟹ ok and nothing changes -/
theorem rekey_refines (C : Codec Sp) (x y : Key) (v : Sp) (w : World Sp) (hxy : x ≠ y)
    (hc : Clean C w) (hv : C.hash v = y.2) : Refines C (rekeyProg C x y v) w (specRekey x y v) :=
  Life.rekey_refines C x y v w hxy hc hv

/-- the code's peculiarity: re-key onto an existing EMPTY directory succeeds exactly as onto an
    absent one (`os.replace` accepts an empty target); `CleanBut C w y` = clean except that `y` may
    be an empty directory, which the abstraction does not see -/
theorem rekey_onto_empty_dir (C : Codec Sp) (x y : Key) (v : Sp) (w : World Sp) (hxy : x ≠ y)
    (hc : CleanBut C w y) (hv : C.hash v = y.2) (hx : (w x).isSome = true) :
    Refines C (rekeyProg C x y v) w (specRekey x y v) :=
  Life.rekey_refines_emptyDst C x y v w hxy hc hv hx

/-- `Job.move` `a → b` (same id, other project): as re-key, state point kept; a job that is not
    there: RuntimeError -/
theorem move_refines (C : Codec Sp) (a b : Key) (w : World Sp) (hab : a ≠ b) (hid : a.2 = b.2)
    (hc : Clean C w) : Refines C (moveProg a b) w (specMove a b) :=
  Life.move_refines C a b w hab hid hc

theorem move_onto_empty_dir (C : Codec Sp) (a b : Key) (w : World Sp) (hab : a ≠ b) (hid : a.2 = b.2)
    (hc : CleanBut C w b) (hx : (w a).isSome = true) : Refines C (moveProg a b) w (specMove a b) :=
  Life.move_refines_emptyDst C a b w hab hid hc hx

/-- `Project.clone` (copytree, entry by entry in scan order): `dst` gets a copy of state point and
    payload, `src` unchanged; `dst` present: DestinationExistsError; `src` absent: ValueError -/
theorem clone_refines (C : Codec Sp) (src dst : Key) (order : List Ref) (w : World Sp) (hid : src.2 = dst.2)
    (hc : Clean C w) (hs : ∀ v P, absW w src = some (v, P) → Scans P order) :
    Refines C (cloneProg src dst order) w (specClone src dst) :=
  Life.clone_refines C src dst order w hid hc hs

/-- `Job.remove()` (rmtree in scan order): the job disappears -/
theorem remove_refines (C : Codec Sp) (k : Key) (order : List Ref) (w : World Sp) (hc : Clean C w)
    (hs : ∀ v P, absW w k = some (v, P) → Scans P order) : Refines C (removeProg k order) w (specRemove k) :=
  Life.remove_refines C k order w hc hs

/-- `Job.clear()`: the state point stays, the payload becomes `emptyDoc` — every file and
    directory goes and an empty job document `{}` is written -/
theorem clear_refines (C : Codec Sp) (k : Key) (order : List Ref) (w : World Sp) (hc : Clean C w)
    (hs : ∀ v P, absW w k = some (v, P) → Scans P order) : Refines C (clearProg k order) w (specClear k) :=
  Life.clear_refines C k order w hc hs

/-- all operations at once -/
theorem op_refines (C : Codec Sp) (op : Op Sp) (w : World Sp) (hc : Clean C w) (hp : op.pre C (absW w)) :
    Refines C (op.prog C) w op.spec := Life.op_refines C op w hc hp

/-- simulation: every finite history of operations, each run event-free, from a clean world ends
    in a clean world whose abstraction is the fold of the abstract operations over the
    abstraction of the initial world; the results agree one by one -/
theorem history_refines (C : Codec Sp) (ops : List (Op Sp)) (w : World Sp) (hc : Clean C w)
    (hp : PreOps C ops (absW w)) :
    Clean C (runOps C ops w).1 ∧ absW (runOps C ops w).1 = (specOps ops (absW w)).1 ∧
      (runOps C ops w).2 = (specOps ops (absW w)).2 := ops_refine C ops w hc hp

/- ---- the abstract operations are what `Ws.step` does to the job tables (`WsRel`, projects 0, 1;
        `R` relates a payload to (document, files)) ---- -/
section ws
variable {R : PayRel} (C : Codec JVal)

theorem init_square (w : Life.World JVal) (ws : Ws.World) (hc : Clean C w) (hrel : WsRel R (absW w) ws)
    (h : String) (hd : Ws.Handle) (f : Bool) (hh : Ws.alookup h ws.handles = some hd) (hp : hd.proj < 2)
    (hR : R noPayload [] []) :
    let o := run C noEv (initProg C (hd.proj, C.hash hd.sp) hd.sp f) w
    Clean C o.w ∧ WsRel R (absW o.w) (Ws.step C.hash ws (.init h)).1 ∧
      o.res = resMap (Ws.step C.hash ws (.init h)).2 := square_init C w ws hc hrel h hd f hh hp hR

/-- `Ws.rekey` is what `spset`, `spdel`, `spnest`, `spassign`, `update` of `Ws.step` reduce to -/
theorem rekey_square (w : Life.World JVal) (ws : Ws.World) (hc : Clean C w) (hrel : WsRel R (absW w) ws)
    (hd : Ws.Handle) (newSp : JVal) (hp : hd.proj < 2) (hne : C.hash hd.sp ≠ C.hash newSp) :
    let o := run C noEv (rekeyProg C (hd.proj, C.hash hd.sp) (hd.proj, C.hash newSp) newSp) w
    Clean C o.w ∧ WsRel R (absW o.w) (Ws.rekey C.hash ws hd newSp).1 ∧
      o.res = resMap (Ws.rekey C.hash ws hd newSp).2 := square_rekey C w ws hc hrel hd newSp hp hne

theorem move_square (w : Life.World JVal) (ws : Ws.World) (hc : Clean C w) (hrel : WsRel R (absW w) ws)
    (h : String) (hd : Ws.Handle) (p : Nat) (hh : Ws.alookup h ws.handles = some hd) (hp : hd.proj < 2)
    (hp' : p < 2) (hne : hd.proj ≠ p) :
    let o := run C noEv (moveProg (hd.proj, C.hash hd.sp) (p, C.hash hd.sp)) w
    Clean C o.w ∧ WsRel R (absW o.w) (Ws.step C.hash ws (.move h p)).1 ∧
      o.res = resMap (Ws.step C.hash ws (.move h p)).2 := square_move C w ws hc hrel h hd p hh hp hp' hne

theorem clone_square (w : Life.World JVal) (ws : Ws.World) (hc : Clean C w) (hrel : WsRel R (absW w) ws)
    (h h2 : String) (hd : Ws.Handle) (p : Nat) (order : List Ref) (hh : Ws.alookup h ws.handles = some hd)
    (hp : hd.proj < 2) (hp' : p < 2)
    (hs : ∀ v P, absW w (hd.proj, C.hash hd.sp) = some (v, P) → Scans P order) :
    let o := run C noEv (cloneProg (hd.proj, C.hash hd.sp) (p, C.hash hd.sp) order) w
    Clean C o.w ∧ WsRel R (absW o.w) (Ws.step C.hash ws (.clone h p h2)).1 ∧
      o.res = resMap (Ws.step C.hash ws (.clone h p h2)).2 :=
  square_clone C w ws hc hrel h h2 hd p order hh hp hp' hs

theorem remove_square (w : Life.World JVal) (ws : Ws.World) (hc : Clean C w) (hrel : WsRel R (absW w) ws)
    (h : String) (hd : Ws.Handle) (order : List Ref) (hh : Ws.alookup h ws.handles = some hd) (hp : hd.proj < 2)
    (hs : ∀ v P, absW w (hd.proj, C.hash hd.sp) = some (v, P) → Scans P order) :
    let o := run C noEv (removeProg (hd.proj, C.hash hd.sp) order) w
    Clean C o.w ∧ WsRel R (absW o.w) (Ws.step C.hash ws (.remove h)).1 ∧
      o.res = resMap (Ws.step C.hash ws (.remove h)).2 := square_remove C w ws hc hrel h hd order hh hp hs

theorem clear_square (w : Life.World JVal) (ws : Ws.World) (hc : Clean C w) (hrel : WsRel R (absW w) ws)
    (h : String) (hd : Ws.Handle) (order : List Ref) (hh : Ws.alookup h ws.handles = some hd) (hp : hd.proj < 2)
    (hs : ∀ v P, absW w (hd.proj, C.hash hd.sp) = some (v, P) → Scans P order) (hR : R emptyDoc [] []) :
    let o := run C noEv (clearProg (hd.proj, C.hash hd.sp) order) w
    Clean C o.w ∧ WsRel R (absW o.w) (Ws.step C.hash ws (.clear h)).1 ∧
      o.res = resMap (Ws.step C.hash ws (.clear h)).2 := square_clear C w ws hc hrel h hd order hh hp hs hR

/-- the two empty workspaces are related, for every `R` -/
theorem empty_related : WsRel R (absW (Sp := JVal) (fun _ => none)) Ws.World.empty := wsRel_empty

end ws

/- ---- non-vacuity: concrete instances of the hypotheses ---- -/
/-- the world of the C11 counter-example (one job `j` in project 0 with a data file `f`) is clean -/
theorem cexW_clean : Clean cexCodec cexW := by
  intro k d h
  simp only [cexW] at h
  split at h
  · cases h; subst_vars
    exact ⟨⟨1, rfl, rfl⟩, rfl, rfl, by simp [cexS], by simp [cexS]⟩
  · cases h

theorem absW_cexW :
    absW cexW = aupd (fun _ => none) cexSrc (some (1, fun p => getEntry p [("f", some "data")])) := by
  funext k
  simp only [absW, cexW, aupd, cexSrc]
  by_cases h : k = (0, "j")
  · simp only [h, if_true]; rfl
  · simp only [h, if_false]; rfl

/-- `[sp, file f]` scans the directory of job `j` -/
theorem scans_cex : Scans (fun p => getEntry p [("f", some "data")]) cexOrder := by
  refine ⟨by decide, ?_⟩
  intro r
  simp only [cexOrder, List.mem_cons, List.not_mem_nil, or_false, getEntry]
  constructor
  · rintro (rfl | rfl)
    · exact Or.inl rfl
    · exact Or.inr (Or.inl ⟨"f", "data", rfl, by simp⟩)
  · rintro (rfl | ⟨p, b, rfl, h⟩ | ⟨p, rfl, h⟩)
    · exact Or.inl rfl
    · split at h
      · subst_vars; exact Or.inr rfl
      · cases h
    · split at h <;> cases h

def cexOps : List (Op Nat) :=
  [.clone cexSrc cexDst cexOrder, .rekey cexSrc (0, "x") 2, .remove cexDst cexOrder,
   .clear (0, "x") cexOrder, .init cexSrc 1 false, .move (0, "x") (1, "x")]

/-- a history using every operation (clone with a data file, re-key, remove, clear, init, move)
    satisfies the preconditions of `history_refines` from a clean world with a non-trivial job -/
theorem cexOps_pre : PreOps cexCodec cexOps (absW cexW) := by
  rw [absW_cexW]
  refine ⟨⟨rfl, ?_⟩, ⟨by decide, rfl⟩, ?_, ?_, rfl, ⟨by decide, rfl⟩, trivial⟩
  · intro v P h
    simp [aupd, cexSrc] at h
    obtain ⟨_, rfl⟩ := h
    exact scans_cex
  · intro v P h
    simp [Op.spec, specClone, specRekey, aupd, cexSrc, cexDst] at h
    obtain ⟨_, rfl⟩ := h
    exact scans_cex
  · intro v P h
    simp [Op.spec, specClone, specRekey, specRemove, aupd, cexSrc, cexDst] at h
    obtain ⟨_, rfl⟩ := h
    exact scans_cex

/-- … and the event-free runs return ok six times -/
example : (runOps cexCodec cexOps cexW).2 = [.ok, .ok, .ok, .ok, .ok, .ok] := by
  rw [(history_refines cexCodec cexOps cexW cexW_clean cexOps_pre).2.2, absW_cexW]
  simp [cexOps, specOps, Op.spec, specClone, specRekey, specRemove, specClear, specInit, specMove, aupd,
    cexSrc, cexDst]

/-- `rekey_onto_empty_dir`: a world that is clean except for an empty directory at the target -/
example : CleanBut cexCodec (upd cexW (0, "x") (some {})) (0, "x") ∧ cexSrc ≠ (0, "x") ∧
    cexCodec.hash 2 = "x" ∧ (upd cexW (0, "x") (some {}) cexSrc).isSome = true ∧
    (upd cexW (0, "x") (some {}) (0, "x")).isSome = true := by
  refine ⟨?_, by decide, rfl, by decide, by decide⟩
  intro k d h
  simp only [upd] at h
  split at h
  · cases h; exact Or.inr ⟨by assumption, rfl⟩
  · exact Or.inl (cexW_clean k d h)

/-- a payload relation satisfying both side conditions of the squares: files by name, the empty
    document is "no document file" or `{}` -/
def stdRel : PayRel := fun P doc files =>
  (∀ n, n ≠ docName → P n = (Ws.alookup n files).map some) ∧
  (doc = [] → P docName = none ∨ P docName = some (some "{}"))

example : stdRel noPayload [] [] ∧ stdRel emptyDoc [] [] := by
  refine ⟨⟨fun n _ => rfl, fun _ => Or.inl rfl⟩, ⟨fun n hn => ?_, fun _ => Or.inr ?_⟩⟩
  · simp [emptyDoc, hn, Ws.alookup]
  · simp [emptyDoc]

/- ================================================================================================
   Step level: "never rewrites" (C02) and "a collision leaves both jobs byte-identical" (C04).
   `Outcome.acc` records every step ANNOUNCED to the file system (performed, failed by itself, or
   faulted): `n` their number, `trace` the steps newest first, `faulted` whether a fault was consumed.
   `{}` is the empty record (n = 0, trace = [], faulted = false).  World equalities are exact.
   ================================================================================================ -/

/-- C02: `init()` of a settled job — under EVERY event schedule (crash, torn write, fault at any
    position) — announces no step: nothing is written, no event can fire, the world is untouched, the
    result is ok.  Only directory `k` is constrained; `v` and `force` are arbitrary (in particular
    `force = false`), and the hypothesis actually used is just `validAt C w k` (`init_valid_no_step`). -/
theorem init_settled_no_step (C : Codec Sp) (ev : Nat → Option Ev) (k : Key) (v : Sp) (force : Bool)
    (w : World Sp) (d : JobDir Sp) (hw : w k = some d) (hd : Settled C k.2 d) :
    run C ev (initProg C k v force) w = ⟨w, .ok, {}⟩ :=
  init_valid_no_step C ev k v force w (validAt_of_settled C hw hd)

/-- … so it coincides with the event-free run: a crash "during" a re-init cannot damage a valid job -/
theorem init_settled_any_schedule (C : Codec Sp) (ev : Nat → Option Ev) (k : Key) (v : Sp) (force : Bool)
    (w : World Sp) (d : JobDir Sp) (hw : w k = some d) (hd : Settled C k.2 d) :
    run C ev (initProg C k v force) w = run C noEv (initProg C k v force) w := by
  rw [init_settled_no_step C ev k v force w d hw hd, init_settled_no_step C noEv k v force w d hw hd]

/-- the first `init()` of an absent job: exactly mkdir, open temp, write temp, rename temp onto the
    state-point file (no Clean needed) -/
theorem init_fresh_trace (C : Codec Sp) (k : Key) (v : Sp) (force : Bool) (w : World Sp) (hk : w k = none)
    (hv : C.hash v = k.2) :
    run C noEv (initProg C k v force) w =
      ⟨upd w k (some { sp := some (.ok v) }), .ok,
       ⟨4, [.tmpCommit k spName, .tmpWrite k spName (.ok v), .tmpOpen k spName, .mkdir k], false⟩⟩ :=
  init_fresh_run C k v force w hk hv

/-- C02 idempotence: after a successful first `init()` a second one (any arguments, any schedule)
    announces no step -/
theorem init_twice_no_step (C : Codec Sp) (ev : Nat → Option Ev) (k : Key) (v v' : Sp) (f f' : Bool)
    (w : World Sp) (hk : w k = none) (hv : C.hash v = k.2) :
    let w1 := (run C noEv (initProg C k v f) w).w
    run C ev (initProg C k v' f') w1 = ⟨w1, .ok, {}⟩ := Life.init_twice_no_step C ev k v v' f f' w hk hv

/-- C04: re-key / move / clone onto a destination holding a settled job, event-free, source settled
    (other directories arbitrary): DestinationExistsError and the final world IS the initial world.
    Re-key announces three steps — the state-point file of `x` is parked as `…json~`, the rename
    fails by itself (ENOTEMPTY), the rollback renames the file back —; move announces the one failing
    rename; clone the one failing `mkdir`. -/
theorem rekey_collision_no_damage (C : Codec Sp) (x y : Key) (v : Sp) (order : List Ref) (w : World Sp)
    (D D' : JobDir Sp) (hxy : x ≠ y) (hx : w x = some D) (hD : Settled C x.2 D)
    (hy : w y = some D') (hD' : Settled C y.2 D') :
    run C noEv (rekeyProg C x y v) w =
      ⟨w, destExists, ⟨3, [.bakToSp x, .renameDir x y, .spToBak x], false⟩⟩ ∧
    run C noEv (moveProg x y) w = ⟨w, destExists, ⟨1, [.renameDir x y], false⟩⟩ ∧
    run C noEv (cloneProg x y order) w = ⟨w, destExists, ⟨1, [.cpMkdir y ""], false⟩⟩ := by
  obtain ⟨v0, hsp, hh⟩ := hD.sp
  exact ⟨rekey_collision_exact C x y v v0 w D D' hxy hx hsp hh hD.bak hy (settled_not_empty C hD'),
    move_collision_exact C x y w D D' hx hy (settled_not_empty C hD'),
    clone_collision_exact C x y order w D D' hx hy⟩

/-- the three re-key steps one by one: park changes `x`, the rename fails and changes nothing, the
    rollback gives back exactly the initial world -/
theorem rekey_collision_steps (C : Codec Sp) (x y : Key) (w : World Sp) (D D' : JobDir Sp) (c : Content Sp)
    (hxy : x ≠ y) (hx : w x = some D) (hsp : D.sp = some c) (hb : D.bak = none)
    (hy : w y = some D') (hD' : D'.isEmpty = false) :
    let w1 := upd w x (some { D with sp := none, bak := some c })
    apply C w (.spToBak x) = .ok w1 ∧ apply C w1 (.renameDir x y) = .error .ENOTEMPTY ∧
      apply C w1 (.bakToSp x) = .ok w := Life.rekey_collision_steps C x y w D D' c hxy hx hsp hb hy hD'

/-- exactness has one proviso, visible when `x` is NOT required to be settled: a stale backup file
    `…json~` that `x` already had is overwritten by the parking step and gone afterwards — that is
    the only difference (strays and payload of `x`, `y`, everything else: identical) -/
theorem rekey_collision_stale_backup (C : Codec Sp) (x y : Key) (v v0 : Sp) (w : World Sp) (D D' : JobDir Sp)
    (hxy : x ≠ y) (hx : w x = some D) (hsp : D.sp = some (.ok v0)) (hh : C.hash v0 = x.2)
    (hy : w y = some D') (hD' : D'.isEmpty = false) :
    run C noEv (rekeyProg C x y v) w =
      ⟨upd w x (some { D with bak := none }), destExists,
       ⟨3, [.bakToSp x, .renameDir x y, .spToBak x], false⟩⟩ :=
  rekey_collision_run C x y v v0 w D D' hxy hx hsp hh hy hD'

/-- one injected fault (`e ≠ ENOENT`) in a re-key collision.
    Fault in the parking step or in the rename: the world is still exactly the initial one (for the
    rename whatever `y` holds; the exception is DestinationExistsError for EEXIST/ENOTEMPTY/EACCES).
    Fault in the ROLLBACK: NOT restored — the state-point file of `x` stays parked as backup, which is
    the whole difference; `x` is then reported by `check()` (this is the C11 `rekey_safe` alternative
    "exception ⇒ old job intact or a directory reported by check()", made exact). -/
theorem rekey_collision_single_fault (C : Codec Sp) (x y : Key) (v v0 : Sp) (w : World Sp) (D D' : JobDir Sp)
    (e : Errno) (he : e ≠ .ENOENT) (hxy : x ≠ y) (hx : w x = some D) (hD : Settled C x.2 D)
    (hsp : D.sp = some (.ok v0)) (hy : w y = some D') (hD' : Settled C y.2 D') :
    run C (faultAt 0 e) (rekeyProg C x y v) w = ⟨w, osExc e, ⟨1, [.spToBak x], true⟩⟩ ∧
    run C (faultAt 1 e) (rekeyProg C x y v) w =
      ⟨w, if e = .EEXIST ∨ e = .ENOTEMPTY ∨ e = .EACCES then destExists else osExc e,
       ⟨3, [.bakToSp x, .renameDir x y, .spToBak x], true⟩⟩ ∧
    run C (faultAt 2 e) (rekeyProg C x y v) w =
      ⟨upd w x (some { D with sp := none, bak := some (.ok v0) }), osExc e,
       ⟨3, [.bakToSp x, .renameDir x y, .spToBak x], true⟩⟩ ∧
    corruptAt C (upd w x (some { D with sp := none, bak := some (.ok v0) })) x = true := by
  have hh : C.hash v0 = x.2 := by
    obtain ⟨v1, h1, h2⟩ := hD.sp
    rw [hsp] at h1; cases h1; exact h2
  exact ⟨rekey_collision_fault0 C x y v w e he,
    rekey_collision_fault1 C x y v v0 w D e he hx hsp hh hD.bak,
    rekey_collision_fault2 C x y v w D D' _ e he hxy hx hsp hy (settled_not_empty C hD')⟩

/- ---- non-vacuity ---- -/
/-- `init_settled_no_step` / `init_twice_no_step`: job `j` of the C11 counter-example world is settled
    (the world holds a data file, so "nothing rewritten" is not about an empty directory);
    `(0, "x")` is absent and `hash 2 = "x"` -/
example : cexW cexSrc = some cexS ∧ Settled cexCodec cexSrc.2 cexS ∧ cexW (0, "x") = none ∧
    cexCodec.hash 2 = "x" :=
  ⟨by simp [cexW, cexSrc], cexW_clean cexSrc cexS (by simp [cexW, cexSrc]), by decide, rfl⟩

/-- a world with two more settled jobs: a copy of `j` in project 1 and job `x` in project 0 -/
def cexW2 : World Nat := upd (upd cexW cexDst (some cexS)) (0, "x") (some { sp := some (.ok 2) })

/-- `rekey_collision_no_damage` / `rekey_collision_single_fault`: source `j`, destination `x` (re-key)
    resp. the copy in project 1 (move, clone) -/
example : cexSrc ≠ (0, "x") ∧ cexW2 cexSrc = some cexS ∧ Settled cexCodec cexSrc.2 cexS ∧
    cexW2 (0, "x") = some { sp := some (.ok 2) } ∧
    Settled cexCodec "x" ({ sp := some (.ok 2) } : JobDir Nat) ∧
    cexSrc ≠ cexDst ∧ cexW2 cexDst = some cexS ∧ Settled cexCodec cexDst.2 cexS :=
  ⟨by decide, by simp [cexW2, upd, cexW, cexSrc, cexDst], cexW_clean cexSrc cexS (by simp [cexW, cexSrc]),
   by simp [cexW2, upd], settled_fresh cexCodec "x" 2 rfl, by decide,
   by simp [cexW2, upd, cexDst], cexW_clean cexSrc cexS (by simp [cexW, cexSrc])⟩

/- ================================================================================================
   Every schedule: "a lifecycle operation that returns normally did exactly what its specification
   says" (lemmas: Signac/Proofs/LifeOkRun.lean).
   A run that consumed no fault and did not die is the event-free run (`run_eq_noEv_of_quiet`, all
   programs); a normal return of init / move / clone consumed no fault under ANY schedule; a normal
   return of re-key / remove / clear consumed no fault unless ENOENT was INJECTED — these three read
   ENOENT as "not there" and go on, so the unrestricted statement is false (`ok_means_done_false`).
   ================================================================================================ -/

/-- all programs: no fault consumed and no death ⇒ the run IS the event-free run (whole outcome:
    world, result, step count, trace, flag) -/
theorem quiet_run_is_event_free (C : Codec Sp) (ev : Nat → Option Ev) (p : Prog Sp) (w : World Sp)
    (hf : (run C ev p w).faulted = false) (hc : (run C ev p w).res ≠ .crashed) :
    run C ev p w = run C noEv p w := run_eq_noEv_of_quiet C ev p w hf hc

/-- all six operations (re-key: `x ≠ y`): a normal return is the event-free run, provided ENOENT
    is not injected into re-key / remove / clear (`Op.readsENOENT`) -/
theorem ok_run_is_event_free_partial (C : Codec Sp) (op : Op Sp) (hd : op.distinct) (ev : Nat → Option Ev)
    (hne : op.readsENOENT → NoENOENT ev) (w : World Sp) (hok : (run C ev (op.prog C) w).res = .ok) :
    run C ev (op.prog C) w = run C noEv (op.prog C) w :=
  Life.ok_run_is_event_free_partial C op hd ev hne w hok

/-- the statement asked for, over ALL schedules -/
def ok_means_done_full : Prop :=
  ∀ (Sp : Type) (C : Codec Sp) (op : Op Sp) (w : World Sp) (ev : Nat → Option Ev),
    Clean C w → op.pre C (absW w) → (run C ev (op.prog C) w).res = .ok →
    Clean C (run C ev (op.prog C) w).w ∧ absW (run C ev (op.prog C) w).w = (op.spec (absW w)).1 ∧
      (op.spec (absW w)).2 = .ok

/-- **ok_means_done**, the true variant: from a clean world, an operation with its abstract
    precondition, ANY schedule (deaths, torn writes, faults anywhere — only ENOENT must not be
    injected into re-key / remove / clear): if the call returns normally, the final world is clean,
    its abstraction is the abstract operation's result state, the abstract result is ok as well —
    and the run is the event-free run. -/
theorem ok_means_done_partial (C : Codec Sp) (op : Op Sp) (w : World Sp) (hc : Clean C w)
    (hp : op.pre C (absW w)) (ev : Nat → Option Ev) (hne : op.readsENOENT → NoENOENT ev)
    (hok : (run C ev (op.prog C) w).res = .ok) :
    Clean C (run C ev (op.prog C) w).w ∧ absW (run C ev (op.prog C) w).w = (op.spec (absW w)).1 ∧
      (op.spec (absW w)).2 = .ok ∧ run C ev (op.prog C) w = run C noEv (op.prog C) w := by
  have hd : op.distinct := by
    cases op <;> simp only [Op.distinct]
    exact hp.1
  have h := Life.ok_run_is_event_free_partial C op hd ev hne w hok
  obtain ⟨h1, h2, h3⟩ := op_refines C op w hc hp
  rw [h] at hok ⊢
  exact ⟨h2, h3, by rw [← h1, hok], rfl⟩

/-- init, move, clone: under EVERY schedule, no proviso -/
theorem ok_means_done_any_schedule (C : Codec Sp) (op : Op Sp) (hn : ¬ op.readsENOENT) (w : World Sp)
    (hc : Clean C w) (hp : op.pre C (absW w)) (ev : Nat → Option Ev)
    (hok : (run C ev (op.prog C) w).res = .ok) :
    Clean C (run C ev (op.prog C) w).w ∧ absW (run C ev (op.prog C) w).w = (op.spec (absW w)).1 ∧
      (op.spec (absW w)).2 = .ok :=
  have h := ok_means_done_partial C op w hc hp ev (fun h => absurd h hn) hok
  ⟨h.1, h.2.1, h.2.2.1⟩

/-- re-key, remove, clear: every schedule without an injected ENOENT -/
theorem ok_means_done_noENOENT (C : Codec Sp) (op : Op Sp) (w : World Sp) (hc : Clean C w)
    (hp : op.pre C (absW w)) (ev : Nat → Option Ev) (hne : NoENOENT ev)
    (hok : (run C ev (op.prog C) w).res = .ok) :
    Clean C (run C ev (op.prog C) w).w ∧ absW (run C ev (op.prog C) w).w = (op.spec (absW w)).1 ∧
      (op.spec (absW w)).2 = .ok :=
  have h := ok_means_done_partial C op w hc hp ev (fun _ => hne) hok
  ⟨h.1, h.2.1, h.2.2.1⟩

theorem cex_remove_pre : (Op.remove cexSrc cexOrder : Op Nat).pre cexCodec (absW cexW) := by
  rw [absW_cexW]
  intro v P h
  simp [aupd, cexSrc] at h
  obtain ⟨_, rfl⟩ := h
  exact scans_cex

/-- witness 1 (remove): the first unlink fails with an injected ENOENT, `remove()` returns normally
    and NOTHING was removed: the final world is clean, but the job the abstract operation deleted
    is still there -/
theorem remove_ok_but_not_done :
    let o := run cexCodec (faultAt 0 .ENOENT) ((Op.remove cexSrc cexOrder : Op Nat).prog cexCodec) cexW
    o.res = .ok ∧ (absW o.w cexSrc).isSome = true ∧
      (((Op.remove cexSrc cexOrder : Op Nat).spec (absW cexW)).1 cexSrc).isSome = false := by
  refine ⟨by decide, by decide, ?_⟩
  simp [Op.spec, specRemove, aupd]

/-- witness 2 (re-key): the removal of the parked backup fails with an injected ENOENT, the re-key
    returns normally and the new directory keeps a backup file holding the OLD state point: not a
    clean world -/
theorem rekey_ok_but_not_clean :
    let o := run cexCodec (faultAt 2 .ENOENT) ((Op.rekey cexSrc (0, "x") 2 : Op Nat).prog cexCodec) cexW
    o.res = .ok ∧ ¬ Clean cexCodec o.w := by
  refine ⟨by decide, fun hcl => ?_⟩
  have hb := rekey_enoent_swallowed.2.2.2.1
  simp only [bakPresent] at hb
  split at hb
  · rename_i d hd
    have := (hcl (0, "x") d hd).bak
    rw [this] at hb; cases hb
  · cases hb

/-- hence the statement over ALL schedules is false of the model (the code reads ENOENT as
    "not there" by design; C11 excludes injected ENOENT for the same reason) -/
theorem ok_means_done_false : ¬ ok_means_done_full := by
  intro h
  have h1 := h Nat cexCodec (.remove cexSrc cexOrder) cexW (faultAt 0 .ENOENT) cexW_clean cex_remove_pre
    remove_ok_but_not_done.1
  have h2 := remove_ok_but_not_done.2.1
  have h3 := remove_ok_but_not_done.2.2
  rw [h1.2.1, h3] at h2
  cases h2

/- ---- non-vacuity ---- -/
/-- `ok_means_done_partial`: the clean world `cexW`, a re-key `j → x` (6 steps: park, rename, drop the
    backup, open / write / rename the new state-point file) under a schedule with a process death
    placed at step 6, i.e. right AFTER the last step of the run: hypotheses hold, the call returns ok -/
example : Clean cexCodec cexW ∧ (Op.rekey cexSrc (0, "x") 2 : Op Nat).pre cexCodec (absW cexW) ∧
    ((Op.rekey cexSrc (0, "x") 2 : Op Nat).readsENOENT → NoENOENT (crashAt 6)) ∧
    crashAt 6 6 = some .crash ∧
    (run cexCodec (crashAt 6) ((Op.rekey cexSrc (0, "x") 2 : Op Nat).prog cexCodec) cexW).res = .ok ∧
    (run cexCodec (crashAt 6) ((Op.rekey cexSrc (0, "x") 2 : Op Nat).prog cexCodec) cexW).acc.n = 6 ∧
    (run cexCodec (crashAt 5) ((Op.rekey cexSrc (0, "x") 2 : Op Nat).prog cexCodec) cexW).res = .crashed :=
  ⟨cexW_clean, ⟨by decide, rfl⟩, fun _ => noENOENT_crashAt 6, rfl, by decide, by decide, by decide⟩

/-- the same with a consumed non-ENOENT fault: never ok (so `ok_means_done_partial` is not about
    fault-free schedules only, its hypothesis `res = ok` does the selecting) -/
example : NoENOENT (faultAt 2 .EIO) ∧
    (run cexCodec (faultAt 2 .EIO) ((Op.rekey cexSrc (0, "x") 2 : Op Nat).prog cexCodec) cexW).res ≠ .ok :=
  ⟨noENOENT_faultAt 2 .EIO (by decide), by decide⟩

/-- `ok_means_done_any_schedule`: init of an absent job (4 steps: mkdir, open / write / rename the
    state-point file) under a schedule with an (even ENOENT) fault placed right after the last step -/
example : ¬ (Op.init (0, "x") 2 false : Op Nat).readsENOENT ∧
    (Op.init (0, "x") 2 false : Op Nat).pre cexCodec (absW cexW) ∧
    (run cexCodec (faultAt 4 .ENOENT) ((Op.init (0, "x") 2 false : Op Nat).prog cexCodec) cexW).res = .ok :=
  ⟨fun h => h, rfl, by decide⟩

end Signac.Refinement

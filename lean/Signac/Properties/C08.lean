/-
  C08 — the state point cache is transparent, and update_cache makes it exact.
  Model: Signac.Cache (workspace listing + cache file + session cache of the live Project).
-/
import Signac.Proofs.CacheRun
import Signac.Proofs.ChunksAll
namespace Signac.C08
open Signac Signac.Ws Signac.Cache

variable (hash : JVal → String)

/-- After ANY history of {init, remove, re-key, update_cache, session restart, cache deletion,
    queries} from an empty project the workspace is uncorrupted and every entry of the session
    cache and of the cache file maps an id to a state point hashing to it. -/
theorem reachable_inv (ops : List COp) :
    AllValid hash (crun hash St.empty ops).ws ∧ CacheInv hash (crun hash St.empty ops) :=
  crun_inv St.empty empty_inv.1 empty_inv.2 ops

/-- One step keeps both invariants (so the theorems below apply after every step). -/
theorem step_inv (s : St) (hv : AllValid hash s.ws) (hc : CacheInv hash s) (op : COp) :
    AllValid hash (cstep hash s op).ws ∧ CacheInv hash (cstep hash s op) :=
  ⟨allValid_cstep s hv op, cacheInv_cstep s hc op⟩

/-- The id listing (len, iteration, membership) does not read the cache at all: restarting the
    session, deleting the cache file, updating it or querying leave the workspace as it is. -/
theorem listing_ignores_cache (s : St) :
    (newSession s).ws = s.ws ∧ (rmCache s).ws = s.ws ∧ (updateCache hash s).1.ws = s.ws ∧
    (observe hash s).ws = s.ws :=
  ⟨rfl, rfl, updateCache_ws s, observeAll_ws s _⟩

/-- Transparency: with the same workspace and ANY two cache states satisfying the invariant
    (fresh, stale, deleted), looking up an existing id succeeds in both and yields state points
    with the same hash — the id; equal values wherever the hash is injective. -/
theorem cache_transparent (s1 s2 : St) (hws : s1.ws = s2.ws) (hv : AllValid hash s1.ws)
    (h1 : CacheInv hash s1) (h2 : CacheInv hash s2) (id : String) (hid : id ∈ K s1.ws) :
    ∃ v1 v2, (getStatepoint hash s1 id).2 = .ok v1 ∧ (getStatepoint hash s2 id).2 = .ok v2 ∧
      hash v1 = id ∧ hash v2 = id ∧ ((∀ a b, hash a = hash b → a = b) → v1 = v2) :=
  Cache.cache_transparent s1 s2 hws hv h1 h2 id hid

/-- Whatever the cache holds, a state point handed out for an id hashes to that id. -/
theorem lookup_sound (s : St) (h : CacheInv hash s) (id : String) (v : JVal)
    (hr : (getStatepoint hash s id).2 = .ok v) : hash v = id :=
  getStatepoint_sound h id hr

/-- After update_cache() returns, the cache file lists exactly the ids in the workspace (and, by
    the invariant, maps each to a state point hashing to it); the workspace is untouched. -/
theorem update_cache_exact (s : St) (hv : AllValid hash s.ws) (hc : CacheInv hash s) :
    (updateCache hash s).2.2.isNone = true ∧ (updateCache hash s).1.ws = s.ws ∧
    ∃ c, (updateCache hash s).1.cacheFile = some c ∧ (∀ x, x ∈ K c ↔ x ∈ K s.ws) ∧ MapInv hash c := by
  obtain ⟨h1, h2, c, h3, h4⟩ := updateCache_exact (hash := hash) s hv
  exact ⟨h1, h2, c, h3, h4, updateCache_file_sound s hc c h3⟩

/-- An immediate second call reports nothing to do and rewrites nothing. -/
theorem update_cache_idempotent (s : St) (hv : AllValid hash s.ws) :
    (updateCache hash (updateCache hash s).1).2.1 = none ∧
    (updateCache hash (updateCache hash s).1).1.cacheFile = (updateCache hash s).1.cacheFile ∧
    (updateCache hash (updateCache hash s).1).1.ws = s.ws :=
  updateCache_idempotent s hv

/- non-vacuity: a history that makes the cache file stale (job removed and another re-keyed after
   update_cache) still satisfies the hypotheses, and update_cache then rewrites the file. -/
example :
    let s := crun (fun v => canonText v) St.empty
      [.init (.obj [("n", .int 0)]), .init (.obj [("n", .int 1)]), .ucache,
       .remove (.obj [("n", .int 0)]), .rekey (.obj [("n", .int 1)]) "n" (.int 2), .session]
    (s.cacheFile.map List.length) = some 2 ∧ s.ws.length = 1 ∧
    (updateCache (fun v => canonText v) s).2.1 = some 1 := by decide

/-! ### update_cache reads every new id: the chunking of `_update_in_memory_cache` -/

/-- Whatever the number of ids to read, the chunks handed to the thread pool concatenate to the
    list of ids: none is dropped, duplicated or re-ordered, and chunking never raises. -/
theorem chunks_cover_all_ids (ids : List String) :
    ∃ cs, Chunks.splitChunks ids (Chunks.numChunks ids.length) = some cs ∧ cs.flatten = ids ∧
      cs.length = Chunks.numChunks ids.length := by
  cases h : Chunks.splitChunks ids (Chunks.numChunks ids.length) with
  | none =>
    have := (Chunks.splitChunks_error_iff ids _).mp h
    have := Chunks.numChunks_pos ids.length
    omega
  | some cs => exact ⟨cs, rfl, Chunks.splitChunks_flatten ids _ cs h, Chunks.splitChunks_length ids _ cs h⟩

/-- ... for every chunk count the helper accepts, not only the caller's choice. -/
theorem chunks_cover (ids : List String) (k : Nat) (cs : List (List String))
    (h : Chunks.splitChunks ids k = some cs) : cs.flatten = ids ∧ cs.length = k :=
  ⟨Chunks.splitChunks_flatten ids k cs h, Chunks.splitChunks_length ids k cs h⟩

example : Chunks.splitChunks [1, 2, 3, 4, 5, 6, 7] 3 = some [[1, 2], [3, 4], [5, 6, 7]] := by decide
example : Chunks.numChunks 2001 = 2 ∧ Chunks.numChunks 1999 = 1 ∧ Chunks.numChunks 250000 = 100 := by decide

end Signac.C08

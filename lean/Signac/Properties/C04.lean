/-
  C04 — re-keying, moving and cloning carry all data and never clobber another job.
  Same model as C03 (Signac.Workspace); every state point edit funnels into `rekey`.
-/
import Signac.Proofs.WsOps
namespace Signac.C04
open Signac Signac.Ws

variable (hash : JVal → String)

/-- All routes of changing a state point are the one re-key protocol applied to the new value. -/
theorem routes_funnel_into_rekey (w : World) (hn : String) (hd : Handle)
    (hh : alookup hn w.handles = some hd) (k : String) (v sp : JVal) :
    step hash w (.spset hn k v) = rekey hash w hd (spSet hd.sp k v) ∧
    step hash w (.spassign hn sp) = rekey hash w hd (assignSp hd.sp sp) ∧
    (spHas hd.sp k = true → step hash w (.spdel hn k) = rekey hash w hd (spDel hd.sp k)) := by
  refine ⟨by simp [step, hh], by simp [step, hh], fun h => by simp [step, hh, h]⟩

/-- The job reappears under the id of the new state point with its document and every file
    identical, the old id disappears, all other jobs are untouched. -/
theorem rekey_moves_payload (w : World) (hd : Handle) (newSp : JVal) (jd : JobData)
    (hne : hash hd.sp ≠ hash newSp)
    (hsrc : alookup (hash hd.sp) (w.jobs hd.proj) = some jd)
    (hdst : alookup (hash newSp) (w.jobs hd.proj) = none) :
    (rekey hash w hd newSp).2 = .ok ∧
    alookup (hash newSp) ((rekey hash w hd newSp).1.jobs hd.proj) = some { jd with sp := newSp } ∧
    alookup (hash hd.sp) ((rekey hash w hd newSp).1.jobs hd.proj) = none ∧
    (∀ i, i ≠ hash hd.sp → i ≠ hash newSp →
      alookup i ((rekey hash w hd newSp).1.jobs hd.proj) = alookup i (w.jobs hd.proj)) :=
  Ws.rekey_moves_payload w hd newSp hne hsrc hdst

/-- ... and the other project is not touched. -/
theorem rekey_other_project_untouched (w : World) (hd : Handle) (newSp : JVal) (q : Nat)
    (hq : (hd.proj = 0) ≠ (q = 0)) : (rekey hash w hd newSp).1.jobs q = w.jobs q :=
  Ws.rekey_other_project w hd newSp q hq

/-- Every live copy of the handle follows: after a successful re-key each handle of the group
    carries the new state point (so its id and path are those of the new job); all other handles
    are exactly as before. -/
theorem rekey_handles_follow (w : World) (hd : Handle) (newSp : JVal)
    (hne : hash hd.sp ≠ hash newSp) (hok : (rekey hash w hd newSp).2 = .ok) :
    ∀ n h', (n, h') ∈ (rekey hash w hd newSp).1.handles →
      ∃ h0, (n, h0) ∈ w.handles ∧ h'.proj = h0.proj ∧ h'.grp = h0.grp ∧
        (if h0.grp = hd.grp then h'.sp = newSp else h'.sp = h0.sp) :=
  Ws.rekey_handles_follow w hd newSp hne hok

/-- Destination id already initialised: DestinationExistsError, and jobs AND handles are
    exactly what they were (both jobs stay identical; the handle keeps its old state point). -/
theorem rekey_dest_exists (w : World) (hd : Handle) (newSp : JVal) (jd : JobData)
    (hne : hash hd.sp ≠ hash newSp)
    (hsrc : alookup (hash hd.sp) (w.jobs hd.proj) = some jd)
    (hdst : (alookup (hash newSp) (w.jobs hd.proj)).isSome = true) :
    rekey hash w hd newSp = (w, .destExists) :=
  Ws.rekey_dest_exists w hd newSp hne hsrc hdst

/-- Any failing re-key is the identity on the whole world. -/
theorem rekey_fail_identity (w : World) (hd : Handle) (newSp : JVal)
    (hfail : (rekey hash w hd newSp).2 ≠ .ok) : (rekey hash w hd newSp).1 = w :=
  Ws.rekey_fail_identity w hd newSp hfail

/-- update_statepoint without overwrite never alters an existing key's value: KeyError, no effect. -/
theorem update_no_overwrite (w : World) (hn : String) (hd : Handle) (upd : List (String × JVal))
    (hh : alookup hn w.handles = some hd) (hc : updConflict (spEntries hd.sp) upd = true) :
    step hash w (.update hn upd false) = (w, .keyError) :=
  update_conflict_no_effect w hn hd upd hh hc

/-- move() across projects keeps the id and the payload. -/
theorem move_keeps_id (w : World) (hn : String) (hd : Handle) (p : Nat) (jd : JobData)
    (hh : alookup hn w.handles = some hd) (hpq : (hd.proj = 0) ≠ (p = 0))
    (hsrc : alookup (hash hd.sp) (w.jobs hd.proj) = some jd)
    (hdst : alookup (hash hd.sp) (w.jobs p) = none) :
    (step hash w (.move hn p)).2 = .ok ∧
    alookup (hash hd.sp) ((step hash w (.move hn p)).1.jobs p) = some jd ∧
    alookup (hash hd.sp) ((step hash w (.move hn p)).1.jobs hd.proj) = none :=
  Ws.move_keeps_id w hn hd p hh hpq hsrc hdst

/-- clone() makes an identical copy and leaves the source project untouched. -/
theorem clone_independent (w : World) (hn h2 : String) (hd : Handle) (p : Nat) (jd : JobData)
    (hh : alookup hn w.handles = some hd) (hpq : (hd.proj = 0) ≠ (p = 0))
    (hsrc : alookup (hash hd.sp) (w.jobs hd.proj) = some jd)
    (hdst : alookup (hash hd.sp) (w.jobs p) = none) :
    (step hash w (.clone hn p h2)).2 = .ok ∧
    alookup (hash hd.sp) ((step hash w (.clone hn p h2)).1.jobs p) = some jd ∧
    (step hash w (.clone hn p h2)).1.jobs hd.proj = w.jobs hd.proj :=
  Ws.clone_independent w hn h2 hd p hh hpq hsrc hdst

/-- clone() onto an initialised destination: DestinationExistsError, no job changes. -/
theorem clone_dest_exists (w : World) (hn h2 : String) (hd : Handle) (p : Nat) (jd : JobData)
    (hh : alookup hn w.handles = some hd)
    (hsrc : alookup (hash hd.sp) (w.jobs hd.proj) = some jd)
    (hdst : (alookup (hash hd.sp) (w.jobs p)).isSome = true) :
    (step hash w (.clone hn p h2)).2 = .destExists ∧
    (step hash w (.clone hn p h2)).1.p0 = w.p0 ∧ (step hash w (.clone hn p h2)).1.p1 = w.p1 :=
  Ws.clone_dest_exists w hn h2 hd p hh hsrc hdst

/- non-vacuity: a world with an initialised job {a:1} carrying a document and a file, a second
   job {a:2}, two handles of one group — hypotheses of rekey_moves_payload (edit a ↦ 3) and of
   rekey_dest_exists (edit a ↦ 2) are met. -/
def exWorld : World :=
  run (fun v => canonText v) World.empty
    [.openSp "h1" 0 (.obj [("a", .int 1)]), .dset "h1" "k" (.int 2), .put "h1" "f.txt" "A",
     .copy "h1" "h2", .openSp "h3" 0 (.obj [("a", .int 2)]), .init "h3"]

example :
    (alookup "h1" exWorld.handles).isSome = true ∧ (alookup "h2" exWorld.handles).isSome = true ∧
    ((alookup (canonText (.obj [("a", .int 1)])) (exWorld.jobs 0)).map (fun jd => jd.files.length)) = some 1 ∧
    (alookup (canonText (spSet (.obj [("a", .int 1)]) "a" (.int 3))) (exWorld.jobs 0)).isNone = true ∧
    (alookup (canonText (spSet (.obj [("a", .int 1)]) "a" (.int 2))) (exWorld.jobs 0)).isSome = true := by
  decide

end Signac.C04

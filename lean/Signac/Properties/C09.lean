/-
  C09 — state point corruption is always detected, never accepted, and repairable.
  Model: Signac.Cache (workspace listing with each directory's state point file as
  absent / parsed value / unparsable, cache file, session cache); `json.loads` is a parameter
  (the harness reports which of the three a damaged file is).
-/
import Signac.Proofs.CacheRepairRename
namespace Signac.C09
open Signac Signac.Ws Signac.Cache

variable (hash : JVal → String)

/-- Never accepted: whatever bytes the file holds, a load that succeeds returns a value whose
    hash is the directory name. -/
theorem load_sound (d : Dir) (id : String) (v : JVal) (h : loadValid hash d id = some v) : hash v = id :=
  loadValid_hash h

/-- check() names exactly the damaged jobs: those whose file is missing, unparsable, or parses to a
    value with another hash (which covers truncation, byte damage, replacement by other JSON and
    renamed directories alike). -/
theorem check_exact (s : St) (id : String) :
    id ∈ check hash s ↔ ∃ d, (id, d) ∈ s.ws ∧
      (d.sp = .absent ∨ d.sp = .garbage ∨ ∃ v, d.sp = .valid v ∧ hash v ≠ id) :=
  Cache.check_exact s id

/-- check() passes iff every directory validates. -/
theorem check_passes_iff (s : St) : check hash s = [] ↔ AllValid hash s.ws := check_nil_iff s

/-- Opening a job by id in a fresh session never yields a state point whose hash differs from
    the id, for ANY damage to the workspace; it is an error or a correct state point. -/
theorem open_by_id_sound (s : St) (hfile : ∀ c, s.cacheFile = some c → MapInv hash c)
    (id : String) (v : JVal) (hr : (openById hash (newSession s) id).2 = .ok v) : hash v = id :=
  openById_fresh_sound s hfile id v hr

/-- ... and an undamaged job always opens. -/
theorem open_by_id_intact (s : St) (id : String) (d : Dir) (hl : alookup id s.ws = some d)
    (hv : (loadValid hash d id).isSome = true) : ∃ v, (openById hash s id).2 = .ok v :=
  openById_intact s id d hl hv

/-- repair() with every listed job's state point known from the cache (session ∪ cache file):
    nothing is reported, check() passes afterwards, the listing is unchanged and every directory
    keeps its payload (documents and data files are not touched) — for any damage to the state
    point files (missing, unparsable, foreign), any number of jobs. -/
theorem repair_restores_known (s : St) (hc : CacheInv hash s) (hnd : (K s.ws).Nodup)
    (hk : Known hash (readCache s)) :
    (repair hash s).2 = [] ∧ check hash (repair hash s).1 = [] ∧ K (repair hash s).1.ws = K s.ws ∧
    (∀ j d d', alookup j s.ws = some d → alookup j (repair hash s).1.ws = some d' → d'.payload = d.payload) :=
  Cache.repair_restores_known s hc hnd hk

/-- repair() — successful or not, whatever the damage — keeps every entry of the session cache
    and of the cache file sound (a state point read without validation is registered under its
    true id or dropped again). -/
theorem repair_keeps_cache_sound (s : St) (hc : CacheInv hash s) : CacheInv hash (repair hash s).1 :=
  cacheInv_repair s hc

/-- Hence even after repair() followed by update_cache() in the same session, a fresh session
    opening any id gets an error or a state point hashing to that id (this is the sequence on which
    the pinned tree handed out wrong state points, finding F-9d). -/
theorem open_by_id_sound_after_repair (s : St) (hc : CacheInv hash s) (id : String) (v : JVal)
    (hr : (openById hash (newSession (updateCache hash (repair hash s).1).1) id).2 = .ok v) :
    hash v = id :=
  openById_fresh_sound _ (cacheInv_updateCache (cacheInv_repair s hc)).2 id v hr

/-- The stronger reading of "restores" — after repair every payload sits with the state point it
    belonged to — is FALSE of the model (and of the code: known finding F-9b): two directories
    swapped by renaming while the cache knows both ids. -/
def repair_payload_full : Prop :=
  ∀ (s : St), CacheInv (fun v => canonText v) s → (K s.ws).Nodup → Known (fun v => canonText v) (readCache s) →
    ∀ id d v, alookup id s.ws = some d → d.sp = .valid v →
      ∀ id' d', alookup id' (repair (fun v => canonText v) s).1.ws = some d' → d'.payload = d.payload →
        ∃ w, d'.sp = .valid w ∧ canonText w = canonText v

def swapWitness : St :=
  let a : JVal := .obj [("a", .int 1)]
  let b : JVal := .obj [("a", .int 2)]
  { ws := [(canonText a, ⟨.valid b, 2⟩), (canonText b, ⟨.valid a, 1⟩)],
    cacheFile := some [(canonText a, a), (canonText b, b)],
    session := [], cacheRead := false, nextPayload := 3 }

theorem repair_payload_full_false : ¬ repair_payload_full := by
  intro h
  have hc : CacheInv (fun v => canonText v) swapWitness := by
    refine ⟨fun _ _ hm => by simp [swapWitness] at hm, fun c hc => ?_⟩
    simp only [swapWitness, Option.some.injEq] at hc
    subst hc
    intro id v hm
    simp only [List.mem_cons, Prod.mk.injEq, List.mem_nil_iff, or_false] at hm
    rcases hm with ⟨rfl, rfl⟩ | ⟨rfl, rfl⟩ <;> rfl
  have hk : Known (fun v => canonText v) (readCache swapWitness) := by
    intro id hid
    simp only [K, readCache_ws, swapWitness, List.map_cons, List.map_nil, List.mem_cons,
      List.mem_nil_iff, or_false] at hid
    rcases hid with rfl | rfl
    · exact ⟨.obj [("a", .int 1)], by rfl, rfl⟩
    · exact ⟨.obj [("a", .int 2)], by rfl, rfl⟩
  have := h swapWitness hc (by decide) hk
    (canonText (.obj [("a", .int 1)])) ⟨.valid (.obj [("a", .int 2)]), 2⟩ (.obj [("a", .int 2)])
    (by rfl) rfl
    (canonText (.obj [("a", .int 1)])) ⟨.valid (.obj [("a", .int 1)]), 2⟩ (by rfl) rfl
  obtain ⟨w, hw, he⟩ := this
  simp only [SpFile.valid.injEq] at hw
  subst hw
  revert he
  decide

/- non-vacuity of repair_restores_known: a project whose cache lists two jobs, one state point file
   truncated (unparsable), the other deleted. -/
example :
    let a : JVal := .obj [("a", .int 1)]
    let b : JVal := .obj [("b", .str "x")]
    let s : St := { ws := [(canonText a, ⟨.garbage, 1⟩), (canonText b, ⟨.absent, 2⟩)],
                    cacheFile := some [(canonText a, a), (canonText b, b)],
                    session := [], cacheRead := false, nextPayload := 3 }
    (check (fun v => canonText v) s).length = 2 ∧
    (repair (fun v => canonText v) s).2 = [] ∧
    check (fun v => canonText v) (repair (fun v => canonText v) s).1 = [] := by decide

/- ---------- the rename route of repair() ---------- -/

/-- A single renamed directory as the loop of repair() meets it (cache just read): directory `id`
    holds an intact state point file with a mapping whose hash is `id' ≠ id`, the cache (session ∪
    cache file) does not know `id`, and `id'` is not listed.  Then `id` is not reported, it is no
    longer listed, `id'` is listed with the same state point file and the same payload (documents
    and data moved along untouched), and every other entry is unchanged.  (Holds for any state:
    neither the cache invariant nor duplicate-freeness of the listing is needed.) -/
theorem repair_rename_one (s : St) (id id' : String) (d : Dir) (kvs : List (String × JVal))
    (hd : alookup id s.ws = some d) (hsp : d.sp = .valid (.obj kvs))
    (hh : hash (.obj kvs) = id') (hne : id' ≠ id) (hfree : id' ∉ K s.ws)
    (hunk : alookup id (readCache s).session = none) :
    (repairOne hash (readCache s) id).2 = false ∧
    (repairOne hash (readCache s) id).1.ws = aerase id s.ws ++ [(id', d)] ∧
    alookup id (repairOne hash (readCache s) id).1.ws = none ∧
    (∃ d', alookup id' (repairOne hash (readCache s) id).1.ws = some d' ∧
        d'.sp = .valid (.obj kvs) ∧ d'.payload = d.payload) ∧
    (∀ j, j ≠ id → j ≠ id' →
        alookup j (repairOne hash (readCache s) id).1.ws = alookup j s.ws) :=
  Cache.repair_rename_one s id id' d kvs hd hsp hh hne hfree hunk

/-- The hypothesis "destination free" matters: if `id'` is occupied by a non-empty directory, `id`
    is reported as corrupted and no directory changes. -/
theorem repair_rename_blocked (s : St) (id id' : String) (d d2 : Dir) (kvs : List (String × JVal))
    (hd : alookup id s.ws = some d) (hsp : d.sp = .valid (.obj kvs))
    (hh : hash (.obj kvs) = id') (hne : id' ≠ id)
    (hocc : alookup id' s.ws = some d2) (hfull : dirEmpty d2 = false)
    (hunk : alookup id (readCache s).session = none) :
    (repairOne hash (readCache s) id).2 = true ∧ (repairOne hash (readCache s) id).1.ws = s.ws :=
  Cache.repair_rename_blocked s id id' d d2 kvs hd hsp hh hne hocc hfull hunk

/-- ... whereas an EMPTY directory at `id'` (no state point file, no payload) is simply replaced. -/
theorem repair_rename_onto_empty (s : St) (id id' : String) (d d2 : Dir) (kvs : List (String × JVal))
    (hd : alookup id s.ws = some d) (hsp : d.sp = .valid (.obj kvs))
    (hh : hash (.obj kvs) = id') (hne : id' ≠ id)
    (hocc : alookup id' s.ws = some d2) (hempty : dirEmpty d2 = true)
    (hunk : alookup id (readCache s).session = none) :
    (repairOne hash (readCache s) id).2 = false ∧
    (repairOne hash (readCache s) id).1.ws = aset id' d (aerase id s.ws) :=
  Cache.repair_rename_onto_empty s id id' d d2 kvs hd hsp hh hne hocc hempty hunk

/-- The whole of repair(), any number of jobs.  `Repairable hash s` (decidable) says: every listed
    directory is known to the cache (session ∪ cache file) or holds an intact mapping — which then
    hashes to the directory name (intact job) or to another id (renamed job); the destination of a
    renamed directory is not a listed id; no two directories have the same destination.
    `dest hash (readCache s).session e` is the destination of entry `e`: its own id if the cache
    knows it, else the hash of the mapping in its state point file.
    Then repair() reports nothing, check() passes afterwards, and the result lists exactly the
    directories of the start — name/payload pairs are a permutation of destination/payload pairs,
    names are duplicate-free — so every payload appears exactly once, for a renamed directory under
    the hash of its own state point and for every other under its old id, in a directory that
    validates. -/
theorem repair_restores_renamed (s : St) (hc : CacheInv hash s) (hnd : (K s.ws).Nodup)
    (hR : Repairable hash s) :
    (repair hash s).2 = [] ∧ check hash (repair hash s).1 = [] ∧
    (K (repair hash s).1.ws).Nodup ∧
    ((repair hash s).1.ws.map pay).Perm
      (s.ws.map fun e => (dest hash (readCache s).session e, e.2.payload)) ∧
    (∀ e, e ∈ s.ws → ∃ d', alookup (dest hash (readCache s).session e) (repair hash s).1.ws = some d' ∧
        d'.payload = e.2.payload ∧ (loadValid hash d' (dest hash (readCache s).session e)).isSome = true) :=
  Cache.repair_restores_renamed s hc hnd hR

/-- `dest` spelled out for the three kinds of directory. -/
theorem dest_known (sess : List (String × JVal)) (id : String) (d : Dir)
    (h : (alookup id sess).isSome = true) : dest hash sess (id, d) = id := by
  simp [dest, h]

theorem dest_unknown (sess : List (String × JVal)) (id : String) (d : Dir) (kvs : List (String × JVal))
    (h : alookup id sess = none) (hsp : d.sp = .valid (.obj kvs)) :
    dest hash sess (id, d) = hash (.obj kvs) := by
  simp [dest, h, spObj, hsp]

/- non-vacuity of repair_restores_renamed: two jobs, `a` intact, `b` in a directory renamed to
   "moved" (an id the cache does not know); the cache file lists the two original ids. -/
def renameWitness : St :=
  let a : JVal := .obj [("a", .int 1)]
  let b : JVal := .obj [("b", .str "x")]
  { ws := [(canonText a, ⟨.valid a, 1⟩), ("moved", ⟨.valid b, 2⟩)],
    cacheFile := some [(canonText a, a), (canonText b, b)],
    session := [], cacheRead := false, nextPayload := 3 }

example : CacheInv (fun v => canonText v) renameWitness := by
  refine ⟨fun _ _ hm => by simp [renameWitness] at hm, fun c hc => ?_⟩
  simp only [renameWitness, Option.some.injEq] at hc
  subst hc
  intro id v hm
  simp only [List.mem_cons, Prod.mk.injEq, List.mem_nil_iff, or_false] at hm
  rcases hm with ⟨rfl, rfl⟩ | ⟨rfl, rfl⟩ <;> rfl

example :
    let h : JVal → String := fun v => canonText v
    Repairable h renameWitness ∧ (K renameWitness.ws).Nodup ∧
    check h renameWitness = ["moved"] ∧
    (repair h renameWitness).2 = [] ∧
    check h (repair h renameWitness).1 = [] ∧
    (repair h renameWitness).1.ws.map pay =
      [(canonText (.obj [("a", .int 1)]), 1), (canonText (.obj [("b", .str "x")]), 2)] := by decide

/- the negative side on a concrete project: the original directory of `b` still exists (with data),
   next to the renamed copy; repair() reports "moved" and leaves the listing alone. -/
example :
    let h : JVal → String := fun v => canonText v
    let b : JVal := .obj [("b", .str "x")]
    let s : St := { ws := [(canonText b, ⟨.valid b, 1⟩), ("moved", ⟨.valid b, 2⟩)],
                    cacheFile := none, session := [], cacheRead := false, nextPayload := 3 }
    ¬ Repairable h s ∧ (repair h s).2 = ["moved"] ∧
    (repair h s).1.ws.map pay = s.ws.map pay := by decide

/- Why `Repairable` asks an unknown directory to hold a MAPPING rather than merely to validate:
   in the model a directory whose state point file parses to a non-mapping value hashing to the
   directory name passes check() but is reported by repair() (`_get_statepoint(validate=False)`
   yields nothing for it). -/
example :
    let h : JVal → String := fun v => canonText v
    let s : St := { ws := [(canonText (.int 1), ⟨.valid (.int 1), 1⟩)],
                    cacheFile := none, session := [], cacheRead := false, nextPayload := 2 }
    check h s = [] ∧ (repair h s).2 = [canonText (.int 1)] := by decide

end Signac.C09

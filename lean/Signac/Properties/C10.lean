/-
  C10 — documents and the cache file are replaced atomically.
  Property theorems only; helper lemmas live in Signac/Proofs/FsCrash.lean, FsProto.lean;
  the model (steps, crash states, discipline, protocols) is Signac/FsSteps.lean.

  Reading guide.  `crashStates fs steps` is every state a process death can leave (before each
  step, after every proper prefix of every write chunk, after the last step); `f t` is what is
  at path `t` in state `f`; `readLog` is what reader steps placed among the steps see.  All
  statements hold for any content unit `α`, any number and size of chunks, any pre-state `fs`.
-/
import Signac.Proofs.FsProto
namespace Signac.C10
open Signac.Fs
variable {α : Type}

/-- The crash-prefix theorem (DESIGN A.4): when no step of `pre` touches the target, then in every
    crash state of `pre ++ [rename tmp t]` the target holds its old node or exactly what the
    temp file held when the writer finished `pre` — never anything in between. -/
theorem atomic_replace {t tmp : Path} (hu : unrelated tmp t = true) (pre : List (Step α))
    (hpre : ∀ s ∈ pre, touches t s = false) (fs : FS α) :
    ∀ f ∈ crashStates fs (pre ++ [.rename tmp t]), f t = fs t ∨ f t = run fs pre tmp :=
  atomic_replace_core hu pre hpre fs

/-- ... also with trailing steps that leave the target alone. -/
theorem atomic_replace_trailing {t tmp : Path} (hu : unrelated tmp t = true) (pre post : List (Step α))
    (hpre : ∀ s ∈ pre, touches t s = false) (hpost : ∀ s ∈ post, touches t s = false) (fs : FS α) :
    ∀ f ∈ crashStates fs (pre ++ [.rename tmp t] ++ post), f t = fs t ∨ f t = run fs pre tmp := by
  intro f hf
  rcases crashStates_append.mp hf with hf | hf
  · exact atomic_replace_core hu pre hpre fs f hf
  · rw [crash_untouched hpost _ f hf]
    have := run_mem_crashStates fs (pre ++ [.rename tmp t]) []
    rw [List.append_nil] at this
    exact atomic_replace_core hu pre hpre fs _ this

/-- The general discipline (any number of writes to the same target, anything in between):
    if the only steps touching `t` are renames onto `t` of unrelated, closed files, every crash
    state shows the old node or exactly the file some rename moved in, as it was at that rename. -/
theorem atomic_discipline {t : Path} {steps : List (Step α)} (h : AtomicOn t steps = true) (fs : FS α) :
    ∀ f ∈ crashStates fs steps,
      f t = fs t ∨ ∃ pre a post, steps = pre ++ .rename a t :: post ∧ f t = run fs pre a :=
  renameOnly_crash (atomicOn_renameOnly h) fs

/-- Absent target: absent or complete, never an empty or partial file. -/
theorem absent_or_complete {t : Path} {steps : List (Step α)} (h : AtomicOn t steps = true) (fs : FS α)
    (habs : fs t = none) :
    ∀ f ∈ crashStates fs steps,
      f t = none ∨ ∃ pre a post, steps = pre ++ .rename a t :: post ∧ f t = run fs pre a := by
  intro f hf
  rcases atomic_discipline h fs f hf with e | e
  · exact Or.inl (e.trans habs)
  · exact Or.inr e

/-- The state the driver computes for a crash point `(k, p)` is a crash state, and every crash
    state is the state of some crash point — so the theorems speak about what the harness injects. -/
theorem crash_point_is_crash_state (fs : FS α) (steps : List (Step α)) (k p : Nat) :
    crashAt fs steps k p ∈ crashStates fs steps := crashAt_mem fs steps k p

theorem crash_state_is_crash_point {fs f : FS α} {steps : List (Step α)} (h : f ∈ crashStates fs steps) :
    ∃ k p, f = crashAt fs steps k p := crashStates_is_crashAt h

/-- A reader step placed anywhere sees the target's old node or a complete new one. -/
theorem reader_sees_old_or_new {t : Path} {steps : List (Step α)} (h : AtomicOn t steps = true) (fs : FS α)
    {v : Option (Node α)} (hv : (t, v) ∈ readLog fs steps) :
    v = fs t ∨ ∃ pre a post, steps = pre ++ .rename a t :: post ∧ v = run fs pre a := by
  obtain ⟨f, hf, rfl⟩ := readLog_crashState hv
  exact atomic_discipline h fs f hf

/-- "Anywhere": inserting the reader step at any position of a disciplined writer keeps the
    discipline and does not change what the writer does. -/
theorem reader_anywhere {t p : Path} (pre post : List (Step α)) (h : AtomicOn t (pre ++ post) = true)
    (fs : FS α) :
    AtomicOn t (pre ++ .read p :: post) = true ∧ run fs (pre ++ .read p :: post) = run fs (pre ++ post) :=
  ⟨atomicScan_insert_read h, run_insert_read fs p pre post⟩

/-- Whatever differs from the pre-state in a crash state was touched by a step ... -/
theorem crash_changes_only_touched {p : Path} {steps : List (Step α)} {fs f : FS α}
    (hf : f ∈ crashStates fs steps) (hd : f p ≠ fs p) : ∃ s ∈ steps, touches p s = true :=
  crash_diff_touched hf hd

/-- ... so a crashed temp+replace write differs from the pre-state at most at the target and at
    the temp file (`under x p`: `p` is `x` or below it; nothing is below a file). -/
theorem strays_only_tmp {tmp t : Path} (chunks : List (List α)) (fs f : FS α)
    (hf : f ∈ crashStates fs (docWrite tmp t chunks)) (p : Path) (hd : f p ≠ fs p) :
    under t p = true ∨ under tmp p = true := docWrite_strays chunks fs f hf p hd

/-- The temp+replace protocol: satisfies the discipline; every crash state shows the old node or
    the complete blob; a completed write delivers exactly the blob and leaves no temp file. -/
theorem docWrite_atomic {tmp t : Path} (hu : unrelated tmp t = true) (chunks : List (List α)) (fs : FS α) :
    AtomicOn t (docWrite tmp t chunks) = true
    ∧ (∀ f ∈ crashStates fs (docWrite tmp t chunks), f t = fs t ∨ f t = some (.file chunks.flatten))
    ∧ run fs (docWrite tmp t chunks) t = some (.file chunks.flatten)
    ∧ run fs (docWrite tmp t chunks) tmp = none :=
  ⟨docWrite_atomicOn hu chunks, docWrite_crash hu chunks fs, docWrite_delivers hu chunks fs,
   docWrite_no_stray hu chunks fs⟩

/-- A reader at any position of a temp+replace write sees the old node or the complete blob. -/
theorem docWrite_reader {tmp t : Path} (hu : unrelated tmp t = true) (chunks : List (List α)) (fs : FS α)
    (pre post : List (Step α)) (hw : pre ++ post = docWrite tmp t chunks) {v : Option (Node α)}
    (hv : (t, v) ∈ readLog fs (pre ++ .read t :: post)) :
    v = fs t ∨ v = some (.file chunks.flatten) := by
  obtain ⟨f, hf, rfl⟩ := readLog_crashState hv
  obtain ⟨k, p, rfl⟩ := crashStates_is_crashAt hf
  have hmem := crashAt_mem fs (pre ++ .read t :: post) k p
  -- a crash state of the list with the reader is a crash state of the writer alone
  have key : ∀ (xs : List (Step α)) (g : FS α) (f : FS α),
      f ∈ crashStates g (xs ++ .read t :: post) → f ∈ crashStates g (xs ++ post) := by
    intro xs g f h
    rcases crashStates_append.mp h with h | h
    · exact crashStates_append.mpr (Or.inl h)
    · simp only [crashStates, torn, List.cons_append, List.nil_append, List.mem_cons, apply] at h
      rcases h with rfl | h
      · exact crashStates_append.mpr (Or.inr (self_mem_crashStates _ _))
      · exact crashStates_append.mpr (Or.inr h)
  have := key pre fs _ hmem
  rw [hw] at this
  exact docWrite_crash hu chunks fs _ this

/-- `JSONCollection._save_to_resource` (job and project documents, state point file): the temp
    name `._<uuid>_<name>` is a sibling different from the target, so the protocol theorem applies. -/
theorem jsonSave_atomic {t : Path} (ht : t ≠ []) (chunks : List (List α)) (fs : FS α) :
    AtomicOn t (jsonSave t chunks) = true
    ∧ (∀ f ∈ crashStates fs (jsonSave t chunks), f t = fs t ∨ f t = some (.file chunks.flatten))
    ∧ run fs (jsonSave t chunks) t = some (.file chunks.flatten)
    ∧ run fs (jsonSave t chunks) (tmpOf t) = none :=
  docWrite_atomic (tmpOf_unrelated ht) chunks fs

/-- `Project.update_cache`: gzip member chunks to `<name>~`, then replace. -/
theorem cacheWrite_atomic {t : Path} (ht : t ≠ []) (chunks : List (List α)) (fs : FS α) :
    AtomicOn t (cacheWrite t chunks) = true
    ∧ (∀ f ∈ crashStates fs (cacheWrite t chunks), f t = fs t ∨ f t = some (.file chunks.flatten))
    ∧ run fs (cacheWrite t chunks) t = some (.file chunks.flatten)
    ∧ run fs (cacheWrite t chunks) (tildeOf t) = none :=
  docWrite_atomic (tildeOf_unrelated ht) chunks fs

/-- A buffered flush (one temp+replace write per dirty file, files pairwise unrelated): for
    EVERY file of the flush the discipline holds, every crash state shows its old node or its
    complete new blob, and the completed flush delivers every blob. -/
theorem flush_atomic {ws : List (W α)} (hu : pairwiseUnrelated (flushPaths ws) = true) (fs : FS α) :
    ∀ w ∈ ws,
      AtomicOn w.t (flush ws) = true
      ∧ (∀ f ∈ crashStates fs (flush ws), f w.t = fs w.t ∨ f w.t = some (.file w.chunks.flatten))
      ∧ run fs (flush ws) w.t = some (.file w.chunks.flatten) :=
  fun w hw => ⟨flush_atomicOn hu w hw, flush_crash hu fs w hw, flush_delivers hu fs w hw⟩

/-- What the driver establishes on a REAL trace: when `asFlush steps = some ws`, the recorded
    steps are literally a flush over unrelated paths, so the theorem above speaks about them. -/
theorem real_trace_atomic [DecidableEq α] {steps : List (Step α)} {ws : List (W α)}
    (h : asFlush steps = some ws) (fs : FS α) :
    ∀ w ∈ ws,
      AtomicOn w.t steps = true
      ∧ (∀ f ∈ crashStates fs steps, f w.t = fs w.t ∨ f w.t = some (.file w.chunks.flatten))
      ∧ run fs steps w.t = some (.file w.chunks.flatten) := by
  obtain ⟨rfl, hu⟩ := asFlush_sound h
  exact flush_atomic hu fs

/-- The model tells the two protocols apart: writing the target in place violates the discipline
    and has a crash state with a torn target (here: empty), for every old content that is not
    empty and every non-empty new blob. -/
theorem direct_write_not_atomic (t : Path) (old new : List α) (ho : old ≠ []) (hn : new ≠ [])
    (fs : FS α) (hfs : fs t = some (.file old)) :
    AtomicOn t [.create t, .append t new, .close t] = false
    ∧ ∃ f ∈ crashStates fs [.create t, .append t new, .close t],
        f t ≠ fs t ∧ f t ≠ run fs [.create t, .append t new, .close t] t := by
  refine ⟨by simp [AtomicOn, atomicScan, stepOk, touches], apply fs (.create t), ?_, ?_, ?_⟩
  · simp [crashStates]
  · simp [apply, upd, hfs, ho.symm]
  · simp [run, apply, upd, hn.symm]

/-! ### non-vacuity -/

def exT : Path := ["workspace", "42b7", "signac_job_document.json"]
def exCache : Path := [".signac", "statepoint_cache.json.gz"]
def exFs : FS Nat := fun q => if q = exT then some (.file [0]) else if q = exCache then some (.file [9]) else none

/- hypotheses of `atomic_replace` / `atomic_replace_trailing`: a writer with three chunks -/
example : unrelated (tmpOf exT) exT = true
    ∧ (∀ s ∈ ([.create (tmpOf exT), .append (tmpOf exT) [1, 2], .append (tmpOf exT) [], .append (tmpOf exT) [3],
               .close (tmpOf exT)] : List (Step Nat)), touches exT s = false)
    ∧ (∀ s ∈ ([.mkdir ["workspace", "ffff"], .read exT] : List (Step Nat)), touches exT s = false) := by decide

/- hypothesis of `atomic_discipline` / `reader_sees_old_or_new`: two successive writes of the same
   document with a reader and unrelated steps in between; and of `absent_or_complete` -/
example : AtomicOn exT (jsonSave exT [[1, 2], [3]] ++ [.read exT, .mkdir ["x"]] ++ jsonSave exT [[4]]
            : List (Step Nat)) = true
    ∧ (fun _ => none : FS Nat) exT = none := by decide

/- the reader of that trace does occur in the read log, with the complete first blob -/
example : (exT, some (Node.file [1, 2, 3])) ∈
    readLog exFs (jsonSave exT [[1, 2], [3]] ++ [.read exT, .mkdir ["x"]] ++ jsonSave exT [[4]]) := by
  simp [readLog, jsonSave, docWrite, apply, upd, exT, tmpOf, sibling, under]

/- hypotheses of `jsonSave_atomic`, `cacheWrite_atomic`, `flush_atomic`, `real_trace_atomic` -/
example : exT ≠ [] ∧ exCache ≠ [] ∧ tildeOf exCache = [".signac", "statepoint_cache.json.gz~"]
    ∧ tmpOf exT = ["workspace", "42b7", "._TMP_signac_job_document.json"] := by decide

example : pairwiseUnrelated (flushPaths ([⟨tmpOf exT, exT, [[1], [2]]⟩, ⟨tildeOf exCache, exCache, [[3]]⟩] : List (W Nat))) = true
    ∧ asFlush (flush ([⟨tmpOf exT, exT, [[1], [2]]⟩, ⟨tildeOf exCache, exCache, [[3]]⟩] : List (W Nat)))
        = some [⟨tmpOf exT, exT, [[1], [2]]⟩, ⟨tildeOf exCache, exCache, [[3]]⟩] := by decide

/- hypothesis of `docWrite_reader`: a split of the writer -/
example : ([.create (tmpOf exT), .append (tmpOf exT) [1]] : List (Step Nat)) ++ [.close (tmpOf exT), .rename (tmpOf exT) exT]
    = docWrite (tmpOf exT) exT [[1]] := by decide

/- hypotheses of `direct_write_not_atomic` -/
example : ([0] : List Nat) ≠ [] ∧ ([1, 2] : List Nat) ≠ [] ∧ exFs exT = some (.file [0]) := by decide

end Signac.C10

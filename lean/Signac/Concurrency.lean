/-
  Signac.Concurrency — several processes working on one signac project (C12).
  Import-free (core only) so that the driver links.

  Modelled code (read from /repo and the synced_collections dependency):
    signac/project.py  Project.__init__ (workspace creation), __len__/_job_dirs
    signac/job.py      Job.init, _StatePointDict.save / load, Job.document (getter and setter)
    signac/_utility.py _mkdir_p  (+ CPython os.makedirs(exist_ok=True): exists(parent), mkdir, isdir)
    synced_collections JSONCollection._load_from_resource (ENOENT => no data),
                       _save_to_resource (temp file `._<uuid>_<name>` + os.replace),
                       SyncedDict.__setitem__ (_load_and_save), SyncedDict.reset (_update + _save,
                       NO load: the whole-document assignment `job.doc = mapping`)

  A *step* is one file-system primitive as the schedule stepper (harness/sched.py) sees it:
  isdir / isfile / exists / mkdir / read (open+read) / openw / write / close / rename / listdir.
  Every actor is a small deterministic state machine: `next` tells the primitive it is blocked on,
  `resume` consumes the primitive's result.  `sysStep s a` lets actor `a` take exactly that step;
  `run s sched` follows a whole schedule (list of actor indices).

  Not modelled (never written by any actor of the alphabet, hence independent of every step):
  the reads of `.signac/config`, `exists('.')` and the ENOENT read of the state point cache file.
  Temp names carry the actor index: uniqueness of uuid4 names is an assumption.
  `hash : SP → JobId` is a parameter (instantiated with `calcId` in the driver).
-/
namespace Signac.Conc

abbrev JobId := String

inductive Kind where
  | sp | doc
  deriving DecidableEq, Repr

inductive Path where
  | ws
  | jobdir (i : JobId)
  | file (i : JobId) (k : Kind)
  | tmp (i : JobId) (k : Kind) (a : Nat)
  deriving DecidableEq, Repr

def Path.parent : Path → Option Path
  | .ws => none
  | .jobdir _ => some .ws
  | .file i _ => some (.jobdir i)
  | .tmp i _ _ => some (.jobdir i)

abbrev Doc (DV : Type) := List (String × DV)

/-- What a regular file holds.  `torn`: opened for writing, payload not (completely) there. -/
inductive Content (SP DV : Type) where
  | torn
  | spc (v : SP)
  | docc (d : Doc DV)

inductive Node (SP DV : Type) where
  | dir
  | file (c : Content SP DV)

abbrev FS (SP DV : Type) := List (Path × Node SP DV)

variable {SP DV : Type}

def FS.get : FS SP DV → Path → Option (Node SP DV)
  | [], _ => none
  | (q, n) :: r, p => if q = p then some n else FS.get r p

def FS.del (fs : FS SP DV) (p : Path) : FS SP DV := fs.filter (fun e => decide (e.1 ≠ p))

def FS.set (fs : FS SP DV) (p : Path) (n : Node SP DV) : FS SP DV := (p, n) :: fs.del p

/-- ids of the job directories (what `os.listdir(workspace)` shows) -/
def FS.jobs : FS SP DV → List JobId
  | [] => []
  | (.jobdir i, _) :: r => i :: FS.jobs r
  | _ :: r => FS.jobs r

inductive Errno where
  | enoent | eexist | eisdir | enotdir | ebadf
  deriving DecidableEq, Repr

inductive Instr (SP DV : Type) where
  | isdir (p : Path)
  | isfile (p : Path)
  | pexists (p : Path)
  | mkdir (p : Path)
  | read (p : Path)
  | openw (p : Path)
  | write (p : Path) (c : Content SP DV)
  | close (p : Path)
  | rename (p q : Path)
  | listdir (p : Path)

inductive Res (SP DV : Type) where
  | bool (b : Bool)
  | ok
  | err (e : Errno)
  | data (c : Content SP DV)
  | names (l : List JobId)

def parentOk (fs : FS SP DV) (p : Path) : Bool :=
  match p.parent with
  | none => true
  | some q => match fs.get q with
    | some .dir => true
    | _ => false

/-- Semantics of one primitive. -/
def exec (fs : FS SP DV) : Instr SP DV → FS SP DV × Res SP DV
  | .isdir p => match fs.get p with
    | some .dir => (fs, .bool true)
    | _ => (fs, .bool false)
  | .isfile p => match fs.get p with
    | some (.file _) => (fs, .bool true)
    | _ => (fs, .bool false)
  | .pexists p => match fs.get p with
    | some _ => (fs, .bool true)
    | none => (fs, .bool false)
  | .mkdir p => match fs.get p with
    | some _ => (fs, .err .eexist)
    | none => if parentOk fs p then (fs.set p .dir, .ok) else (fs, .err .enoent)
  | .read p => match fs.get p with
    | some (.file c) => (fs, .data c)
    | some .dir => (fs, .err .eisdir)
    | none => (fs, .err .enoent)
  | .openw p => match fs.get p with
    | some .dir => (fs, .err .eisdir)
    | _ => if parentOk fs p then (fs.set p (.file .torn), .ok) else (fs, .err .enoent)
  | .write p c => match fs.get p with
    | some (.file _) => (fs.set p (.file c), .ok)
    | _ => (fs, .err .ebadf)
  | .close _ => (fs, .ok)
  | .rename p q => match fs.get p with
    | some (.file c) => match fs.get q with
      | some .dir => (fs, .err .eisdir)
      | _ => if parentOk fs q then ((fs.del p).set q (.file c), .ok) else (fs, .err .enoent)
    | some .dir => (fs, .err .enotdir)
    | none => (fs, .err .enoent)
  | .listdir p => match fs.get p with
    | some .dir => (fs, .names fs.jobs)
    | some (.file _) => (fs, .err .enotdir)
    | none => (fs, .err .enoent)

/-! ### actors -/

/-- The alphabet of the property.  Every `Op` with a state point uses a fresh job handle. -/
inductive Op (SP DV : Type) where
  | project
  | init (v : SP)
  | docSet (v : SP) (k : String) (x : DV)
  | docGet (v : SP)
  | len
  | docAssign (v : SP) (d : Doc DV)     -- `job.doc = d`: ONE write, no load (see `docStart`)

inductive ProjPc where
  | isdir1 | isdir2 | mkdir | isdir3
  deriving DecidableEq, Repr

inductive IniPc where
  | load1 | isdir | existsWs | mkdir | isdir2 | isfile | load2
  deriving DecidableEq, Repr

inductive SavePc where
  | openw | write | close | rename
  deriving DecidableEq, Repr

inductive Phase (SP DV : Type) where
  | fin
  | proj (n : ProjPc)
  | lite (v : SP)                       -- `job.doc`: init(validate_statepoint=False), isdir check
  | ini (n : IniPc) (v : SP)            -- Job.init
  | save (n : SavePc) (i : JobId) (k : Kind) (c : Content SP DV)   -- temp file + replace
  | dload (v : SP)                      -- document load
  | len

inductive Obs (SP DV : Type) where
  | doc (d : Doc DV)
  | count (n : Nat)

structure AState (SP DV : Type) where
  script : List (Op SP DV)        -- head = operation in progress
  phase : Phase SP DV
  out : List (Obs SP DV)          -- values handed back to the caller, newest first
  failed : Option String          -- some = an exception escaped (the process exits non-zero)

def firstPhase : Op SP DV → Phase SP DV
  | .project => .proj .isdir1
  | .init v => .ini .load1 v
  | .docSet v _ _ => .lite v
  | .docGet v => .lite v
  | .len => .len
  | .docAssign v _ => .lite v

def startNext (st : AState SP DV) : AState SP DV :=
  match st.script with
  | [] => { st with phase := .fin }
  | op :: _ => { st with phase := firstPhase op }

def finishOp (st : AState SP DV) : AState SP DV :=
  startNext { st with script := st.script.tail }

def AState.fail (st : AState SP DV) (why : String) : AState SP DV :=
  { st with phase := .fin, failed := some why }

def AState.goto (st : AState SP DV) (ph : Phase SP DV) : AState SP DV :=
  { st with phase := ph }

/-- An actor process: `Project(path)` first, then the script. -/
def AState.start (script : List (Op SP DV)) : AState SP DV :=
  { script := .project :: script, phase := .proj .isdir1, out := [], failed := none }

/-- Python dict assignment: replace in place or append. -/
def setKV (d : Doc DV) (k : String) (x : DV) : Doc DV :=
  match d with
  | [] => [(k, x)]
  | (k', x') :: r => if k' = k then (k, x) :: r else (k', x') :: setKV r k x

def errName : Errno → String
  | .enoent => "OSError(ENOENT)"
  | .eexist => "OSError(EEXIST)"
  | .eisdir => "OSError(EISDIR)"
  | .enotdir => "OSError(ENOTDIR)"
  | .ebadf => "OSError(EBADF)"

section
variable (hash : SP → JobId)

/-- The job directory is known to exist (`Job.document` has run `init`): go on with the document.
    `doc[k] = x` and `doc()` load the file first (`_load_and_save` / `_load`);
    the whole-document assignment `job.doc = d` does NOT: `Job.document.setter` calls
    `SyncedDict.reset(d)`, which is `_update(d)` on the (fresh, empty) in-memory dict followed by
    `_save()` — no `_load()` — so the save of exactly `d` starts right away. -/
def docStart (st : AState SP DV) (v : SP) : AState SP DV :=
  match st.script with
  | .docAssign _ d :: _ => st.goto (.save .openw (hash v) .doc (.docc d))
  | _ => st.goto (.dload v)

/-- the state point part of `init` is through: go on with the document or finish -/
def afterInit (st : AState SP DV) (v : SP) : AState SP DV :=
  match st.script with
  | .docSet _ _ _ :: _ => st.goto (.dload v)
  | .docGet _ :: _ => st.goto (.dload v)
  | .docAssign _ d :: _ => st.goto (.save .openw (hash v) .doc (.docc d))
  | _ => finishOp st

/-- the primitive actor `a` is blocked on -/
def next (a : Nat) (st : AState SP DV) : Option (Instr SP DV) :=
  match st.phase with
  | .fin => none
  | .proj .isdir1 => some (.isdir .ws)
  | .proj .isdir2 => some (.isdir .ws)
  | .proj .mkdir => some (.mkdir .ws)
  | .proj .isdir3 => some (.isdir .ws)
  | .lite v => some (.isdir (.jobdir (hash v)))
  | .ini .load1 v => some (.read (.file (hash v) .sp))
  | .ini .isdir v => some (.isdir (.jobdir (hash v)))
  | .ini .existsWs _ => some (.pexists .ws)
  | .ini .mkdir v => some (.mkdir (.jobdir (hash v)))
  | .ini .isdir2 v => some (.isdir (.jobdir (hash v)))
  | .ini .isfile v => some (.isfile (.file (hash v) .sp))
  | .ini .load2 v => some (.read (.file (hash v) .sp))
  | .save .openw i k _ => some (.openw (.tmp i k a))
  | .save .write i k c => some (.write (.tmp i k a) c)
  | .save .close i k _ => some (.close (.tmp i k a))
  | .save .rename i k _ => some (.rename (.tmp i k a) (.file i k))
  | .dload v => some (.read (.file (hash v) .doc))
  | .len => some (.listdir .ws)

def resumeProj (st : AState SP DV) (n : ProjPc) (r : Res SP DV) : AState SP DV :=
  match n with
  | .isdir1 => match r with
    | .bool true => finishOp st
    | _ => st.goto (.proj .isdir2)
  | .isdir2 => match r with
    | .bool true => finishOp st
    | _ => st.goto (.proj .mkdir)
  | .mkdir => match r with
    | .ok => finishOp st
    | .err .eexist => st.goto (.proj .isdir3)
    | .err e => st.fail (errName e)
    | _ => st.fail "unmodelled"
  | .isdir3 => match r with
    | .bool true => finishOp st
    | _ => st.fail "OSError(EEXIST)"

def resumeIni (st : AState SP DV) (n : IniPc) (v : SP) (r : Res SP DV) : AState SP DV :=
  match n with
  | .load1 => match r with
    | .data (.spc w) => if hash w = hash v then afterInit hash st v else st.goto (.ini .isdir v)
    | _ => st.goto (.ini .isdir v)            -- missing / torn / foreign: no early exit
  | .isdir => match r with
    | .bool true => st.goto (.ini .isfile v)
    | _ => st.goto (.ini .existsWs v)
  | .existsWs => match r with
    | .bool true => st.goto (.ini .mkdir v)
    | _ => st.fail "unmodelled: workspace vanished"
  | .mkdir => match r with
    | .ok => st.goto (.ini .isfile v)
    | .err .eexist => st.goto (.ini .isdir2 v)
    | .err e => st.fail (errName e)
    | _ => st.fail "unmodelled"
  | .isdir2 => match r with
    | .bool true => st.goto (.ini .isfile v)
    | _ => st.fail "OSError(EEXIST)"
  | .isfile => match r with
    | .bool true => st.goto (.ini .load2 v)           -- save-if-absent: nothing written
    | _ => st.goto (.save .openw (hash v) .sp (.spc v))
  | .load2 => match r with
    | .data (.spc w) => if hash w = hash v then afterInit hash st v else st.fail "JobsCorruptedError"
    | _ => st.fail "JobsCorruptedError"

def resumeSave (st : AState SP DV) (n : SavePc) (i : JobId) (k : Kind) (c : Content SP DV)
    (r : Res SP DV) : AState SP DV :=
  match n with
  | .openw => match r with
    | .ok => st.goto (.save .write i k c)
    | _ => st.fail "unmodelled: save failed"
  | .write => match r with
    | .ok => st.goto (.save .close i k c)
    | _ => st.fail "unmodelled: save failed"
  | .close => match r with
    | .ok => st.goto (.save .rename i k c)
    | _ => st.fail "unmodelled: save failed"
  | .rename => match r with
    | .ok => match k, c with
      | .sp, .spc v => st.goto (.ini .load2 v)
      | .doc, _ => finishOp st
      | _, _ => st.fail "unmodelled"
    | _ => st.fail "unmodelled: save failed"

def resumeDload (st : AState SP DV) (v : SP) (d : Doc DV) : AState SP DV :=
  match st.script with
  | .docSet _ k x :: _ => st.goto (.save .openw (hash v) .doc (.docc (setKV d k x)))
  | .docGet _ :: _ => finishOp { st with out := .doc d :: st.out }
  | _ => st.fail "unmodelled"

/-- consume the result of the primitive -/
def resume (st : AState SP DV) (r : Res SP DV) : AState SP DV :=
  match st.phase with
  | .fin => st
  | .proj n => resumeProj st n r
  | .lite v => match r with
    | .bool true => docStart hash st v           -- directory exists: init is skipped entirely
    | _ => st.goto (.ini .load1 v)
  | .ini n v => resumeIni hash st n v r
  | .save n i k c => resumeSave st n i k c r
  | .dload v => match r with
    | .data (.docc d) => resumeDload hash st v d
    | .err .enoent => resumeDload hash st v []    -- no file: empty document
    | _ => st.fail "JSONDecodeError"
  | .len => match r with
    | .names l => finishOp { st with out := .count l.length :: st.out }
    | _ => st.fail "unmodelled: listdir failed"

structure Sys (SP DV : Type) where
  fs : FS SP DV
  actors : List (AState SP DV)

/-- actor `a` takes its next step (nothing happens if it has finished or does not exist) -/
def sysStep (s : Sys SP DV) (a : Nat) : Sys SP DV :=
  match s.actors[a]? with
  | none => s
  | some st => match next hash a st with
    | none => s
    | some ins => match exec s.fs ins with
      | (fs', r) => { fs := fs', actors := s.actors.set a (resume hash st r) }

def run (s : Sys SP DV) : List Nat → Sys SP DV
  | [] => s
  | a :: rest => run (sysStep hash s a) rest

/-- the same, recording what happened (for the correspondence with real step traces) -/
def runTrace (s : Sys SP DV) : List Nat → List (Nat × Instr SP DV × Res SP DV) × Sys SP DV
  | [] => ([], s)
  | a :: rest =>
    match s.actors[a]? with
    | none => runTrace s rest
    | some st => match next hash a st with
      | none => runTrace s rest
      | some ins =>
        let r := (exec s.fs ins).2
        let (t, s') := runTrace (sysStep hash s a) rest
        ((a, ins, r) :: t, s')

end

def AllDone (s : Sys SP DV) : Prop := ∀ st ∈ s.actors, st.phase = .fin

def NoFailure (s : Sys SP DV) : Prop := ∀ st ∈ s.actors, st.failed = none

end Signac.Conc

/-
  Signac.LinkedView — `Project.create_linked_view` (signac/linked_view.py) and the part of
  signac/import_export.py / schema.py / _search_indexer.py it rests on.  Import-free (core only).

  Modelled code
    linked_view.create_linked_view   separator check, path function, `links`, validity check
    import_export._make_path_function / _make_schema_based_path_function /
                  _check_path_function_unique / _check_directory_structure_validity
    schema._build_job_statepoint_index + _SearchIndexer.build_index (per-key value slots)
    linked_view._analyze_view / _find_all_links / _build_tree / _color_path /
                _find_dead_branches / _update_view / _make_link

  A view is a finite map  normalised relative path ↦ directory | symlink(target job id);
  the view root itself is implicit.  `updateView` is the list of file-system steps the code
  performs (remove obsolete deepest first, remove changed, mkdir -p + symlink), run on that map
  with the error behaviour of unlink / rmdir / makedirs / symlink.

  The model is the code as it stands after the fix commits for the seven defects this check found
  (proposed/F-16b-view.md, F-16c-view.md, F-17a.md … F-17d.md describe the first six):
    F-16b  auto paths are checked for uniqueness            (`pathStrings`, branch `.auto`)
    F-16c  leaf/node check independent of the order          (`structureValid` is two-pass)
    F-17a  existing paths are normalised ("./job" = "job")   (`findAllLinks` yields view paths)
    F-17b  an empty selection links nothing                  (no "./job" fallback)
    F-17c  a path that changes kind (link <-> directory) is replaced
           (`stale` links are removed, changed entries are removed with unlink-or-rmdir)
    F-17d  a link path that is absolute or contains ".." is refused (`escapes`, RuntimeError)
    F-17e  link paths are normalised (`normpath`) before the checks, and a normalised link path
           generated for two jobs is refused ("d/" and "d/." name the same place; "./job" was
           not recognised on the next run)            (`linkKey`, `keysUnique`)
-/
import Signac.Json
import Signac.PyVal
namespace Signac.LV
open Signac

abbrev Path := List String

/-- name of the link that stands for a job (`leaf="job"`) -/
def leaf : String := "job"

/-! ## strings and paths (posixpath) -/

def sepChar : Char := '/'

/-- `s.split('/')` -/
def splitOnSep (cs : List Char) : List (List Char) :=
  match cs with
  | [] => [[]]
  | c :: rest =>
    if c = sepChar then [] :: splitOnSep rest
    else match splitOnSep rest with
      | [] => [[c]]
      | w :: ws => (c :: w) :: ws

def splitSep (s : String) : Path := (splitOnSep s.toList).map String.ofList

def joinWith (sep : String) : List String → String
  | [] => ""
  | [x] => x
  | x :: y :: rest => x ++ sep ++ joinWith sep (y :: rest)

def hasSep (s : String) : Bool := s.toList.contains sepChar

def startsWithSep (s : String) : Bool := s.toList.head? == some sepChar
def endsWithSep (s : String) : Bool := s.toList.getLast? == some sepChar

/-- `posixpath.join(a, b)` -/
def osJoin2 (a b : String) : String :=
  if startsWithSep b then b
  else if a.isEmpty || endsWithSep a then a ++ b
  else a ++ "/" ++ b

/-- `posixpath.join(x, *xs)` -/
def osJoin : List String → String
  | [] => ""
  | x :: xs => xs.foldl osJoin2 x

/-- component loop of `posixpath.normpath` for a relative path -/
def normComps : List String → List String → List String
  | acc, [] => acc.reverse
  | acc, c :: cs =>
    if c = "" || c = "." then normComps acc cs
    else if c != ".." then normComps (c :: acc) cs
    else match acc with
      | [] => normComps [c] cs
      | a :: acc' => if a = ".." then normComps (c :: acc) cs else normComps acc' cs

/-- component loop of `posixpath.normpath` for an absolute path: ".." at the root is dropped
    (so the stack never holds "..") -/
def normCompsAbs : List String → List String → List String
  | acc, [] => acc.reverse
  | acc, c :: cs =>
    if c = "" || c = "." then normCompsAbs acc cs
    else if c != ".." then normCompsAbs (c :: acc) cs
    else normCompsAbs acc.tail cs

/-- the leading separators `normpath` keeps: exactly two stay two (POSIX), any other number
    becomes one -/
def leadSlashes : List Char → String
  | '/' :: '/' :: '/' :: _ => "/"
  | '/' :: '/' :: _ => "//"
  | _ => "/"

/-- `posixpath.normpath` -/
def normpath (s : String) : String :=
  if startsWithSep s then
    leadSlashes s.toList ++ joinWith "/" (normCompsAbs [] (splitSep s))
  else
    let r := joinWith "/" (normComps [] (splitSep s))
    if r.isEmpty then "." else r

/-- the location in the view that a raw '/'-joined path names: "" and "." components vanish -/
def fsPath (p : Path) : Path := p.filter (fun c => !(c = "" || c = "."))

/-! ## per-key index of the selected state points (schema.py / _search_indexer.py) -/

structure Job where
  id : String
  sp : List (String × JVal)

/- `_nested_dicts_to_dotted_keys`: the dotted keys of one state point (an empty mapping is a
    leaf, a non-empty one is descended into) -/
mutual
  def dottedKeysVal (key : String) : JVal → List String
    | .obj kvs => match kvs with
      | [] => [key]
      | _ :: _ => dottedKeysObj key kvs
    | _ => [key]
  def dottedKeysObj (key : String) : List (String × JVal) → List String
    | [] => []
    | (k, v) :: rest => dottedKeysVal (key ++ "." ++ k) v ++ dottedKeysObj key rest
end

def dottedKeysTop : List (String × JVal) → List String
  | [] => []
  | (k, v) :: rest => dottedKeysVal k v ++ dottedKeysTop rest

/-- `v = doc; for n in nodes: v = v[n]` (KeyError / TypeError = `none`) -/
def navigate : List String → JVal → Option JVal
  | [], v => some v
  | n :: ns, .obj kvs => match lookupKV n kvs with
    | some w => navigate ns w
    | none => none
  | _ :: _, _ => none

/-- a slot key of `_TypedSetDefaultDict`: the dict placeholder or a hashable value -/
inductive Slot where
  | dict
  | val (v : JVal)

/-- same dict slot: Python `==` plus equal hash; a top-level float (`_float`, hash + 1) only
    meets floats (the single exception -2.0 / -2 is outside the generated domain) -/
def slotEq : Slot → Slot → Bool
  | .dict, .dict => true
  | .val (.flt n e _), .val (.flt n' e' _) => numEq (n, e) (n', e')
  | .val (.flt _ _ _), .val _ => false
  | .val _, .val (.flt _ _ _) => false
  | .val a, .val b => pyEq a b
  | _, _ => false

abbrev Index := List (Slot × List String)

def indexAdd (s : Slot) (id : String) : Index → Index
  | [] => [(s, [id])]
  | (s', ids) :: rest =>
    if slotEq s' s then (s', if ids.contains id then ids else ids ++ [id]) :: rest
    else (s', ids) :: indexAdd s id rest

def slotOf : JVal → Slot
  | .obj _ => .dict
  | v => .val v

def splitOnDot : List Char → List (List Char)
  | [] => [[]]
  | c :: rest =>
    if c = '.' then [] :: splitOnDot rest
    else match splitOnDot rest with
      | [] => [[c]]
      | w :: ws => (c :: w) :: ws

def splitDotsS (s : String) : List String := (splitOnDot s.toList).map String.ofList

/-- `_SearchIndexer.build_index("sp." ++ key)` over the selected jobs, in their order: the first
    value seen for a slot is its representative, slots keep first-seen order -/
def buildIndex (key : String) (jobs : List Job) : Index :=
  jobs.foldl (fun ix j =>
    match navigate (splitDotsS key) (.obj j.sp) with
    | some v => indexAdd (slotOf v) j.id ix
    | none => ix) []

def dedupStr : List String → List String
  | [] => []
  | x :: xs => x :: (dedupStr xs).filter (· != x)

/-- all dotted keys occurring in the selection -/
def allKeys (jobs : List Job) : List String :=
  dedupStr (jobs.flatMap (fun j => dottedKeysTop j.sp))

def insertKey (k : Nat × String) : List (Nat × String) → List (Nat × String)
  | [] => [k]
  | k' :: rest =>
    if k.1 < k'.1 || (k.1 = k'.1 && k.2 < k'.2) then k :: k' :: rest
    else k' :: insertKey k rest

/-- `sorted(indexes, key=lambda key: (len(indexes[key]), key))` -/
def sortKeys : List (Nat × String) → List (Nat × String)
  | [] => []
  | k :: rest => insertKey k (sortKeys rest)

def distinctIds (jobs : List Job) : Nat := (dedupStr (jobs.map (·.id))).length

/-- the keys that take part in the automatic path, in path order, each with its index
    (constants excluded, dict placeholder removed) -/
def pathKeys (jobs : List Job) : List (String × Index) :=
  let ixs := (allKeys jobs).map (fun k => (k, buildIndex k jobs))
  let order := sortKeys (ixs.map (fun e => (e.2.length, e.1)))
  order.filterMap (fun nk =>
    match ixs.find? (fun e => e.1 == nk.2) with
    | none => none
    | some (k, ix) =>
      let const := match ix with
        | [(_, ids)] => ids.length == distinctIds jobs
        | _ => false
      if const then none
      else some (k, ix.filter (fun e => match e.1 with | .dict => false | .val _ => true)))

/-! ### `str(value)` of a slot representative -/

/-- characters whose `repr` inside a tuple is the character itself -/
def reprSafeChar (c : Char) : Bool :=
  c != '\'' && c != '\\' && ((32 ≤ c.toNat && c.toNat < 127) || c = 'é' || c = 'ü' || c = 'λ' || c = '中')

mutual
  /-- `repr` of an element of a tuple -/
  def tupElemRepr : JVal → String
    | .str s => "'" ++ s ++ "'"
    | .null => "None"
    | .bool true => "True"
    | .bool false => "False"
    | .int i => toString i
    | .flt _ _ r => r
    | .arr xs => tupRepr xs
    | .obj _ => "{...}"
  def tupRepr : List JVal → String
    | [] => "()"
    | [x] => "(" ++ tupElemRepr x ++ ",)"
    | x :: y :: rest => "(" ++ tupElemRepr x ++ ", " ++ tupReprTail (y :: rest)
  def tupReprTail : List JVal → String
    | [] => ")"
    | [x] => tupElemRepr x ++ ")"
    | x :: y :: rest => tupElemRepr x ++ ", " ++ tupReprTail (y :: rest)
end

mutual
  /-- can the model spell `str(v)`?  (strings inside lists only over `reprSafeChar`, no mapping
      inside a list) -/
  def strModelled : JVal → Bool
    | .arr xs => elemsModelled xs
    | _ => true
  def elemModelled : JVal → Bool
    | .str s => s.toList.all reprSafeChar
    | .arr xs => elemsModelled xs
    | .obj _ => false
    | _ => true
  def elemsModelled : List JVal → Bool
    | [] => true
    | x :: xs => elemModelled x && elemsModelled xs
end

/-- `str(value)` for an index key (lists were made tuples by `_to_hashable`) -/
def valueStr : JVal → String
  | .arr xs => tupRepr xs
  | v => pyStr v

/-- path tokens `key, str(value), …` of one job; `none` = the job occurs under no varying key
    (`paths[job.id]` raises KeyError) -/
def autoTokens (keys : List (String × Index)) (exclude : List String) (id : String) :
    Option (List String) :=
  let toks := keys.flatMap (fun (k, ix) =>
    if exclude.contains k then []
    else match ix.find? (fun e => e.2.contains id) with
      | some (.val v, _) => [k, valueStr v]
      | _ => [])
  if toks.isEmpty then none else some toks

/-- `_make_schema_based_path_function(jobs, exclude_keys)(job, sep)` -/
def autoPath (jobs : List Job) (exclude : List String) (sep : Option String) (id : String) :
    Option String :=
  if jobs.length ≤ 1 then some ""
  else match autoTokens (pathKeys jobs) exclude id with
    | none => none
    | some toks => match sep with
      | some s => if s.isEmpty then some (normpath (osJoin toks)) else some (normpath (joinWith s toks))
      | none => some (normpath (osJoin toks))

/-! ## format-string paths (fragment of `str.format`) -/

inductive Seg where
  | lit (s : String)
  | field (name : String) (spec : String)
  deriving Repr

/-- `Formatter().parse` for literal text, `{{`, `}}`, `{name}` and `{name:spec}`; conversions
    (`!r`), indexing (`[`), nested fields and lone braces are outside the fragment (`none`) -/
def parseFmt : Nat → List Char → Option (List Seg)
  | 0, _ => none
  | _, [] => some []
  | fuel + 1, '{' :: '{' :: rest => (parseFmt fuel rest).map (Seg.lit "{" :: ·)
  | fuel + 1, '}' :: '}' :: rest => (parseFmt fuel rest).map (Seg.lit "}" :: ·)
  | _, '}' :: _ => none
  | fuel + 1, '{' :: rest =>
    let name := rest.takeWhile (fun c => c != ':' && c != '}')
    let after := rest.dropWhile (fun c => c != ':' && c != '}')
    if name.any (fun c => c = '{' || c = '!' || c = '[') then none
    else match after with
      | '}' :: rest' => (parseFmt fuel rest').map (Seg.field (String.ofList name) "" :: ·)
      | ':' :: rest' =>
        let spec := rest'.takeWhile (· != '}')
        if spec.any (· = '{') then none
        else match rest'.dropWhile (· != '}') with
          | '}' :: rest'' =>
            (parseFmt fuel rest'').map (Seg.field (String.ofList name) (String.ofList spec) :: ·)
          | _ => none
      | _ => none
  | fuel + 1, c :: rest => (parseFmt fuel rest).map (Seg.lit (String.singleton c) :: ·)

def parseFormat (s : String) : Option (List Seg) := parseFmt (s.length + 1) s.toList

inductive FmtRes where
  | ok (s : String)
  | fail            -- the real code raises (any exception becomes _SchemaPathEvaluationError)
  | unmodelled      -- outside the modelled fragment
  deriving Repr

def isScalar : JVal → Bool
  | .arr _ => false
  | .obj _ => false
  | _ => true

/-- value of one replacement field in the first pass `path.format(job=job, **job.statepoint)` -/
def field1 (j : Job) (withKeys : Bool) (name spec : String) : FmtRes :=
  let scalar (v : Option JVal) : FmtRes :=
    match v with
    | none => .fail
    | some (.obj _) => if spec.isEmpty then .fail else .unmodelled  -- "{…}" never survives the second pass
    | some v => if isScalar v then (if spec.isEmpty then .ok (pyStr v) else .unmodelled) else .unmodelled
  match splitDotsS name with
  | ["job"] => if spec.isEmpty then .ok j.id else .fail
  | ["job", "id"] => if spec.isEmpty then .ok j.id else .unmodelled
  | "job" :: "sp" :: k :: ks => scalar (navigate (k :: ks) (.obj j.sp))
  | "job" :: "statepoint" :: k :: ks => scalar (navigate (k :: ks) (.obj j.sp))
  | "job" :: _ => .unmodelled
  | [k] => if k.isEmpty then .unmodelled else if withKeys then scalar (lookupKV k j.sp) else .fail
  | _ => .unmodelled

def fmtPass (f : String → String → FmtRes) : List Seg → FmtRes
  | [] => .ok ""
  | .lit s :: rest => match fmtPass f rest with
    | .ok r => .ok (s ++ r)
    | e => e
  | .field n sp :: rest => match f n sp with
    | .ok a => (match fmtPass f rest with
      | .ok r => .ok (a ++ r)
      | e => e)
    | e => e

/-- how `create_linked_view(path=…)` is called -/
inductive PathSpec where
  | auto                 -- path=None
  | byId                 -- path=False
  | fmt (s : String)     -- path="…"

/-- the custom path function of `_make_path_function` (two formatting passes) -/
def fmtPath (jobs : List Job) (spec : String) (j : Job) : FmtRes :=
  match parseFormat spec with
  | none => .unmodelled
  | some segs =>
    let exclude := segs.filterMap (fun s => match s with | .field n _ => some n | .lit _ => none)
    let withKeys := (lookupKV "job" j.sp).isNone
    match fmtPass (field1 j withKeys) segs with
    | .ok ret =>
      (match parseFormat ret with
       | none => .unmodelled
       | some segs2 =>
         fmtPass (fun n sp =>
           if n = "auto" then
             match autoPath jobs exclude (some sp) j.id with
             | some p => .ok p
             | none => .fail
           else if (splitDotsS n).head? == some "auto" then .unmodelled
           else .fail) segs2)
    | e => e

/-! ## `create_linked_view`: checks and link set -/

inductive Reject where
  | runtime       -- RuntimeError
  | schemaEval    -- _SchemaPathEvaluationError (a RuntimeError raised by a format-string path)
  deriving Repr, DecidableEq

inductive LinkRes where
  | ok (links : List (Path × String))
  | reject (e : Reject)
  | unmodelled

/-- `bad_items`: a top-level key or a top-level string value contains the separator -/
def jobHasSep (j : Job) : Bool :=
  j.sp.any (fun (k, v) => hasSep k || (match v with | .str s => hasSep s | _ => false))

def sepFree (jobs : List Job) : Bool := !jobs.any jobHasSep

/-- `Counter(path_function(job) for job in jobs)` has no count > 1 -/
def pathsUnique : List String → Bool
  | [] => true
  | p :: ps => !ps.contains p && pathsUnique ps

/-- proper component-wise prefix -/
def properPrefix (p q : Path) : Bool := p.isPrefixOf q && p.length < q.length

/-- all non-empty proper prefixes `tokens[:i]`, `1 ≤ i < len(tokens)` -/
def properPrefixes : Path → List Path
  | [] => []
  | [_] => []
  | c :: d :: rest => [c] :: (properPrefixes (d :: rest)).map (c :: ·)

/-- `_check_directory_structure_validity` (two-pass = order independent since the F-16c fix):
    no path equals a proper prefix of a path -/
def structureValid (paths : List Path) : Bool :=
  let check := paths.flatMap properPrefixes
  !paths.any (fun p => check.contains p)

def collectPaths (f : Job → FmtRes) : List Job → Option (Option (List String))
  | [] => some (some [])
  | j :: rest => match f j with
    | .unmodelled => none
    | .fail => some none
    | .ok p => match collectPaths f rest with
      | none => none
      | some none => some none
      | some (some ps) => some (some (p :: ps))

mutual
  def spModelled : JVal → Bool
    | .obj kvs => objModelled kvs
    | v => strModelled v
  def objModelled : List (String × JVal) → Bool
    | [] => true
    | (k, v) :: rest => !(k.toList.contains '.') && !k.isEmpty && spModelled v && objModelled rest
end

/-- `path_function(job)` for every selected job, with the uniqueness check of
    `_make_path_function` (for automatic paths too, since the F-16b fix).  Outer `none` = outside the
    modelled fragment. -/
def pathStrings (jobs : List Job) (spec : PathSpec) : Option (Except Reject (List String)) :=
  match spec with
  | .byId => some (.ok (jobs.map (·.id)))
  | .auto =>
    (match collectPaths (fun j => match autoPath jobs [] none j.id with
                                  | some p => .ok p
                                  | none => .fail) jobs with
     | none => none
     | some none => some (.error .runtime)
     | some (some ps) => if pathsUnique ps then some (.ok ps) else some (.error .runtime))
  | .fmt s =>
    (match collectPaths (fmtPath jobs s) jobs with
     | none => none
     | some none => some (.error .schemaEval)
     | some (some ps) => if pathsUnique ps then some (.ok ps) else some (.error .runtime))

/-- `os.path.normpath(os.path.join(path_function(job), "job"))`, split at the separator
    (normalised since the F-17e fix) -/
def linkKey (p : String) : Path := splitSep (normpath (osJoin2 p leaf))

/-- `if paths in links: raise RuntimeError`: no normalised link path is generated twice -/
def keysUnique : List Path → Bool
  | [] => true
  | k :: ks => !ks.contains k && keysUnique ks

/-- absolute, or with a ".." component (refused since the F-17d fix) -/
def escapes (k : Path) : Bool := k.contains ".." || k.head? == some ""

/-- the `links` dictionary of `create_linked_view`:  normalised '/'-split link path ↦ job id;
    a link path generated for two jobs, an absolute one or one with "..", and a path that is
    both a link and a directory are refused (RuntimeError) -/
def createLinks (jobs : List Job) (spec : PathSpec) : LinkRes :=
  if !jobs.all (fun j => objModelled j.sp) || !pathsUnique (jobs.map (·.id)) then .unmodelled
  else if !sepFree jobs then .reject .runtime
  else
    match pathStrings jobs spec with
    | none => .unmodelled
    | some (.error e) => .reject e
    | some (.ok ps) =>
      if !keysUnique (ps.map linkKey) then .reject .runtime
      else if (ps.map linkKey).any escapes then .reject .runtime
      else if !structureValid (ps.map linkKey) then .reject .runtime
      else .ok ((ps.map linkKey).zip (jobs.map (·.id)))

/-! ## the view directory as a finite map, and the file-system primitives used on it -/

inductive Entry where
  | dir
  | link (tgt : String)
  deriving DecidableEq, Repr

/-- association list  normalised path (relative to the view root, non-empty) ↦ entry -/
abbrev View := List (Path × Entry)

def vget : View → Path → Option Entry
  | [], _ => none
  | (q, e) :: rest, p => if q = p then some e else vget rest p

def verase (v : View) (p : Path) : View := v.filter (fun x => !(x.1 = p))

def vput (v : View) (p : Path) (e : Entry) : View := (p, e) :: verase v p

/-- some entry lies strictly below `p` -/
def hasChild (v : View) (p : Path) : Bool := v.any (fun x => properPrefix p x.1)

inductive FsErr where
  | noEnt      -- ENOENT
  | notEmpty   -- ENOTEMPTY
  | exist      -- EEXIST
  | notDir     -- a symbolic link where a directory is needed
  deriving DecidableEq, Repr

/-- `try: os.unlink(p)  except OSError: os.rmdir(p)` -/
def unlinkOrRmdir (p : Path) (v : View) : Except FsErr View :=
  match vget v p with
  | some (.link _) => .ok (verase v p)
  | some .dir => if hasChild v p then .error .notEmpty else .ok (verase v p)
  | none => .error .noEnt

/-- `os.makedirs(pre/c1/…/cn, exist_ok=True)` given that `pre` exists -/
def mkdirP : Path → List String → View → Except FsErr View
  | _, [], v => .ok v
  | pre, c :: cs, v =>
    match vget v (pre ++ [c]) with
    | none => mkdirP (pre ++ [c]) cs (vput v (pre ++ [c]) .dir)
    | some .dir => mkdirP (pre ++ [c]) cs v
    | some (.link _) => .error .notDir

/-- `_make_link`: `_mkdir_p(dirname(dst))`, `os.symlink(src, dst)` -/
def makeLink (p : Path) (tgt : String) (v : View) : Except FsErr View :=
  match mkdirP [] p.dropLast v with
  | .error e => .error e
  | .ok v' =>
    match vget v' p with
    | none => if p = [] then .error .exist else .ok (vput v' p (.link tgt))
    | some _ => .error .exist

/-! ## the tree of existing paths: `_build_tree`, `_color_path`, `_find_dead_branches` -/

inductive Trie where
  | node (colored : Bool) (kids : List (String × Trie))

/-- `get_child(name)` followed by `f` on the child; a missing child is created uncoloured at
    the end (dict insertion order) -/
def modifyKid (n : String) (f : Trie → Trie) : List (String × Trie) → List (String × Trie)
  | [] => [(n, f (.node false []))]
  | (m, t) :: ks => if m = n then (m, f t) :: ks else (m, t) :: modifyKid n f ks

/-- walk `path` from the root creating nodes; with `col` every node on the way (the root
    included) is coloured (`_color_path`), without it this is one round of `_build_tree` -/
def touch (col : Bool) : List String → Trie → Trie
  | [], .node c ks => .node (c || col) ks
  | n :: rest, .node c ks => .node (c || col) (modifyKid n (touch col rest) ks)

def buildTree (paths : List Path) : Trie := paths.foldl (fun t p => touch false p t) (.node false [])

def colorAll (paths : List Path) (t : Trie) : Trie := paths.foldl (fun t p => touch true p t) t

mutual
  /-- `_find_dead_branches`: children first, then the node itself when it is not coloured;
      `branch` is the list of names from the root -/
  def deadBranches (branch : Path) : Trie → List Path
    | .node c ks => deadKids branch ks ++ (if c then [] else [branch])
  def deadKids (branch : Path) : List (String × Trie) → List Path
    | [] => []
    | (n, t) :: ks => deadBranches (branch ++ [n]) t ++ deadKids branch ks
end

/-! ## `_analyze_view` and `_update_view` -/

/-- `_find_all_links` + `normpath(join(p, leaf))`: the view paths of all entries called `job`
    (links, and directories that happen to carry that name) -/
def findAllLinks (v : View) : List Path :=
  (v.filter (fun x => x.1.getLast? == some leaf)).map (·.1)

def dedupPaths : List Path → List Path
  | [] => []
  | x :: xs => x :: (dedupPaths xs).filter (fun y => !(y = x))

def lenGe (a b : Path) : Bool := decide (b.length ≤ a.length)

def linkTarget (links : List (Path × String)) (p : Path) : Option String :=
  match links with
  | [] => none
  | (q, t) :: rest => if q = p then some t else linkTarget rest p

def isLinkAt (v : View) (p : Path) : Bool :=
  match vget v p with
  | some (.link _) => true
  | _ => false

structure Plan where
  obsolete : List Path   -- dead branches, deepest first
  stale : List Path      -- existing links that must give way to a directory (F-17c fix)
  toUpdate : List Path   -- existing paths that stay but are not the right link
  fresh : List Path      -- link paths that do not exist yet

def analyzeView (v : View) (links : List (Path × String)) : Plan :=
  let keys := links.map (·.1)
  let existing := dedupPaths (findAllLinks v)
  let tree := colorAll keys (buildTree existing)
  let dead := (deadBranches [] tree).filter (fun b => !(b = []) && !(b = ["."]))
  let obsolete := dead.mergeSort lenGe
  let stale := existing.filter (fun p => isLinkAt v p && !keys.contains p && !obsolete.contains p)
  let keep := existing.filter (fun p => keys.contains p)
  let fresh := keys.filter (fun p => !existing.contains p)
  let toUpdate := keep.filter (fun p =>
    match linkTarget links p with
    | some t => !(vget v p = some (.link t))
    | none => false)
  { obsolete := obsolete, stale := stale, toUpdate := toUpdate, fresh := fresh }

inductive Step where
  | remove (p : Path)                 -- unlink, or rmdir when it is a directory
  | mklink (p : Path) (tgt : String)  -- mkdir -p of the parent + symlink
  deriving Repr

def runStep : Step → View → Except FsErr View
  | .remove p, v => unlinkOrRmdir p v
  | .mklink p t, v => makeLink p t v

/-- run the steps in order; on the first failing step stop and report it together with the
    view as it is at that moment -/
def runSteps : List Step → View → View × Option FsErr
  | [], v => (v, none)
  | s :: rest, v =>
    match runStep s v with
    | .ok v' => runSteps rest v'
    | .error e => (v, some e)

/-- the steps of `_update_view` -/
def viewSteps (v : View) (links : List (Path × String)) : List Step :=
  let pl := analyzeView v links
  (pl.obsolete ++ pl.stale ++ pl.toUpdate).map Step.remove ++
  (pl.fresh ++ pl.toUpdate).filterMap (fun p =>
    match linkTarget links p with
    | some t => some (Step.mklink (fsPath p) t)
    | none => none)

def updateView (v : View) (links : List (Path × String)) : View × Option FsErr :=
  runSteps (viewSteps v links) v

inductive Outcome where
  | done                      -- returned normally
  | rejected (e : Reject)     -- raised before touching the view
  | failed (e : FsErr)        -- OSError while updating
  | unmodelled
  deriving Repr

/-- `create_linked_view(project, prefix, job_ids, path)` on an existing view -/
def createView (v : View) (jobs : List Job) (spec : PathSpec) : View × Outcome :=
  match createLinks jobs spec with
  | .unmodelled => (v, .unmodelled)
  | .reject e => (v, .rejected e)
  | .ok links =>
    match updateView v links with
    | (v', none) => (v', .done)
    | (v', some e) => (v', .failed e)

end Signac.LV

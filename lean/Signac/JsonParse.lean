/-
  Signac.JsonParse — the JSON READER of the model: a total, executable parser for the texts
  `json.dumps` writes (`encChars` in Signac/Json.lean), tolerant of JSON whitespace between
  tokens.  Objects are read as association lists in the order written, duplicates kept
  (`json.loads(..., object_pairs_hook=list)`); dict semantics is `canon`'s business.

  Modelled code: `json.loads` as used by signac when it reads `signac_statepoint.json`
  (`_StatePointDict.load`, `Job.init` validation) and by a write/read round trip of a state point.

  Floats: a number token that is not an integer token is kept as text `r` and becomes
  `.flt n e r` with `(n, e) = fv r`; `fv` is the harness' reading of the token (CPython `float(r)`
  as an exact dyadic), a parameter exactly as in the injectivity theorems of C01.

  Deliberate restrictions (all on inputs `json.dumps` never produces):
    * integer tokens must be in `str(int)` form ("-0", "01", "+1" are rejected; `json.loads`
      accepts "-0"),
    * a lone `\uD800`–`\uDFFF` escape is rejected (a Lean `Char` cannot be a surrogate; Python
      would produce a lone surrogate code point),
    * raw control characters (< 0x20) inside strings are rejected (`json.loads` strict mode).
  Core only (imports the model files Signac.Json and Signac.FloatTok).
-/
import Signac.Json
import Signac.FloatTok
namespace Signac

/-! ### whitespace -/

def isWs (c : Char) : Bool := c = ' ' || c = '\n' || c = '\r' || c = '\t'

def skipWs (s : List Char) : List Char := s.dropWhile isWs

/-! ### strings -/

/-- value of one hexadecimal digit (either case) -/
def hexNib (c : Char) : Option Nat :=
  let n := c.toNat
  if 48 ≤ n ∧ n ≤ 57 then some (n - 48)
  else if 97 ≤ n ∧ n ≤ 102 then some (n - 87)
  else if 65 ≤ n ∧ n ≤ 70 then some (n - 55)
  else none

/-- four hexadecimal digits -/
def readU4 : List Char → Option (Nat × List Char)
  | a :: b :: c :: d :: rest =>
    match hexNib a, hexNib b, hexNib c, hexNib d with
    | some x, some y, some z, some w => some (4096 * x + 256 * y + 16 * z + w, rest)
    | _, _, _, _ => none
  | _ => none

/-- the character a two-character escape `\x` (x ≠ u) stands for -/
def unescShort (x : Char) : Option Char :=
  if x = '"' then some '"'
  else if x = '\\' then some '\\'
  else if x = '/' then some '/'
  else if x = 'n' then some '\n'
  else if x = 'r' then some '\r'
  else if x = 't' then some '\t'
  else if x = 'b' then some (Char.ofNat 8)
  else if x = 'f' then some (Char.ofNat 12)
  else none

/-- what follows `\u`: four hex digits, and for a high surrogate the low half `\uDCxx` too -/
def readUEsc (s : List Char) : Option (Char × List Char) :=
  match readU4 s with
  | none => none
  | some (n, rest) =>
    if 55296 ≤ n ∧ n < 56320 then
      match rest with
      | c1 :: c2 :: rest2 =>
        if c1 = '\\' ∧ c2 = 'u' then
          match readU4 rest2 with
          | none => none
          | some (m, rest3) =>
            if 56320 ≤ m ∧ m < 57344 then
              some (Char.ofNat (65536 + (n - 55296) * 1024 + (m - 56320)), rest3)
            else none
        else none
      | _ => none
    else if 56320 ≤ n ∧ n < 57344 then none
    else some (Char.ofNat n, rest)

/-- one character of a string body (the caller has checked that it is not the closing quote) -/
def readChar1 : List Char → Option (Char × List Char)
  | [] => none
  | c :: rest =>
    if c = '\\' then
      match rest with
      | [] => none
      | x :: rest2 =>
        if x = 'u' then readUEsc rest2
        else
          match unescShort x with
          | some d => some (d, rest2)
          | none => none
    else if c.toNat < 32 then none
    else some (c, rest)

/-- the body of a string literal after the opening quote, up to and including the closing
    quote; one unit of fuel per character read (the input length is always enough) -/
def readStrBody : Nat → List Char → Option (List Char × List Char)
  | 0, _ => none
  | fuel + 1, s =>
    match s with
    | [] => none
    | c :: rest =>
      if c = '"' then some ([], rest)
      else
        match readChar1 (c :: rest) with
        | none => none
        | some (d, rest') =>
          match readStrBody fuel rest' with
          | none => none
          | some (ds, r) => some (d :: ds, r)

/-! ### null, true, false, numbers -/

/-- the characters of keyword and number tokens -/
def atomCharsB : List Char := "0123456789+-.eNaIfintyulrs".toList

def isAtomChar (c : Char) : Bool := atomCharsB.contains c

def nullLit : List Char := ['n', 'u', 'l', 'l']
def trueLit : List Char := ['t', 'r', 'u', 'e']
def falseLit : List Char := ['f', 'a', 'l', 's', 'e']

/-- a complete keyword / number token -/
def readAtomTok (fv : String → Int × Nat) (tok : List Char) : Option JVal :=
  if tok = nullLit then some .null
  else if tok = trueLit then some (.bool true)
  else if tok = falseLit then some (.bool false)
  else if floatTokB (String.ofList tok) then
    some (.flt (fv (String.ofList tok)).1 (fv (String.ofList tok)).2 (String.ofList tok))
  else
    match (String.ofList tok).toInt? with
    | some i => if intChars i = tok then some (.int i) else none
    | none => none

/-! ### values -/

mutual
  /-- one value, leading whitespace skipped; returns the value and the unread rest -/
  def readVal (fv : String → Int × Nat) : Nat → List Char → Option (JVal × List Char)
    | 0, _ => none
    | fuel + 1, s =>
      match skipWs s with
      | [] => none
      | c :: rest =>
        if c = '"' then
          match readStrBody rest.length rest with
          | some (cs, r) => some (.str (String.ofList cs), r)
          | none => none
        else if c = '[' then
          match readArr fv fuel rest with
          | some (xs, r) => some (.arr xs, r)
          | none => none
        else if c = '{' then
          match readObj fv fuel rest with
          | some (kvs, r) => some (.obj kvs, r)
          | none => none
        else
          match readAtomTok fv ((c :: rest).takeWhile isAtomChar) with
          | some v => some (v, (c :: rest).dropWhile isAtomChar)
          | none => none
  /-- after `[` -/
  def readArr (fv : String → Int × Nat) : Nat → List Char → Option (List JVal × List Char)
    | 0, _ => none
    | fuel + 1, s =>
      match skipWs s with
      | [] => none
      | c :: rest => if c = ']' then some ([], rest) else readElems fv fuel (c :: rest)
  /-- one or more array elements and the closing `]` -/
  def readElems (fv : String → Int × Nat) : Nat → List Char → Option (List JVal × List Char)
    | 0, _ => none
    | fuel + 1, s =>
      match readVal fv fuel s with
      | none => none
      | some (x, r) =>
        match skipWs r with
        | [] => none
        | c :: r' =>
          if c = ']' then some ([x], r')
          else if c = ',' then
            match readElems fv fuel r' with
            | some (xs, r'') => some (x :: xs, r'')
            | none => none
          else none
  /-- after `{` -/
  def readObj (fv : String → Int × Nat) : Nat → List Char →
      Option (List (String × JVal) × List Char)
    | 0, _ => none
    | fuel + 1, s =>
      match skipWs s with
      | [] => none
      | c :: rest => if c = '}' then some ([], rest) else readMembers fv fuel (c :: rest)
  /-- one or more `"key": value` members and the closing `}` -/
  def readMembers (fv : String → Int × Nat) : Nat → List Char →
      Option (List (String × JVal) × List Char)
    | 0, _ => none
    | fuel + 1, s =>
      match skipWs s with
      | [] => none
      | q :: s1 =>
        if q = '"' then
          match readStrBody s1.length s1 with
          | none => none
          | some (k, s2) =>
            match skipWs s2 with
            | [] => none
            | col :: s3 =>
              if col = ':' then
                match readVal fv fuel s3 with
                | none => none
                | some (v, r) =>
                  match skipWs r with
                  | [] => none
                  | c :: r' =>
                    if c = '}' then some ([(String.ofList k, v)], r')
                    else if c = ',' then
                      match readMembers fv fuel r' with
                      | some (kvs, r'') => some ((String.ofList k, v) :: kvs, r'')
                      | none => none
                    else none
              else none
        else none
end

/-- fuel that is always enough for a text of this length -/
def parseFuel (s : List Char) : Nat := 2 * s.length + 2

/-- `json.loads(text)`: one value, then nothing but whitespace -/
def parseText (fv : String → Int × Nat) (s : List Char) : Option JVal :=
  match readVal fv (parseFuel s) s with
  | some (v, r) => if (skipWs r).isEmpty then some v else none
  | none => none

end Signac

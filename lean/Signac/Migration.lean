/-
  Signac.Migration — the schema-version gate and the legacy → current migration chain.
  Core Lean only (drivers link against it).

  Modelled code
    signac/project.py            `Project._check_schema_compatibility`          → `gate`
    signac/_config.py            `_raise_if_older_schema`                       → `raiseIfOlder`
    signac/migration/__init__.py `_get_config_schema_version`                   → `detect`
                                 `_collect_migrations` + `apply_migrations`     → `loop`, `applyMigrations`
    signac/migration/v0_to_v1.py `_load_config_v1`, `_migrate_v0_to_v1` (no-op) → `loadV1`
    signac/migration/v1_to_v2.py `_load_config_v2`, `_migrate_v1_to_v2`         → `loadV2`, `migrate12`

  A project root directory is a small record (`Proj`): the two possible config files, the
  `.signac` directory, the entries of the root that can play the role of a workspace (keyed by
  their relative path, each carrying an opaque digest of its whole subtree), the project
  document, the v1 / v2 cache and shell-history files, the lock file, and an opaque digest of
  everything else.  A migration step moves these tokens around exactly as the code moves
  the files; a failing step leaves the record as it is at that point (the code has no rollback).
-/
import Signac.Json
import Signac.Extracted
namespace Signac.Mig
open Signac

abbrev Blob := String

/-- `SCHEMA_VERSION` of the running package (regenerated on every run). -/
def SCHEMA : Nat := Extracted.SCHEMA_VERSION

inductive Gate where
  | ok
  | incompatible
  deriving DecidableEq, Repr

/-- `Project._check_schema_compatibility`: newer → refuse, older → refuse, else fine. -/
def gate (v : Nat) : Gate :=
  if v > SCHEMA then .incompatible
  else if v < SCHEMA then .incompatible
  else .ok

/-- What `_raise_if_older_schema` does when a legacy config declaring version `v` loads. -/
inductive Older where
  | pass            -- no legacy config could be loaded (RuntimeError swallowed)
  | incompatible    -- IncompatibleSchemaVersion
  | assertion       -- the `assert schema_version != SCHEMA_VERSION` fires
  deriving DecidableEq, Repr

def raiseIfOlder (legacy : Option Nat) : Older :=
  match legacy with
  | none => .pass
  | some v => if v = SCHEMA then .assertion else .incompatible

/-- A config file (`signac.rc` or `.signac/config`): the three keys the code looks at.
    `version = none`: no `schema_version` key. -/
structure Conf where
  version : Option Nat
  project : Option String
  wsDir : Option String
  deriving DecidableEq, Repr

structure Proj where
  rc : Option Conf                       -- signac.rc
  cfg : Option Conf                      -- .signac/config
  dotSignac : Bool                       -- the directory `.signac` exists
  ents : List (String × Blob)            -- root entries by relative path (candidate workspaces)
  doc : Option (List (String × JVal))    -- signac_project_document.json (none = no file)
  cacheOld : Option Blob                 -- .signac_sp_cache.json.gz
  histOld : Option Blob                  -- .signac_shell_history
  cacheNew : Option Blob                 -- .signac/statepoint_cache.json.gz
  histNew : Option Blob                  -- .signac/shell_history
  lock : Bool                            -- .SIGNAC_PROJECT_MIGRATION_LOCK
  rest : Blob                            -- everything else below the root
  deriving Repr

/-- `_load_config_v1`: `signac.rc` must be a file and validate (`project` is required). -/
def loadV1 (P : Proj) : Option Conf :=
  match P.rc with
  | some c => if c.project.isSome then some c else none
  | none => none

/-- `_load_config_v2`: `.signac/config` must be a file (every key has a default). -/
def loadV2 (P : Proj) : Option Conf := P.cfg

/-- `_CONFIG_LOADERS[n]` -/
def loader (n : Nat) (P : Proj) : Option Conf :=
  if n = 1 then loadV1 P else if n = 2 then loadV2 P else none

def firstLoad (P : Proj) : List Nat → Option Conf
  | [] => none
  | n :: ns => match loader n P with
    | some c => some c
    | none => firstLoad P ns

/-- `_get_config_schema_version(root, guess)`: try the guessed loader first (if there is one),
    then the loaders newest first; a missing `schema_version` key means 0.  `none` = RuntimeError. -/
def detect (P : Proj) (guess : Nat) : Option Nat :=
  let order := if guess = 1 ∨ guess = 2 then [guess, 2, 1] else [2, 1]
  (firstLoad P order).map (fun c => c.version.getD 0)

/-- Python dict assignment: replace in place, else append. -/
def docSet (k : String) (v : JVal) : List (String × JVal) → List (String × JVal)
  | [] => [(k, v)]
  | (k', v') :: rest => if k' = k then (k, v) :: rest else (k', v') :: docSet k v rest

def hasEnt (P : Proj) (k : String) : Bool := (P.ents.lookup k).isSome

/-- `os.replace(root/src, root/dst)` on the entry table (dst known to be absent). -/
def renameEnt (src dst : String) : List (String × Blob) → List (String × Blob)
  | [] => []
  | (k, b) :: rest => if k = src then (dst, b) :: rest else (k, b) :: renameEnt src dst rest

/-- the name the v1 config gives the workspace (configspec default `workspace`) -/
def wsName (c : Conf) : String := c.wsDir.getD "workspace"

/-- `_migrate_v1_to_v2`.  Second component: `true` = returned normally, `false` = raised. -/
def migrate12 (P : Proj) : Proj × Bool :=
  match loadV1 P with
  | none => (P, false)
  | some c =>
    if wsName c ≠ "workspace" ∧ hasEnt P "workspace" then (P, false)       -- refuses: would overwrite
    else if wsName c ≠ "workspace" ∧ ¬ hasEnt P (wsName c) then (P, false) -- os.replace: no such directory
    else
      let ents1 := if wsName c ≠ "workspace" then renameEnt (wsName c) "workspace" P.ents else P.ents
      let doc1 := if c.project ≠ some "None"
                  then some (docSet "signac_project_name" (.str (c.project.getD "")) (P.doc.getD []))
                  else P.doc
      let c' : Conf := { c with project := none, wsDir := none }
      if P.dotSignac then
        ({ P with ents := ents1, doc := doc1, rc := some c' }, false)      -- os.mkdir(.signac): exists
      else
        ({ P with ents := ents1, doc := doc1, rc := none, cfg := some c', dotSignac := true,
                  histOld := none, histNew := if P.histOld.isSome then P.histOld else P.histNew,
                  cacheOld := none, cacheNew := if P.cacheOld.isSome then P.cacheOld else P.cacheNew },
         true)

/-- after a migration: `config = _CONFIG_LOADERS[dest](root); config["schema_version"] = dest; write` -/
def bump (dest : Nat) (P : Proj) : Option Proj :=
  if dest = 1 then (loadV1 P).map (fun c => { P with rc := some { c with version := some 1 } })
  else if dest = 2 then (loadV2 P).map (fun c => { P with cfg := some { c with version := some 2 } })
  else none

inductive MigResult where
  | ok
  | unableToLoad      -- RuntimeError "Unable to load config file."
  | tooNew            -- RuntimeError "... only supports up to schema version ..."
  | failed (dest : Nat) -- RuntimeError "Failed to apply migration <dest>."
  | noConfig          -- RuntimeError from the loader used for the version bump
  | noPath            -- RuntimeError "... does not know how to migrate."
  deriving DecidableEq, Repr

/-- The interleaving of `_collect_migrations` (a generator that re-reads the version from disk
    before each step) with the body of the `for` loop in `apply_migrations`. -/
def loop : Nat → Nat → Proj → Proj × MigResult
  | 0, _, P => (P, .noPath)
  | fuel + 1, guess, P =>
    match detect P guess with
    | none => (P, .unableToLoad)
    | some v =>
      if v < SCHEMA then
        if v = 0 then
          -- (0, 1): `_migrate_v0_to_v1` does nothing; then the bump through the v1 loader
          match bump 1 P with
          | none => (P, .noConfig)
          | some P' => loop fuel 1 P'
        else if v = 1 then
          match migrate12 P with
          | (P', false) => (P', .failed 2)
          | (P', true) =>
            match bump 2 P' with
            | none => (P', .noConfig)
            | some P'' => loop fuel 2 P''
        else (P, .noPath)
      else (P, .ok)

/-- `apply_migrations(root)`: everything under the lock file, which is removed at the end
    whatever happened. -/
def applyMigrations (P : Proj) : Proj × MigResult :=
  let L := { P with lock := true }
  match detect L SCHEMA with
  | none => ({ L with lock := false }, .unableToLoad)
  | some v =>
    if v > SCHEMA then ({ L with lock := false }, .tooNew)
    else
      match loop (SCHEMA + 1) v L with
      | (Q, r) => ({ Q with lock := false }, r)

/-- The job data a reader following the project's own configuration sees: the entry named by
    `workspace_dir` for a legacy layout, `workspace` for the current layout. -/
def jobsOf (P : Proj) : Option Blob :=
  match P.cfg with
  | some _ => P.ents.lookup "workspace"
  | none => match P.rc with
    | some c => P.ents.lookup (wsName c)
    | none => none

/-- The version `Project.__init__` reads from `.signac/config` (`_CFG` default: '1'). -/
def openVersion (P : Proj) : Option Nat := P.cfg.map (fun c => c.version.getD 1)

end Signac.Mig

/-
  Signac.Wire — the line protocol shared by all drivers (DESIGN §2.3 b).
  Values:  N | T | F | I<int> | D<num>/<exp>:<hex repr> | S<hex utf8> |
           A<n> v*n | O<n> (S<key> v)*n
  Import-free.
-/
import Signac.Json
namespace Signac

def hexVal (c : Char) : Option Nat :=
  if '0' ≤ c ∧ c ≤ '9' then some (c.toNat - 48)
  else if 'a' ≤ c ∧ c ≤ 'f' then some (c.toNat - 87)
  else none

def hexBytes : List Char → Option (List UInt8)
  | [] => some []
  | [_] => none
  | a :: b :: rest => do
    let x ← hexVal a
    let y ← hexVal b
    let r ← hexBytes rest
    pure (UInt8.ofNat (16 * x + y) :: r)

def unhex (s : String) : Option String := do
  let bs ← hexBytes s.toList
  String.fromUTF8? (ByteArray.mk bs.toArray)

def hexOfNat2 (n : Nat) : List Char := [hexDigit (n / 16 % 16), hexDigit (n % 16)]

def toHex (s : String) : String :=
  String.ofList (s.toUTF8.toList.flatMap (fun b => hexOfNat2 b.toNat))

def dropFirst (s : String) : String := String.ofList (s.toList.drop 1)

def parseScalar (t : String) : Option JVal :=
  match t.toList with
  | ['N'] => some .null
  | ['T'] => some (.bool true)
  | ['F'] => some (.bool false)
  | 'I' :: rest => (String.ofList rest).toInt?.map .int
  | 'S' :: rest => (unhex (String.ofList rest)).map .str
  | 'D' :: rest =>
    match (String.ofList rest).splitOn ":" with
    | [frac, hx] =>
      match frac.splitOn "/" with
      | [n, e] => do
        let n ← n.toInt?
        let e ← e.toNat?
        let r ← unhex hx
        pure (.flt n e r)
      | _ => none
    | _ => none
  | _ => none

mutual
  def parseVal : Nat → List String → Option (JVal × List String)
    | 0, _ => none
    | _, [] => none
    | fuel+1, t :: ts =>
      match t.toList with
      | 'A' :: n => do
        let n ← (String.ofList n).toNat?
        let (xs, rest) ← parseVals fuel n ts
        pure (.arr xs, rest)
      | 'O' :: n => do
        let n ← (String.ofList n).toNat?
        let (kvs, rest) ← parseKVs fuel n ts
        pure (.obj kvs, rest)
      | _ => (parseScalar t).map (·, ts)
  def parseVals : Nat → Nat → List String → Option (List JVal × List String)
    | 0, _, _ => none
    | _, 0, ts => some ([], ts)
    | fuel+1, n+1, ts => do
      let (v, rest) ← parseVal fuel ts
      let (vs, rest') ← parseVals fuel n rest
      pure (v :: vs, rest')
  def parseKVs : Nat → Nat → List String → Option (List (String × JVal) × List String)
    | 0, _, _ => none
    | _, 0, ts => some ([], ts)
    | fuel+1, n+1, ts =>
      match ts with
      | [] => none
      | k :: ts' => do
        let key ← match k.toList with
          | 'S' :: hx => unhex (String.ofList hx)
          | _ => none
        let (v, rest) ← parseVal fuel ts'
        let (kvs, rest') ← parseKVs fuel n rest
        pure ((key, v) :: kvs, rest')
end

def tokens (line : String) : List String :=
  (line.splitOn " ").filter (fun s => !s.isEmpty)

def parseValue (ts : List String) : Option (JVal × List String) :=
  parseVal (2 * ts.length + 2) ts

/-- parse `n` values in a row -/
def parseValues (n : Nat) (ts : List String) : Option (List JVal × List String) :=
  parseVals (2 * ts.length + 2 + n) n ts

mutual
  /-- re-serialise a value (used by drivers that echo values) -/
  def wireVal : JVal → List String
    | .null => ["N"]
    | .bool true => ["T"]
    | .bool false => ["F"]
    | .int i => ["I" ++ toString i]
    | .flt n e r => ["D" ++ toString n ++ "/" ++ toString e ++ ":" ++ toHex r]
    | .str s => ["S" ++ toHex s]
    | .arr xs => ("A" ++ toString xs.length) :: wireVals xs
    | .obj kvs => ("O" ++ toString kvs.length) :: wireKVs kvs
  def wireVals : List JVal → List String
    | [] => []
    | x :: xs => wireVal x ++ wireVals xs
  def wireKVs : List (String × JVal) → List String
    | [] => []
    | (k, v) :: rest => ("S" ++ toHex k) :: (wireVal v ++ wireKVs rest)
end

def wire (v : JVal) : String := " ".intercalate (wireVal v)

/-- Generic stdin/stdout loop: one output line per input line. -/
partial def driverLoop (step : String → String) : IO Unit := do
  let stdin ← IO.getStdin
  let stdout ← IO.getStdout
  let rec go : IO Unit := do
    let line ← stdin.getLine
    if line.isEmpty then
      stdout.flush
      return ()
    let l := String.ofList (line.toList.filter (fun c => c != '\n' && c != '\r'))
    stdout.putStrLn (step l)
    go
  go

end Signac

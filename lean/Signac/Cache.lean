/-
  Signac.Cache — one project as the state point cache and the corruption checks see it:
  the workspace listing with each directory's state point file (absent / parses to a value /
  unparsable) and an opaque payload, the persistent cache file (decoded), and the session
  cache of the live Project object.

  Modelled code: signac/project.py  open_job, _read_cache, _get_statepoint,
  _get_statepoint_from_workspace, _update_in_memory_cache, update_cache, check, repair;
  signac/job.py  Job.init (with its registration points), _StatePointDict.load/save,
  re-key via `job.sp[k] = v`, remove.  `hash` is a parameter.
  Used by C08 (cache transparency) and C09 (corruption detection and repair).
-/
import Signac.Json
import Signac.Workspace
namespace Signac.Cache
open Signac Signac.Ws

inductive SpFile where
  | absent
  | valid (v : JVal)
  | garbage
  deriving Inhabited

structure Dir where
  sp : SpFile
  payload : Nat          -- identity of document + data files (0 = none)
  deriving Inhabited

structure St where
  ws : List (String × Dir)
  cacheFile : Option (List (String × JVal))
  session : List (String × JVal)
  cacheRead : Bool
  nextPayload : Nat
  deriving Inhabited

def St.empty : St := ⟨[], none, [], false, 1⟩

/-- `dict.update` -/
def updateAll (base : List (String × JVal)) : List (String × JVal) → List (String × JVal)
  | [] => base
  | (k, v) :: r => updateAll (aset k v base) r

/-- `_read_cache`: merge the cache file into the session cache -/
def readCache (s : St) : St :=
  match s.cacheFile with
  | some c => { s with session := updateAll s.session c }
  | none => s

/-- first `open_job` / `_get_statepoint` of a session reads the cache file once -/
def ensureRead (s : St) : St :=
  if s.cacheRead then s else { (readCache s) with cacheRead := true }

inductive Err where
  | corrupted (ids : List String)
  | keyError
  | destExists
  deriving Inhabited

section
variable (hash : JVal → String)

/-- `_StatePointDict.load(id)` / `_get_statepoint_from_workspace(id, validate=True)` on a directory -/
def loadValid (d : Dir) (id : String) : Option JVal :=
  match d.sp with
  | .valid v => if hash v = id then some v else none
  | _ => none

def register (s : St) (id : String) (v : JVal) : St := { s with session := aset id v s.session }

/-- `project.open_job(sp).init()` -/
def initJob (s : St) (sp : JVal) (force : Bool := false) : St × Option Err :=
  let s := ensureRead s
  let id := hash sp
  match alookup id s.ws with
  | some d =>
    match loadValid hash d id with
    | some _ => (s, none)                       -- valid file: early exit, nothing written or registered
    | none =>
      -- directory exists; the save does not overwrite an existing file unless forced
      let d' : Dir := match d.sp with
        | .absent => { d with sp := .valid sp }
        | other => if force then { d with sp := .valid sp } else { d with sp := other }
      let s' := { s with ws := aset id d' s.ws }
      match loadValid hash d' id with
      | some v => (register s' id v, none)
      | none => (s', some (.corrupted [id]))
  | none =>
    let s' := { s with ws := s.ws ++ [(id, ⟨.valid sp, 0⟩)] }
    (register s' id sp, none)

/-- `project.open_job(sp).remove()` -/
def removeJob (s : St) (sp : JVal) : St :=
  let s := ensureRead s
  { s with ws := aerase (hash sp) s.ws }

/-- `job = project.open_job(sp); job.sp[k] = v` -/
def rekeyJob (s : St) (sp : JVal) (k : String) (v : JVal) : St × Option Err :=
  let s := ensureRead s
  let newSp := spSet sp k v
  let old := hash sp
  let new := hash newSp
  if old = new then (s, none)
  else match alookup old s.ws with
    | none => (s, none)                          -- not initialised: only the handle changes
    | some d =>
      match d.sp with
      | .absent => (s, none)                     -- no state point file to move aside: treated as uninitialised
      | _ =>
        if (alookup new s.ws).isSome then (s, some .destExists)
        else
          let s' := { s with ws := aerase old s.ws ++ [(new, { d with sp := .valid newSp })] }
          (register s' new newSp, none)

def addMissing (ws : List (String × Dir)) (session : List (String × JVal)) :
    List (String × Dir) → List (String × JVal) × List String
  | [] => (session, [])
  | (id, d) :: r =>
    if (alookup id session).isSome then addMissing ws session r
    else match loadValid hash d id with
      | some v => addMissing ws (aset id v session) r
      | none =>
        let (sess, bad) := addMissing ws session r
        (sess, id :: bad)

def dropStale (ws : List (String × Dir)) : List (String × JVal) → List (String × JVal)
  | [] => []
  | (id, v) :: r => if (alookup id ws).isSome then (id, v) :: dropStale ws r else dropStale ws r

/-- same key set (both are duplicate-free in every reachable state) -/
def sameKeys (a : List (String × JVal)) (b : List (String × JVal)) : Bool :=
  a.all (fun e => (alookup e.1 b).isSome) && b.all (fun e => (alookup e.1 a).isSome)

/-- `project.update_cache()`; result `some n` = rewrote the file with n entries, `none` = up to date -/
def updateCache (s : St) : St × Option Nat × Option Err :=
  let s1 := readCache s
  let kept := dropStale s1.ws s1.session
  let (sess, bad) := addMissing hash s1.ws kept s1.ws
  let s2 := { s1 with session := sess }
  match bad with
  | _ :: _ => (s2, none, some (.corrupted bad))
  | [] =>
    match s.cacheFile with
    | some c => if sameKeys c sess then (s2, none, none)
                else ({ s2 with cacheFile := some sess }, some sess.length, none)
    | none => ({ s2 with cacheFile := some sess }, some sess.length, none)

def newSession (s : St) : St := { s with session := [], cacheRead := false }
def rmCache (s : St) : St := { s with cacheFile := none }

/-- `project._get_statepoint(id)` (validate=True): session cache first, else the workspace -/
def getStatepoint (s : St) (id : String) : St × Except Err JVal :=
  let s := ensureRead s
  match alookup id s.session with
  | some v => (s, .ok v)
  | none =>
    match alookup id s.ws with
    | some d => match loadValid hash d id with
      | some v => (register s id v, .ok v)
      | none => (s, .error (.corrupted [id]))
    | none => (s, .error .keyError)

/-- what a query / iteration with state points through a session does to it: every listed id is looked up -/
def observeAll (s : St) : List String → St
  | [] => ensureRead s
  | id :: r => observeAll (getStatepoint hash s id).1 r

def observe (s : St) : St := observeAll hash s (s.ws.map Prod.fst)

/-- `project.open_job(id=i).statepoint()` in a session -/
def openById (s : St) (id : String) : St × Except Err JVal :=
  let s := ensureRead s
  match alookup id s.session with
  | some v => (s, .ok v)
  | none =>
    match alookup id s.ws with
    | some d => match loadValid hash d id with
      | some v => (register s id v, .ok v)
      | none => (s, .error (.corrupted [id]))
    | none => (s, .error .keyError)

/-- `project.check()`: the ids it names -/
def check (s : St) : List String :=
  (s.ws.filter (fun e => (loadValid hash e.2 e.1).isNone)).map Prod.fst

/- ---------- damage (done to the files directly, not through signac) ---------- -/
def damage (s : St) (id : String) (f : SpFile) : St :=
  match alookup id s.ws with
  | some d => { s with ws := aset id { d with sp := f } s.ws }
  | none => s

def renameDir (s : St) (id id2 : String) : St :=
  match alookup id s.ws, alookup id2 s.ws with
  | some d, none => { s with ws := aerase id s.ws ++ [(id2, d)] }
  | _, _ => s

def setPayload (s : St) (id : String) : St :=
  match alookup id s.ws with
  | some d => { s with ws := aset id { d with payload := s.nextPayload } s.ws, nextPayload := s.nextPayload + 1 }
  | none => s

/- ---------- repair ---------- -/
def dirEmpty (d : Dir) : Bool :=
  match d.sp with
  | .absent => d.payload == 0
  | _ => false

/-- one iteration of the loop of `Project.repair` for `id` -/
def repairOne (s : St) (id : String) : St × Bool :=     -- Bool: id goes to `corrupted`
  let s := ensureRead s
  -- `_get_statepoint(id, validate=False)`
  let looked : St × Option JVal :=
    match alookup id s.session with
    | some v => (s, some v)
    | none => match alookup id s.ws with
      | some d => match d.sp with
        | .valid (.obj kvs) => (register s id (.obj kvs), some (.obj kvs))
        | _ => (s, none)            -- missing, unparsable, or valid JSON that is not a mapping
      | none => (s, none)
  match looked with
  | (s, none) => (s, true)
  | (s, some sp) =>
    let correct := hash sp
    -- the state point is not kept cached under a wrong id
    let s : St := if correct = id then s else { s with session := aerase id s.session }
    let moved : Option St :=
      if correct = id then some s
      else match alookup id s.ws with
        | none => none
        | some d =>
          match alookup correct s.ws with
          | some d2 => if dirEmpty d2 then some { s with ws := aset correct d (aerase id s.ws) } else none
          | none => some { s with ws := aerase id s.ws ++ [(correct, d)] }
    match moved with
    | none => (s, true)
    | some s =>
      match initJob hash s sp false with
      | (s', none) => (s', false)
      | (s', some _) =>
        match initJob hash s' sp true with
        | (s'', none) => (s'', false)
        | (s'', some _) => (s'', true)

def repairLoop (s : St) : List String → St × List String
  | [] => (s, [])
  | id :: r =>
    let (s1, bad) := repairOne hash s id
    let (s2, rest) := repairLoop s1 r
    (s2, if bad then id :: rest else rest)

/-- `project.repair()`: returns the ids it could not repair -/
def repair (s : St) : St × List String :=
  repairLoop hash (readCache s) (s.ws.map Prod.fst)

end
end Signac.Cache

namespace Signac.Cache
open Signac Signac.Ws

/-- the history alphabet of C08 -/
inductive COp where
  | init (sp : JVal)
  | remove (sp : JVal)
  | rekey (sp : JVal) (k : String) (v : JVal)
  | ucache
  | session
  | rmcache
  | observe
  deriving Inhabited

def cstep (hash : JVal → String) (s : St) : COp → St
  | .init sp => (initJob hash s sp).1
  | .remove sp => removeJob hash s sp
  | .rekey sp k v => (rekeyJob hash s sp k v).1
  | .ucache => (updateCache hash s).1
  | .session => newSession s
  | .rmcache => rmCache s
  | .observe => observe hash s

def crun (hash : JVal → String) (s : St) : List COp → St
  | [] => s
  | op :: ops => crun hash (cstep hash s op) ops

end Signac.Cache

/-
  Signac.Lifecycle — the job-lifecycle operations of signac as explicit file-system step
  programs WITH the error handling of the code, run under crash / torn-write / fault events
  (DESIGN §4 C11, §2.4).  Import-free apart from the regenerated constants, so the driver links.

  Modelled code (read it next to this file):
    signac/job.py      `_StatePointDict._save`  (re-key protocol with rollback + reload)      → `rekeyProg`
                       `_StatePointDict.save`   (write only if absent / forced; deletes the
                                                 target on errors other than EEXIST/EACCES,
                                                 and SWALLOWS EEXIST/EACCES)           → `saveProg`
                       `_StatePointDict.load`, `Job.init`                             → `initProg`
                       `Job.clear`, `Job.remove`, `Job.move`                          → `clearProg`, `removeProg`, `moveProg`
                       `Job.reset` (= `clear(); init()`)                              → `Prog.seq`, `resetProg`
    signac/project.py  `Project.clone` (shutil.copytree: per-entry errors are collected,
                       copying continues, `shutil.Error` is raised at the end)         → `cloneProg`
                       `Project.check` / `_get_statepoint_from_workspace`              → `corruptAt`, `check`
    synced_collections `JSONCollection._save_to_resource`: temp file `._<uuid>_<name>` + os.replace.

  A world is a map  (project, directory name) ↦ job directory.  A job directory holds the
  state-point file, the backup `signac_statepoint.json~`, stray temp files and the payload
  (document, files, nested directories) as a flat path map.  `hash` (the id function) and the
  JSON text of a state point are parameters (`Codec`); the driver instantiates them with the
  C01 model (`calcId`, `dumpChars`).
-/
import Signac.Extracted
namespace Signac.Life

inductive Errno where
  | EIO | ENOSPC | EACCES | EXDEV | EROFS | ENOENT | EEXIST | ENOTEMPTY
  deriving DecidableEq, Repr, Inhabited

def Errno.name : Errno → String
  | .EIO => "EIO" | .ENOSPC => "ENOSPC" | .EACCES => "EACCES" | .EXDEV => "EXDEV"
  | .EROFS => "EROFS" | .ENOENT => "ENOENT" | .EEXIST => "EEXIST" | .ENOTEMPTY => "ENOTEMPTY"

/-- the id function and the text `json.dumps` writes for a state point -/
structure Codec (Sp : Type) where
  hash : Sp → String
  text : Sp → String

/-- content of a file in state-point position: a JSON object (`ok`) or anything else (`junk`:
    torn / empty / unparsable bytes).  Other files carry `junk bytes`. -/
inductive Content (Sp : Type) where
  | ok (v : Sp)
  | junk (s : String)

def Content.bytes {Sp} (C : Codec Sp) : Content Sp → String
  | .ok v => C.text v
  | .junk s => s

/-- `calc_id(json.loads(file)) == id` -/
def Content.validFor {Sp} (C : Codec Sp) (id : String) : Content Sp → Bool
  | .ok v => C.hash v == id
  | .junk _ => false

structure JobDir (Sp : Type) where
  sp : Option (Content Sp) := none
  bak : Option (Content Sp) := none
  strays : List (String × Content Sp) := []        -- `._TMP_<name>` files, newest first
  entries : List (String × Option String) := []    -- payload: path ↦ bytes | none (= directory)

def JobDir.isEmpty {Sp} (d : JobDir Sp) : Bool :=
  d.sp.isNone && d.bak.isNone && d.strays.isEmpty && d.entries.isEmpty

def JobDir.valid {Sp} (C : Codec Sp) (id : String) (d : JobDir Sp) : Bool :=
  match d.sp with
  | some c => c.validFor C id
  | none => false

abbrev Key := Nat × String
abbrev World (Sp : Type) := Key → Option (JobDir Sp)

def upd {Sp} (w : World Sp) (k : Key) (v : Option (JobDir Sp)) : World Sp :=
  fun k' => if k' = k then v else w k'

def validAt {Sp} (C : Codec Sp) (w : World Sp) (k : Key) : Bool :=
  match w k with
  | some d => d.valid C k.2
  | none => false

/-- what `Project.check()` reports for an id-named directory: it exists and its state-point
    file is absent, unparsable, or hashes to another id -/
def corruptAt {Sp} (C : Codec Sp) (w : World Sp) (k : Key) : Bool :=
  match w k with
  | some d => !d.valid C k.2
  | none => false

/-- `check()` over the listing of project `p` -/
def check {Sp} (C : Codec Sp) (w : World Sp) (p : Nat) (listing : List String) : List String :=
  listing.filter (fun n => corruptAt C w (p, n))

/-- an item of a job directory, as `scandir` enumerates them -/
inductive Ref where
  | sp | bak
  | stray (name : String)
  | file (path : String)
  | dir (path : String)
  deriving DecidableEq, Repr

def spName : String := Extracted.FN_STATE_POINT
def docName : String := Extracted.FN_JOB_DOCUMENT

def Ref.path : Ref → String
  | .sp => spName
  | .bak => spName ++ "~"
  | .stray n => "._TMP_" ++ n
  | .file p => p
  | .dir p => p

/- ---------------------------------------------------------------- payload helpers -/
def setEntry (p : String) (b : Option String) : List (String × Option String) → List (String × Option String)
  | [] => [(p, b)]
  | (q, c) :: rest => if q = p then (p, b) :: rest else (q, c) :: setEntry p b rest

def eraseEntry (p : String) : List (String × Option String) → List (String × Option String)
  | [] => []
  | (q, c) :: rest => if q = p then rest else (q, c) :: eraseEntry p rest

def getEntry (p : String) : List (String × Option String) → Option (Option String)
  | [] => none
  | (q, c) :: rest => if q = p then some c else getEntry p rest

def getStray {Sp} (n : String) : List (String × Content Sp) → Option (Content Sp)
  | [] => none
  | (m, c) :: rest => if m = n then some c else getStray n rest

def eraseStray {Sp} (n : String) : List (String × Content Sp) → List (String × Content Sp)
  | [] => []
  | (m, c) :: rest => if m = n then rest else (m, c) :: eraseStray n rest

def setStray {Sp} (n : String) (c : Content Sp) : List (String × Content Sp) → List (String × Content Sp)
  | [] => [(n, c)]
  | (m, c') :: rest => if m = n then (n, c) :: rest else (m, c') :: setStray n c rest

/- ---------------------------------------------------------------- steps -/
inductive Step (Sp : Type) where
  | mkdir (k : Key)
  | tmpOpen (k : Key) (name : String)                    -- open `._TMP_name` "wb"
  | tmpWrite (k : Key) (name : String) (c : Content Sp)  -- the one write chunk
  | tmpCommit (k : Key) (name : String)                  -- os.replace(`._TMP_name`, name)
  | spToBak (k : Key)                                    -- os.replace(sp, sp~)
  | bakToSp (k : Key)                                    -- os.replace(sp~, sp)   (rollback)
  | rmBak (k : Key)
  | rmSp (k : Key)
  | renameDir (a b : Key)                                -- os.replace(dir a, dir b)
  | rmItem (k : Key) (r : Ref)                           -- unlink / rmdir inside a job directory
  | rmJobDir (k : Key)
  | cpMkdir (k : Key) (path : String)                    -- "" = the job directory itself
  | cpOpen (k : Key) (r : Ref)                           -- copyfile: open destination "wb"
  | cpWrite (k : Key) (r : Ref) (c : Content Sp)         -- copyfile: the one write chunk

/-- write content `c` to the item `r` of directory `d` -/
def putItem {Sp} (C : Codec Sp) (d : JobDir Sp) (r : Ref) (c : Content Sp) : JobDir Sp :=
  match r with
  | .sp => { d with sp := some c }
  | .bak => { d with bak := some c }
  | .stray n => { d with strays := setStray n c d.strays }
  | .file p => { d with entries := setEntry p (some (c.bytes C)) d.entries }
  | .dir p => { d with entries := setEntry p none d.entries }

def hasItem {Sp} (d : JobDir Sp) : Ref → Bool
  | .sp => d.sp.isSome
  | .bak => d.bak.isSome
  | .stray n => (getStray n d.strays).isSome
  | .file p => (getEntry p d.entries).isSome
  | .dir p => (getEntry p d.entries).isSome

def dropItem {Sp} (d : JobDir Sp) : Ref → JobDir Sp
  | .sp => { d with sp := none }
  | .bak => { d with bak := none }
  | .stray n => { d with strays := eraseStray n d.strays }
  | .file p => { d with entries := eraseEntry p d.entries }
  | .dir p => { d with entries := eraseEntry p d.entries }

/-- content of an item as `copyfile` reads it -/
def itemContent {Sp} (d : JobDir Sp) : Ref → Content Sp
  | .sp => d.sp.getD (.junk "")
  | .bak => d.bak.getD (.junk "")
  | .stray n => (getStray n d.strays).getD (.junk "")
  | .file p => .junk (((getEntry p d.entries).getD none).getD "")
  | .dir _ => .junk ""

/-- the step performed on the world; `error e` = the primitive fails by itself with errno `e`
    and changes nothing -/
def apply {Sp} (C : Codec Sp) (w : World Sp) : Step Sp → Except Errno (World Sp)
  | .mkdir k =>
    match w k with
    | some _ => .error .EEXIST
    | none => .ok (upd w k (some {}))
  | .tmpOpen k n =>
    match w k with
    | none => .error .ENOENT
    | some d => .ok (upd w k (some { d with strays := (n, .junk "") :: d.strays }))
  | .tmpWrite k n c =>
    match w k with
    | none => .error .ENOENT
    | some d => .ok (upd w k (some { d with strays := setStray n c d.strays }))
  | .tmpCommit k n =>
    match w k with
    | none => .error .ENOENT
    | some d =>
      match getStray n d.strays with
      | none => .error .ENOENT
      | some c =>
        if n = spName then .ok (upd w k (some { d with sp := some c, strays := eraseStray n d.strays }))
        else .ok (upd w k (some { d with entries := setEntry n (some (c.bytes C)) d.entries,
                                          strays := eraseStray n d.strays }))
  | .spToBak k =>
    match w k with
    | none => .error .ENOENT
    | some d =>
      match d.sp with
      | none => .error .ENOENT
      | some c => .ok (upd w k (some { d with sp := none, bak := some c }))
  | .bakToSp k =>
    match w k with
    | none => .error .ENOENT
    | some d =>
      match d.bak with
      | none => .error .ENOENT
      | some c => .ok (upd w k (some { d with sp := some c, bak := none }))
  | .rmBak k =>
    match w k with
    | none => .error .ENOENT
    | some d =>
      match d.bak with
      | none => .error .ENOENT
      | some _ => .ok (upd w k (some { d with bak := none }))
  | .rmSp k =>
    match w k with
    | none => .error .ENOENT
    | some d =>
      match d.sp with
      | none => .error .ENOENT
      | some _ => .ok (upd w k (some { d with sp := none }))
  | .renameDir a b =>
    match w a with
    | none => .error .ENOENT
    | some d =>
      match w b with
      | none => .ok (upd (upd w b (some d)) a none)
      | some d' => if d'.isEmpty then .ok (upd (upd w b (some d)) a none) else .error .ENOTEMPTY
  | .rmItem k r =>
    match w k with
    | none => .error .ENOENT
    | some d => if hasItem d r then .ok (upd w k (some (dropItem d r))) else .error .ENOENT
  | .rmJobDir k =>
    match w k with
    | none => .error .ENOENT
    | some d => if d.isEmpty then .ok (upd w k none) else .error .ENOTEMPTY
  | .cpMkdir k p =>
    if p = "" then
      match w k with
      | some _ => .error .EEXIST
      | none => .ok (upd w k (some {}))
    else
      match w k with
      | none => .error .ENOENT
      | some d => .ok (upd w k (some (putItem C d (.dir p) (.junk ""))))
  | .cpOpen k r =>
    match w k with
    | none => .error .ENOENT
    | some d => .ok (upd w k (some (putItem C d r (.junk ""))))
  | .cpWrite k r c =>
    match w k with
    | none => .error .ENOENT
    | some d => .ok (upd w k (some (putItem C d r c)))

/-- the first `t` bytes of the chunk reach the file, then the process dies -/
def tornApply {Sp} (C : Codec Sp) (w : World Sp) (s : Step Sp) (t : Nat) : World Sp :=
  match s with
  | .tmpWrite k n c =>
    match w k with
    | none => w
    | some d => upd w k (some { d with strays := setStray n (.junk (String.ofList ((c.bytes C).toList.take t))) d.strays })
  | .cpWrite k r c =>
    match w k with
    | none => w
    | some d => upd w k (some (putItem C d r (.junk (String.ofList ((c.bytes C).toList.take t)))))
  | _ => w

/- ---------------------------------------------------------------- programs -/
inductive Res where
  | ok
  | exc (name : String)
  | crashed
  deriving DecidableEq, Repr

def osExc (e : Errno) : Res := .exc ("OSError(" ++ e.name ++ ")")

/-- a program: file-system steps, each with what the code does when the step succeeds (`none`)
    or fails with an errno (`some e`); `look` reads the current file system -/
inductive Prog (Sp : Type) where
  | done (r : Res)
  | look (f : World Sp → Prog Sp)
  | step (s : Step Sp) (k : Option Errno → Prog Sp)

inductive Ev where
  | fault (e : Errno)
  | crash
  | torn (t : Nat)
  deriving DecidableEq, Repr

/-- bookkeeping of a run: number of steps announced (performed, failed or faulted), the steps
    in reverse program order, and whether an injected fault was consumed -/
structure Acc (Sp : Type) where
  n : Nat := 0
  trace : List (Step Sp) := []
  faulted : Bool := false

def Acc.ok {Sp} (a : Acc Sp) (s : Step Sp) : Acc Sp := ⟨a.n + 1, s :: a.trace, a.faulted⟩
def Acc.flt {Sp} (a : Acc Sp) (s : Step Sp) : Acc Sp := ⟨a.n + 1, s :: a.trace, true⟩

structure Outcome (Sp : Type) where
  w : World Sp
  res : Res
  acc : Acc Sp

/-- run a program; `ev n` is what happens to step number `n` -/
def exec {Sp} (C : Codec Sp) (ev : Nat → Option Ev) : Prog Sp → Acc Sp → World Sp → Outcome Sp
  | .done r, a, w => ⟨w, r, a⟩
  | .look f, a, w => exec C ev (f w) a w
  | .step s k, a, w =>
    match ev a.n with
    | some .crash => ⟨w, .crashed, a⟩
    | some (.torn t) => ⟨tornApply C w s t, .crashed, a⟩
    | some (.fault e) => exec C ev (k (some e)) (a.flt s) w
    | none =>
      match apply C w s with
      | .ok w' => exec C ev (k none) (a.ok s) w'
      | .error e => exec C ev (k (some e)) (a.ok s) w

def run {Sp} (C : Codec Sp) (ev : Nat → Option Ev) (p : Prog Sp) (w : World Sp) : Outcome Sp :=
  exec C ev p {} w

/-- steps in sequence; the first failure is handed to `onErr` -/
def seqProg {Sp} (onErr : Errno → Prog Sp) (next : Prog Sp) : List (Step Sp) → Prog Sp
  | [] => next
  | s :: ss => .step s (fun | none => seqProg onErr next ss | some e => onErr e)

def hasSpFile {Sp} (w : World Sp) (k : Key) : Bool :=
  match w k with
  | some d => d.sp.isSome
  | none => false

/-- `_StatePointDict.save(force)`: write (temp + replace) only if forced or the file is absent.
    An error other than EEXIST/EACCES: `os.remove(filename)` (errors ignored), re-raise.
    EEXIST/EACCES: nothing is re-raised — the caller goes on. -/
def saveProg {Sp} (k : Key) (v : Sp) (force : Bool) (next : Prog Sp) : Prog Sp :=
  let onErr : Errno → Prog Sp := fun e =>
    if e = .EEXIST ∨ e = .EACCES then next
    else .step (.rmSp k) (fun _ => .done (osExc e))
  .look fun w =>
    if force || !hasSpFile w k then
      .step (.tmpOpen k spName) fun
        | some e => onErr e
        | none => .step (.tmpWrite k spName (.ok v)) fun
          | some e => onErr e
          | none => .step (.tmpCommit k spName) fun
            | some e => onErr e
            | none => next
    else next

/-- the closing `statepoint.load(id)` of `init` -/
def loadProg {Sp} (C : Codec Sp) (k : Key) : Prog Sp :=
  .look fun w => if validAt C w k then .done .ok else .done (.exc "JobsCorruptedError")

/-- `Job.init(force)` for the job `k` with in-memory state point `v` -/
def initProg {Sp} (C : Codec Sp) (k : Key) (v : Sp) (force : Bool) : Prog Sp :=
  .look fun w =>
    if validAt C w k then .done .ok
    else if (w k).isSome then saveProg k v force (loadProg C k)
    else .step (.mkdir k) fun
      | some e => .done (osExc e)
      | none => saveProg k v force (loadProg C k)

/-- `_StatePointDict._save` for a changed id: job directory `x` becomes `y`, state point `v` -/
def rekeyProg {Sp} (C : Codec Sp) (x y : Key) (v : Sp) : Prog Sp :=
  -- the tail shared by all non-raising paths: drop `y/sp~` (ENOENT is fine), then maybe init
  let finish : Bool → Prog Sp := fun shouldInit =>
    .step (.rmBak y) fun
      | none => if shouldInit then initProg C y v false else .done .ok
      | some e => if e = .ENOENT then (if shouldInit then initProg C y v false else .done .ok)
                  else .done (osExc e)
  .step (.spToBak x) fun
    | some e => if e = .ENOENT then finish false else .done (osExc e)
    | none => .step (.renameDir x y) fun
      | none => finish true
      | some e => .step (.bakToSp x) fun                  -- rollback
        | some e2 => if e2 = .ENOENT then finish false else .done (osExc e2)
        | none => .look fun w =>
          -- `self.load(old_id)`: the restored file must validate, else JobsCorruptedError
          if !validAt C w x then .done (.exc "JobsCorruptedError")
          else if e = .EEXIST ∨ e = .ENOTEMPTY ∨ e = .EACCES then .done (.exc "DestinationExistsError")
          else if e = .ENOENT then finish false
          else .done (osExc e)

/-- `Job.move`: one rename, errno mapping -/
def moveProg {Sp} (a b : Key) : Prog Sp :=
  .step (.renameDir a b) fun
    | none => .done .ok
    | some e =>
      if e = .ENOENT then .done (.exc "RuntimeError")
      else if e = .EEXIST ∨ e = .ENOTEMPTY ∨ e = .EACCES then .done (.exc "DestinationExistsError")
      else if e = .EXDEV then .done (.exc "RuntimeError")
      else .done (osExc e)

def isUnder (dir path : String) : Bool := (dir ++ "/").isPrefixOf path

/-- `shutil._copytree` over the items in scan order: a failing entry is remembered and the copy
    goes on; a directory whose `mkdir` failed is skipped with everything below it -/
def copyList {Sp} (src : JobDir Sp) (dst : Key) : List Ref → Bool → List String → Prog Sp
  | [], errs, _ => .done (if errs then .exc "Error" else .ok)
  | r :: rs, errs, failed =>
    if failed.any (fun f => isUnder f r.path) then copyList src dst rs errs failed
    else
      match r with
      | .dir p => .step (.cpMkdir dst p) fun
          | none => copyList src dst rs errs failed
          | some _ => copyList src dst rs true (p :: failed)
      | r => .step (.cpOpen dst r) fun
          | some _ => copyList src dst rs true failed
          | none =>
            match itemContent src r with
            | .junk "" => copyList src dst rs errs failed       -- empty file: no write call
            | c => .step (.cpWrite dst r c) fun
                | none => copyList src dst rs errs failed
                | some _ => copyList src dst rs true failed

/-- `Project.clone(job)`: copytree(src, dst) -/
def cloneProg {Sp} (src dst : Key) (order : List Ref) : Prog Sp :=
  .look fun w =>
    match w src with
    | none => .done (.exc "ValueError")
    | some d => .step (.cpMkdir dst "") fun
      | none => copyList d dst order false []
      | some e =>
        if e = .EEXIST then .done (.exc "DestinationExistsError")
        else if e = .ENOENT then .done (.exc "ValueError")
        else .done (osExc e)

/-- pop the directories that the next path is not below -/
def popClosed (next : String) : List String → List String × List String
  | [] => ([], [])
  | top :: rest =>
    if isUnder top next then ([], top :: rest)
    else
      let (closed, keep) := popClosed next rest
      (top :: closed, keep)

/-- `shutil.rmtree` order over the items in scan (pre-)order: files are unlinked as met, a
    directory is removed when the scan leaves it -/
def rmOrder {Sp} (k : Key) : List Ref → List String → List (Step Sp)
  | [], stack => stack.map (fun p => .rmItem k (.dir p))
  | r :: rs, stack =>
    let pc := popClosed r.path stack
    pc.1.map (fun p => Step.rmItem k (.dir p)) ++
      (match r with
       | .dir p => rmOrder k rs (p :: pc.2)
       | r => .rmItem k r :: rmOrder k rs pc.2)

/-- the error handling shared by `remove` and `clear`: ENOENT is read as "not there" -/
def rmErr {Sp} (e : Errno) : Prog Sp :=
  if e = .ENOENT then .done .ok else .done (osExc e)

/-- `Job.remove()`: rmtree of the job directory -/
def removeSteps {Sp} (k : Key) (order : List Ref) : List (Step Sp) :=
  rmOrder k order [] ++ [.rmJobDir k]

def removeProg {Sp} (k : Key) (order : List Ref) : Prog Sp :=
  .look fun w =>
    match w k with
    | none => .done .ok
    | some _ => seqProg rmErr (.done .ok) (removeSteps k order)

/-- `Job.clear()`: everything but the state-point and the document file goes, then the
    document is reset to `{}` (temp + replace) -/
def clearSteps {Sp} (k : Key) (order : List Ref) : List (Step Sp) :=
  rmOrder k (order.filter (fun r => !(r = .sp || r = .file docName))) [] ++
    [.tmpOpen k docName, .tmpWrite k docName (.junk "{}"), .tmpCommit k docName]

def clearProg {Sp} (k : Key) (order : List Ref) : Prog Sp :=
  .look fun w =>
    match w k with
    | none => .done .ok
    | some _ => seqProg rmErr (.done .ok) (clearSteps k order)

/- ---------------------------------------------------------------- operations -/
inductive Op (Sp : Type) where
  | init (k : Key) (v : Sp) (force : Bool)
  | rekey (x y : Key) (v : Sp)
  | move (a b : Key)
  | clone (src dst : Key) (order : List Ref)
  | remove (k : Key) (order : List Ref)
  | clear (k : Key) (order : List Ref)

def Op.prog {Sp} (C : Codec Sp) : Op Sp → Prog Sp
  | .init k v f => initProg C k v f
  | .rekey x y v => rekeyProg C x y v
  | .move a b => moveProg a b
  | .clone s d o => cloneProg s d o
  | .remove k o => removeProg k o
  | .clear k o => clearProg k o

/-- the directories an operation may modify (the source of a clone is not among them) -/
def Op.keys {Sp} : Op Sp → List Key
  | .init k _ _ => [k]
  | .rekey x y _ => [x, y]
  | .move a b => [a, b]
  | .clone _ d _ => [d]
  | .remove k _ => [k]
  | .clear k _ => [k]

/-- single events -/
def crashAt (k : Nat) : Nat → Option Ev := fun n => if n = k then some .crash else none
def tornAt (k t : Nat) : Nat → Option Ev := fun n => if n = k then some (.torn t) else none
def faultAt (k : Nat) (e : Errno) : Nat → Option Ev := fun n => if n = k then some (.fault e) else none
def noEv : Nat → Option Ev := fun _ => none

/-- all states a process death can leave behind while running `p` from `w` (fault-free run):
    before each step, and inside each write after any number of bytes -/
def crashStates {Sp} (C : Codec Sp) (p : Prog Sp) (w : World Sp) : World Sp → Prop :=
  fun w' => ∃ ev, (∀ n e, ev n ≠ some (.fault e)) ∧ (run C ev p w).res = .crashed ∧ (run C ev p w).w = w'


/- ---------------------------------------------------------------- specification (C11) -/
/-- ENOENT is never injected: signac reads it as "not there" by design -/
def NoENOENT (ev : Nat → Option Ev) : Prop := ∀ n, ev n ≠ some (.fault .ENOENT)

/-- a rename target that `os.replace` accepts: nothing there, or an empty directory -/
def DstFree {Sp} (w : World Sp) (b : Key) : Prop := w b = none ∨ ∃ d, w b = some d ∧ d.isEmpty = true

def Outcome.faulted {Sp} (o : Outcome Sp) : Bool := o.acc.faulted

/-- `init` of job `k` (state point `v`, no force) from `w`, whatever happened on the way:
    payload and backup of the directory are as before (a new directory is empty);
    the directory validates afterwards only if nothing changed or there was NO state-point
    file before and the one now present is the complete requested one;
    a normal return means the job validates and no fault was consumed (`f0` = faults before);
    an exception leaves the directory as it was or reported by `check()`. -/
def InitSpec {Sp} (C : Codec Sp) (k : Key) (v : Sp) (w : World Sp) (f0 : Bool) (o : Outcome Sp) : Prop :=
  (match w k with
   | some d => ∃ d', o.w k = some d' ∧ d'.entries = d.entries ∧ d'.bak = d.bak
   | none => o.w k = none ∨ ∃ d', o.w k = some d' ∧ d'.entries = [] ∧ d'.bak = none) ∧
  (validAt C o.w k = true →
     o.w k = w k ∨ (hasSpFile w k = false ∧ ∃ d', o.w k = some d' ∧ d'.sp = some (.ok v))) ∧
  (o.res = .ok → validAt C o.w k = true ∧ o.faulted = f0) ∧
  (∀ n, o.res = .exc n → o.w k = w k ∨ corruptAt C o.w k = true)


/-- state-point change of the job in directory `x` (content `D`, state-point file present)
    to state point `v` / directory `y`, whatever happened on the way:
    (A) the data is still at `x`, `y` is exactly as before, and the state-point file of `x` is the
        old one or absent (parked in `sp~`), or
    (B) `x` is gone, `y` was free and now holds the data, and validates only with the complete new state point.
    A normal return means (B) with the new state point and no fault consumed; an exception leaves the
    old job intact or one of the two directories reported by `check()`. -/
def RekeySpec {Sp} (C : Codec Sp) (x y : Key) (v : Sp) (w : World Sp) (D : JobDir Sp) (o : Outcome Sp) : Prop :=
  ((∃ d, o.w x = some d ∧ d.entries = D.entries ∧ o.w y = w y ∧ (d.sp = D.sp ∨ d.sp = none)) ∨
   (o.w x = none ∧ DstFree w y ∧
     ∃ d, o.w y = some d ∧ d.entries = D.entries ∧ (validAt C o.w y = true → d.sp = some (.ok v)))) ∧
  (o.res = .ok → o.faulted = false ∧ o.w x = none ∧
     ∃ d, o.w y = some d ∧ d.entries = D.entries ∧ d.sp = some (.ok v) ∧ validAt C o.w y = true) ∧
  (∀ n, o.res = .exc n →
     (∃ d, o.w x = some d ∧ d.entries = D.entries ∧ d.sp = D.sp ∧ o.w y = w y) ∨
     corruptAt C o.w x = true ∨ corruptAt C o.w y = true)

/-- `move` of directory `a` to `b`: nothing changed and an error (or death), or the complete move -/
def MoveSpec {Sp} (a b : Key) (w : World Sp) (o : Outcome Sp) : Prop :=
  (o.w a = w a ∧ o.w b = w b ∧ o.res ≠ .ok) ∨
  (o.res = .ok ∧ o.faulted = false ∧ DstFree w b ∧ (w a).isSome = true ∧ o.w a = none ∧ o.w b = w a)


/-- `remove` / `clear` of the job in directory `k` (content `D`), whatever happened on the way
    (the property exempts removals from "all data still there"): the directory is gone, or its
    state-point file is the old one or absent — so it validates only if it did before —, and,
    when ENOENT is not injected, a consumed fault never ends in a normal return. -/
def RemovalSpec {Sp} (ev : Nat → Option Ev) (k : Key) (D : JobDir Sp) (o : Outcome Sp) : Prop :=
  (o.w k = none ∨ ∃ d, o.w k = some d ∧ (d.sp = D.sp ∨ d.sp = none)) ∧
  (NoENOENT ev → o.faulted = true → o.res ≠ .ok)

/-- `remove` only ever deletes: what is left of the payload is a sub-list of what was there -/
def RemoveShrinks {Sp} (k : Key) (D : JobDir Sp) (o : Outcome Sp) : Prop :=
  o.w k = none ∨ ∃ d, o.w k = some d ∧ d.entries.Sublist D.entries


/-- the state-point file of a destination while the directory `S` is being copied into it:
    absent, junk (empty / torn), or exactly the source's -/
def SpPartial {Sp} (S d : JobDir Sp) : Prop :=
  d.sp = none ∨ d.sp = S.sp ∨ ∃ s, d.sp = some (.junk s)

/-- `clone` of the job directory `src` (content `S`) to `dst`, whatever happened on the way:
    the source is untouched; an existing destination is untouched and the call does not return
    normally; a fresh destination is absent or a partial copy whose state-point file is absent, junk
    or the source's; a consumed fault never ends in a normal return. -/
def CloneSpec {Sp} (src dst : Key) (w : World Sp) (S : JobDir Sp) (o : Outcome Sp) : Prop :=
  o.w src = w src ∧
  ((w dst).isSome = true → o.w dst = w dst ∧ o.res ≠ .ok) ∧
  (w dst = none → o.w dst = none ∨ ∃ d, o.w dst = some d ∧ SpPartial S d) ∧
  (o.faulted = true → o.res ≠ .ok)

/-- what C11 asks of a clone: the destination is as before, or reported by `check()`, or holds
    every item of the source -/
def CloneGood {Sp} (C : Codec Sp) (dst : Key) (w : World Sp) (order : List Ref) (o : Outcome Sp) : Prop :=
  o.w dst = w dst ∨ corruptAt C o.w dst = true ∨ ∃ d, o.w dst = some d ∧ ∀ r ∈ order, hasItem d r = true

/-- the full statement for clone (false: S-11) -/
def clone_safe_full : Prop :=
  ∀ (Sp : Type) (C : Codec Sp) (src dst : Key) (order : List Ref) (w : World Sp) (ev : Nat → Option Ev),
    src ≠ dst → (w src).isSome = true → NoENOENT ev →
    CloneGood C dst w order (run C ev (cloneProg src dst order) w)


/-- the operations covered by `crash_safe` / `fault_safe` (clone: see `clone_safe_partial`) -/
def Op.covered {Sp} : Op Sp → Prop
  | .init _ _ f => f = false
  | .rekey x y _ => x ≠ y
  | .move a b => a ≠ b
  | .clone _ _ _ => False
  | .remove _ _ => True
  | .clear _ _ => True

/-- where the affected job's data is, and what may validate (per operation) -/
def DataGood {Sp} (C : Codec Sp) (w w' : World Sp) : Op Sp → Prop
  | .init k v _ =>
    (match w k with
     | some d => ∃ d', w' k = some d' ∧ d'.entries = d.entries ∧ d'.bak = d.bak
     | none => w' k = none ∨ ∃ d', w' k = some d' ∧ d'.entries = [] ∧ d'.bak = none) ∧
    (validAt C w' k = true → w' k = w k ∨ (hasSpFile w k = false ∧ ∃ d', w' k = some d' ∧ d'.sp = some (.ok v)))
  | .rekey x y v =>
    ∀ D, w x = some D → D.sp.isSome = true →
      (∃ d, w' x = some d ∧ d.entries = D.entries ∧ w' y = w y ∧ (d.sp = D.sp ∨ d.sp = none)) ∨
      (w' x = none ∧ DstFree w y ∧
        ∃ d, w' y = some d ∧ d.entries = D.entries ∧ (validAt C w' y = true → d.sp = some (.ok v)))
  | .move a b =>
    (w' a = w a ∧ w' b = w b) ∨ (DstFree w b ∧ (w a).isSome = true ∧ w' a = none ∧ w' b = w a)
  | .clone _ _ _ => True
  | .remove k _ => ∀ D, w k = some D → w' k = none ∨ ∃ d, w' k = some d ∧ (d.sp = D.sp ∨ d.sp = none)
  | .clear k _ => ∀ D, w k = some D → w' k = none ∨ ∃ d, w' k = some d ∧ (d.sp = D.sp ∨ d.sp = none)

/-- C11 for a state `w'` reached from `w` by (part of) operation `op`:
    every directory validates or is reported by check(); every directory other than the
    operation's own is identical; the affected job's data sits in exactly one directory and
    nothing validates with a state point the job never had (`DataGood`). -/
def Good {Sp} (C : Codec Sp) (op : Op Sp) (w w' : World Sp) : Prop :=
  (∀ k, (w' k).isSome = true → validAt C w' k = true ∨ corruptAt C w' k = true) ∧
  (∀ k, k ∉ op.keys → w' k = w k) ∧
  DataGood C w w' op

/-- after a consumed fault: the old state of the affected job, or a state check() reports
    (removals: any state between pre and post, see `DataGood`) -/
def FaultGood {Sp} (C : Codec Sp) (w w' : World Sp) : Op Sp → Prop
  | .init k _ _ => w' k = w k ∨ corruptAt C w' k = true
  | .rekey x y _ =>
    ∀ D, w x = some D → D.sp.isSome = true →
      (∃ d, w' x = some d ∧ d.entries = D.entries ∧ d.sp = D.sp ∧ w' y = w y) ∨
      corruptAt C w' x = true ∨ corruptAt C w' y = true
  | .move a b => w' a = w a ∧ w' b = w b
  | _ => True

/- ---------------------------------------------------------------- sequencing, `Job.reset` -/
/-- `p ; q` — two calls in a row in the same process: run `p`; if it returns normally (`done ok`)
    go on with `q` on the file system `p` left; an exception of `p` propagates and ends the
    composite (a process death ends any run anyway, see `exec`).  The composite is ONE program, so
    `exec` numbers its steps through: the steps of `q` continue the count of `p`, and the event
    schedule (indexed by global step number) applies to both halves. -/
def Prog.seq {Sp} : Prog Sp → Prog Sp → Prog Sp
  | .done .ok, q => q
  | .done (.exc n), _ => .done (.exc n)
  | .done .crashed, _ => .done .crashed
  | .look f, q => .look (fun w => (f w).seq q)
  | .step s k, q => .step s (fun o => (k o).seq q)

/-- `Job.reset()` = `self.clear(); self.init()` (signac/job.py): `clear` does nothing on a job
    whose directory is missing (`os.listdir` raises ENOENT, which `clear` swallows) and `init`
    then creates it; on an existing directory `clear` empties it and rewrites the document, and
    `init` (no force, validating) finds the untouched state-point file and returns at once — or
    writes the file if the directory had none. -/
def resetProg {Sp} (C : Codec Sp) (k : Key) (order : List Ref) (v : Sp) : Prog Sp :=
  (clearProg k order).seq (initProg C k v false)

/-- the regression the `reset` scenarios of the differential harness guard against:
    `reset` implemented as `self.remove(); self.init()` -/
def removeThenInitProg {Sp} (C : Codec Sp) (k : Key) (order : List Ref) (v : Sp) : Prog Sp :=
  (removeProg k order).seq (initProg C k v false)

end Signac.Life

"""Write seeded/README.md: one row per kept seeded change with what the checks printed."""
import json
import os

VERIF = os.path.dirname(os.path.dirname(os.path.abspath(__file__)))
S = os.path.join(VERIF, "seeded")


def main():
    rows = []
    for d in sorted(os.listdir(S)):
        p = os.path.join(S, d)
        if not os.path.isdir(p) or not os.path.exists(os.path.join(p, "meta.json")):
            continue
        meta = json.load(open(os.path.join(p, "meta.json")))
        res = json.load(open(os.path.join(p, "result.json"))) if os.path.exists(os.path.join(p, "result.json")) else {}
        runs = res.get("runs", [])
        verdicts = []
        for r in runs:
            nfi = any("no-failing-input-found" in l for l in r.get("lines", []))
            v = {0: "MISSED", 1: "caught" + (" (correspondence only, no-failing-input-found)" if nfi else " with replay"), 2: "internal error"}.get(r["exit"], str(r["exit"]))
            first = next((l.strip() for l in r.get("lines", []) if l.startswith("  ")), "")
            verdicts.append("%s: %s%s" % (r["check"], v, (" — " + first[:160]) if first else ""))
        summ = (meta.get("summary") or "")
        if isinstance(summ, list):
            summ = " ".join(summ)
        rows.append("| %s | %s | %s | %s | tests: %s; demo patched/clean exit %s/%s | %s |" % (
            d, meta.get("property"), summ.replace("|", "/").replace("\n", " ")[:300],
            str(meta.get("needs_to_manifest", "")).replace("|", "/").replace("\n", " ")[:250],
            (res.get("tests") or "not re-run").split(" in ")[0], res.get("demo_patched_exit"), res.get("demo_clean_exit"),
            ("<br>".join(verdicts) + (("<br>NOTE: " + res["note"]) if res.get("note") else "")).replace("|", "/")))
    out = ["# Seeded changes", "",
           "Produced by fresh sub-agents given only the property text and a scratch worktree (see DESIGN.md §6). Each directory holds",
           "`patch.diff` (applies to /repo HEAD at the time of the run), `demo.py` (exit 1 with the patch, 0 without), `meta.json`, and",
           "`result.json` written by `harness/seedtest.py` (tests, demo exits, and what the registered check printed against a patched",
           "scratch copy of /repo).", "",
           "| id | property | change | needs to manifest | confirmation | check verdict (quick tier, seed 0) |", "|---|---|---|---|---|---|"] + rows
    open(os.path.join(S, "README.md"), "w").write("\n".join(out) + "\n")
    print(len(rows), "rows")


if __name__ == "__main__":
    main()

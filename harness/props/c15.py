"""C15 — sync options are honoured: dry-run writes nothing, deep, exclude, selection, parallel (DESIGN §4 C15)."""
from harness import sync_common as sc

ID = "C15"
TITLE = "Sync options are honoured: dry-run writes nothing, deep, exclude, selection"
LEAN_MODULE = "Signac.Properties.C15"
DRIVER = "drv_sync"
DESIGN_REF = "DESIGN.md §4 C15"
RULE = ("the C13 universe biased to pairs where something would be copied, cloned or merged (nested documents "
        "included), conflicting files sharing size and mtime, excluded names on either side and inside copied "
        "directories; x {dry_run, deep, 12 exclude settings, selection by job / id, parallel in {False, 2, True}} x "
        "4 entry points; half of the list-valued exclude settings also passed as a tuple / a one-shot iterator (refused "
        "with TypeError, or accepted and then equal in outcome and destination tree to the list spelling, on scratch "
        "copies); every dry run and every parallel run is paired with the real / sequential run from an "
        "identical copy of the initial state; distinct = distinct (layout, options, entry point); non-trivial = "
        "something to synchronise")
MODELLED = ["as C13, plus: multiprocessing.pool.ThreadPool (not modelled; the commutation theorem covers every "
            "schedule of atomic steps, the real thread pool is sampled)"]
ASSUMPTIONS = ["each file-level step (copy, document write, mkdir) is atomic with respect to the others",
               "job directories contain regular files and directories only"]
EXHAUSTIVE = {"quick": False, "thorough": False}
TECHNIQUE = ("Lean 4 theorems about the executable sync model (proxy gating of every mutation, outcome independent "
             "of dry_run, comparison by content, pruning copies, selection, commutation of steps with disjoint "
             "footprints) + differential correspondence against the real entry points, dry runs and parallel runs "
             "paired with real / sequential twin runs")
LEVEL_TEXT = ('Proved in Lean (Signac/Properties/C15.lean), same model as C13, for all project pairs / options / entry points: with '
    'dry_run no mutating step is logged and the destination is unchanged (dry_run_no_step), and the dry run reports exactly the '
    'outcome (ok or the same exception with the same payload) of the real run from the same state (dry_run_same_outcome); with '
    'deep two files differ iff their bytes differ (deep_by_content), a reachable non-excluded file with different bytes makes '
    'sync_jobs raise FileSyncConflict when there is no strategy (deep_conflict_detected) and makes a project sync fail as well '
    '(deep_at_project_level); a path whose last name is excluded is never created and a file so named never modified, at any '
    'depth, in existing (exclude_never_touched) and cloned jobs (exclude_never_cloned); jobs outside the selection are never '
    'created or modified (unselected_never_touched); steps of different jobs have disjoint footprints and commute, so every '
    "schedule that keeps each job's steps in order gives the same job directories (parallel_eq_sequential, per_job_footprint). "
    'Compared with the real entry points; every dry run / parallel run is paired with a real / sequential twin run.')
LEVEL_NOTE = ('The model is the code WITH the fixes F-15a-g (proposed/*.md): the unchanged tree violates every part of C15 except '
    'selection; those cases are found by the oracle, listed as known findings and carved out of the correspondence. '
    'dry_run_same_outcome assumes distinct names per directory listing, distinct keys in source job documents and that the '
    'implicit exclude patterns match the names they are made from. The parallel theorem is about schedules of atomic steps; real '
    'ThreadPool interleavings are only sampled (parallel in {2, True} vs a sequential twin), and on a failing parallel run only '
    'the exception kind is compared. Dry-run oracle: bytes + structure of both trees, mtimes of all non-document files. '
    'Trusted base as in C13.')


def generate(tier, rng):
    n = 9000 if tier == "quick" else 60000
    for _ in range(n):
        yield sc.gen_case(rng, "c15")


def search(rng, deadline):
    while True:
        yield sc.gen_case(rng, "c15")


def shrink(case):
    yield from sc.shrink_case(case)


def run_case(case, ctx):
    opts = case["opts"]
    twin = None
    if opts["dry_run"] or opts["parallel"]:
        twin = {"dry_run": False, "parallel": False}
    o = sc.observe(case, ctx, second_run=False, twin_opts=twin)
    fails = sc.oracle_c15(o)
    if opts["parallel"] and o.kind1 != "ok":
        model, impl = [], []   # which jobs ran before the exception surfaced is up to the thread pool
    else:
        model, impl = [o.line1], [o.impl1]
    return sc.result(o, fails, model, impl)


def known_class(case, result):
    return sc.known_class(case, result)

"""C13 — a successful sync makes the destination a superset and touches nothing else (DESIGN §4 C13)."""
import json

from harness import sync_common as sc

ID = "C13"
TITLE = "A successful sync makes the destination a superset and touches nothing else"
LEAN_MODULE = "Signac.Properties.C13"
DRIVER = "drv_sync"
DESIGN_REF = "DESIGN.md §4 C13"
RULE = ("pairs of real projects (0-4 jobs each over 6 state points, overlapping/disjoint ids; files identical / "
        "same-bytes-other-mtime / same-size-other-bytes / differing / one-sided / nested / type clashes; names from "
        "filecmp.DEFAULT_IGNORES; names matching an exclude pattern only as a prefix; job and project documents "
        "overlapping / nested / mixed-type / conflicting) x options (5 file strategies, 6 document strategies, "
        "recursive, 10 exclude settings, selection by id / job, check_schema) x 4 entry points; explicit mtimes; "
        "every call made twice; plus 12 'live destination' scenarios (another process completes a write of destination-"
        "only keys while the document is being merged; oracle only); distinct = distinct (layout, options, entry point); non-trivial = something to "
        "synchronise (>=1 selected source job or differing project documents)")
MODELLED = ["filecmp.dircmp / filecmp.cmp (listing order, (type,size,mtime) signature rule) — re-stated in Lean",
            "shutil.copy / copytree (bytes copied, fresh mtime) — re-stated in Lean",
            "re.match of exclude patterns and key strategies (table computed by the harness with Python's re)",
            "synced_collections document files (read back with json.loads)",
            "Project.__iter__ order of the source jobs (read from the real project, sent with the case)",
            "the state point schema gate (recomputed by the harness from the flat state points of the universe)"]
ASSUMPTIONS = ["job directories contain regular files and directories only (no symlinks, sockets)",
               "the preserve_* flags and follow_symlinks keep their defaults",
               "no other process touches either project during the call"]
EXHAUSTIVE = {"quick": False, "thorough": False}
TECHNIQUE = ("Lean 4 theorems about an executable model of signac/sync.py (directory walk, copy/copytree, document "
             "merge under backup, clone-or-sync, schema gate, selection) + differential correspondence of the compiled "
             "model against the real sync entry points on generated project pairs, every call run twice")
LEVEL_TEXT = ('Proved in Lean (Signac/Properties/C13.lean) for an executable model of signac/sync.py, for all pairs of project trees, '
    'all option values, arbitrary strategy / exclusion functions: the source project is returned unchanged by every call '
    '(sync_src_frame) and the destination after the call is exactly the logged put/del steps replayed on the destination '
    'before it (sync_steps_on_dst); after a successful real project sync every selected source job exists in the destination '
    "as a clone or as the result of a successful sync_jobs, with the source's state point bytes (sync_job_result, "
    'sync_sp_superset); every source file the walk has to deliver (absent in the destination, reached through common '
    'directories — below the top level only when recursive —, not excluded) is present byte-identically, in existing '
    '(sync_files_present) and cloned jobs (clone_files_present); paths, jobs and document keys (at any depth, ByKey; top level, '
    'update) that only the destination has are untouched, also by failed runs (sync_dst_only_*). On a LIVE destination '
    '(Signac/SyncLive.lean: the merge as a program of load / store-one-path steps on a shared file, another process rewriting '
    'the file between any two steps) the step program refines the pure merge when nobody interferes (live_refines_pure, '
    'live_refines_runDocSync, any nesting depth), no step ever changes a top-level key the source does not hold '
    '(live_steps_keep_foreign_keys, no hypothesis), and under any interference that leaves the source keys alone the report and '
    'the source keys are those of the quiet run and every foreign write survives (live_foreign_keys_preserved, '
    'live_foreign_write_survives); a merge through an in-memory snapshot written back whole is refuted on a concrete schedule '
    '(snapshot_merge_loses_writes). The model is compared with the '
    'real Project.sync / Job.sync / sync_projects / sync_jobs on every generated project pair, every call made twice; the direct '
    'oracle states the postcondition on byte snapshots.')
LEVEL_NOTE = ("Idempotence ('repeating the same sync changes nothing') is proved in full (sync_idempotent_full_partial: every entry point, "
    'file strategy, document strategy and key selector, no hypothesis on clocks or mtimes) under SyncHyp = the source documents have '
    'distinct keys at every depth and the document pattern matches the document files (both hold for every real call); layers '
    'doc_merge_idempotent, doc_sync_idempotent, sync_job_idempotent_partial, sync_clone_fixed_point, '
    'sync_project_idempotent_partial. The literal statement without SyncHyp is refuted in the model by two artefact witnesses '
    '(repeated document key; a document pattern matching nothing with a clock behind the mtimes). Every real call is still '
    'repeated and the model compared with the second call. The model has the behaviour '
    'of the code WITH the proposed fixes F-13, F-14a, F-15a-g (proposed/*.md); on the unchanged tree the cases in those classes '
    'are carved out of the correspondence (known_class) and judged by the oracle alone. Hypotheses: directory listings have '
    'distinct names (WFEntries); jobs with equal id have equal state point bytes (C01/C02). Trusted: Lean kernel + axioms '
    'propext/Classical.choice/Quot.sound; the harness (generator, snapshots, oracle); filecmp / shutil / re / synced_collections '
    'are modelled (listing order, signature rule, copy = same bytes + fresh mtime, re.match as a table), not verified. Not '
    'modelled: symlinks, preserve_* flags, follow_symlinks=False, the Ask strategy.')


def generate(tier, rng):
    import itertools
    for target, nested, approve, entry in itertools.product(("job", "project"), (False, True), (False, True), ("project", "job")):
        if target == "project" and entry == "job":
            continue
        yield {"kind": "live", "target": target, "nested": nested, "approve": approve, "entry": entry}
    for entry, dst_has_job, link in itertools.product(("project", "job"), (False, True), ("rel", "abs")):
        if entry == "job" and not dst_has_job:
            continue
        yield {"kind": "linkdir", "entry": entry, "dst_has_job": dst_has_job, "link": link}
    n = 9000 if tier == "quick" else 60000
    for _ in range(n):
        yield sc.gen_case(rng, "c13")


def search(rng, deadline):
    while True:
        yield sc.gen_case(rng, "c13")


def shrink(case):
    if case.get("kind") in ("live", "linkdir"):
        return
    yield from sc.shrink_case(case)


def run_live(case, ctx):
    """The destination is LIVE: while the sync merges a document, another process completes a write to that
    document (keys the source does not hold).  'Document keys that exist only in the destination are unchanged' -
    by the sync; it must not put a stale copy back.  The other process is played by a raw temp-file + replace
    write, performed at a deterministic point: when the key strategy is consulted.  Oracle only."""
    import json
    import os

    import signac
    from signac import sync as S

    base = ctx.fresh_dir("c13live")
    fails = []
    try:
        src = signac.init_project(os.path.join(base, "src"))
        dst = signac.init_project(os.path.join(base, "dst"))
        sp = {"a": 1}
        sdoc = {"tag": "new", "same": 1, "cfg": {"tag2": "new", "keep": 0}} if case["nested"] else {"tag": "new", "same": 1}
        ddoc = {"tag": "old", "same": 1, "progress": {"step": 3}, "cfg": {"tag2": "old", "keep": 0}} if case["nested"] \
            else {"tag": "old", "same": 1, "progress": {"step": 3}}
        if case["target"] == "job":
            sj, dj = src.open_job(sp).init(), dst.open_job(sp).init()
            sj.doc.update(sdoc)
            dj.doc.update(ddoc)
            fn = dj.doc.filename
        else:
            src.open_job(sp).init()
            src.doc.update(sdoc)
            dst.doc.update(ddoc)
            fn = dst.doc.filename
        calls = []

        def other_process_writes():
            with open(fn) as f:
                cur = json.load(f)
            cur["progress"] = {"step": 11}
            cur["checkpoint"] = "c7"
            tmp = os.path.join(os.path.dirname(fn), "._other_process")
            with open(tmp, "w") as f:
                json.dump(cur, f)
            os.replace(tmp, fn)

        def key_strategy(key):
            if not calls:
                other_process_writes()
            calls.append(key)
            return case["approve"]

        err = None
        try:
            if case["entry"] == "job":
                dst.open_job(sp).sync(src.open_job(sp), doc_sync=S.DocSync.ByKey(key_strategy))
            else:
                dst.sync(src, doc_sync=S.DocSync.ByKey(key_strategy), check_schema=False)
        except Exception as e:  # noqa: BLE001
            err = e
        with open(fn) as f:
            got = json.load(f)
        label = "live destination (%s document, %s entry, nested=%s, strategy answers %s)" % (
            case["target"], case["entry"], case["nested"], case["approve"])
        if err is not None:
            fails.append("%s: sync raised %s: %s" % (label, type(err).__name__, str(err)[:120]))
        if not calls:
            fails.append("%s: the key strategy was never consulted (scenario did not run)" % label)
        else:
            if got.get("progress") != {"step": 11} or got.get("checkpoint") != "c7":
                fails.append("%s: keys only the destination holds were written by another process during the merge "
                             "(progress.step=11, checkpoint='c7'); after the sync the document holds progress=%r checkpoint=%r"
                             % (label, got.get("progress"), got.get("checkpoint")))
            want = "new" if case["approve"] else "old"
            if err is None and got.get("tag") != want:
                fails.append("%s: conflicting key 'tag' is %r, expected %r" % (label, got.get("tag"), want))
        leftovers = [n for n in os.listdir(os.path.dirname(fn)) if n.endswith("~")]
        if leftovers:
            fails.append("%s: backup file left behind: %r" % (label, leftovers))
    finally:
        ctx.cleanup(base)
    return {"model": [], "impl": [], "oracle": fails, "tags": ["live-destination", "live:" + case["target"]],
            "key": "live:" + repr(sorted(case.items()))}


def run_linkdir(case, ctx):
    """A source job that reaches some of its files through a symbolic link to a directory (`latest -> run_3`): every
    non-excluded source FILE absent from the destination is present afterwards - also the ones below the link,
    whether the destination gets a link or a copy.  Recursive sync; newly cloned job or existing job.  Oracle only."""
    import os

    import signac

    base = ctx.fresh_dir("c13link")
    fails = []
    try:
        src = signac.init_project(os.path.join(base, "src"))
        dst = signac.init_project(os.path.join(base, "dst"))
        sp = {"a": 1}
        sj = src.open_job(sp).init()
        os.makedirs(sj.fn("run_3/deep"))
        files = {"run_3/out.txt": "result", "run_3/deep/x.bin": "xx", "top.txt": "t"}
        for rel, text in files.items():
            with open(sj.fn(rel), "w") as f:
                f.write(text)
        os.symlink("run_3" if case["link"] == "rel" else sj.fn("run_3"), sj.fn("latest"))
        if case["dst_has_job"]:
            dj = dst.open_job(sp).init()
            with open(dj.fn("top.txt"), "w") as f:
                f.write("t")
            os.utime(dj.fn("top.txt"), (1e9, 1e9))
            os.utime(sj.fn("top.txt"), (1e9, 1e9))
        err = None
        try:
            if case["entry"] == "job":
                dst.open_job(sp).sync(sj, recursive=True)
            else:
                dst.sync(src, recursive=True, check_schema=False)
        except Exception as e:  # noqa: BLE001
            err = e
        label = "source job with a symbolic link to a directory (%s entry, %s, %s link)" % (
            case["entry"], "job exists in the destination" if case["dst_has_job"] else "job is cloned", case["link"])
        if err is not None:
            fails.append("%s: sync raised %s: %s" % (label, type(err).__name__, str(err)[:120]))
        else:
            dj = dst.open_job(sp)
            for rel, text in list(files.items()) + [("latest/out.txt", "result"), ("latest/deep/x.bin", "xx")]:
                try:
                    with open(dj.fn(rel)) as f:
                        got = f.read()
                except OSError as e:
                    got = "<%s>" % type(e).__name__
                if got != text:
                    fails.append("%s: source file %s is %s in the destination after the sync" % (label, rel, got))
    finally:
        ctx.cleanup(base)
    return {"model": [], "impl": [], "oracle": fails, "tags": ["linkdir"], "key": "linkdir:" + repr(sorted(case.items()))}


def run_case(case, ctx):
    if case.get("kind") == "live":
        return run_live(case, ctx)
    if case.get("kind") == "linkdir":
        return run_linkdir(case, ctx)
    o = sc.observe(case, ctx, second_run=True)
    fails = sc.oracle_c13(o)
    model, impl = [o.line1], [o.impl1]
    if o.second and o.kind1 == "ok":
        model.append(o.line2)
        impl.append(o.impl2)
    return sc.result(o, fails, model, impl)


def known_class(case, result):
    if case.get("kind") in ("live", "linkdir"):
        return None
    return sc.known_class(case, result)

"""C13 — a successful sync makes the destination a superset and touches nothing else (DESIGN §4 C13)."""
import json

from harness import sync_common as sc

ID = "C13"
TITLE = "A successful sync makes the destination a superset and touches nothing else"
LEAN_MODULE = "Signac.Properties.C13"
DRIVER = "drv_sync"
DESIGN_REF = "DESIGN.md §4 C13"
RULE = ("pairs of real projects (0-4 jobs each over 6 state points, overlapping/disjoint ids; files identical / "
        "same-bytes-other-mtime / same-size-other-bytes / differing / one-sided / nested / type clashes; names from "
        "filecmp.DEFAULT_IGNORES; names matching an exclude pattern only as a prefix; job and project documents "
        "overlapping / nested / mixed-type / conflicting) x options (5 file strategies, 6 document strategies, "
        "recursive, 10 exclude settings, selection by id / job, check_schema) x 4 entry points; explicit mtimes; "
        "every call made twice; distinct = distinct (layout, options, entry point); non-trivial = something to "
        "synchronise (>=1 selected source job or differing project documents)")
MODELLED = ["filecmp.dircmp / filecmp.cmp (listing order, (type,size,mtime) signature rule) — re-stated in Lean",
            "shutil.copy / copytree (bytes copied, fresh mtime) — re-stated in Lean",
            "re.match of exclude patterns and key strategies (table computed by the harness with Python's re)",
            "synced_collections document files (read back with json.loads)",
            "Project.__iter__ order of the source jobs (read from the real project, sent with the case)",
            "the state point schema gate (recomputed by the harness from the flat state points of the universe)"]
ASSUMPTIONS = ["job directories contain regular files and directories only (no symlinks, sockets)",
               "the preserve_* flags and follow_symlinks keep their defaults",
               "no other process touches either project during the call"]
EXHAUSTIVE = {"quick": False, "thorough": False}
TECHNIQUE = ("Lean 4 theorems about an executable model of signac/sync.py (directory walk, copy/copytree, document "
             "merge under backup, clone-or-sync, schema gate, selection) + differential correspondence of the compiled "
             "model against the real sync entry points on generated project pairs, every call run twice")
LEVEL_TEXT = "see Signac/Properties/C13.lean"
LEVEL_NOTE = ""


def generate(tier, rng):
    n = 4000 if tier == "quick" else 40000
    for _ in range(n):
        yield sc.gen_case(rng, "c13")


def search(rng, deadline):
    while True:
        yield sc.gen_case(rng, "c13")


def shrink(case):
    yield from sc.shrink_case(case)


def run_case(case, ctx):
    o = sc.observe(case, ctx, second_run=True)
    fails = sc.oracle_c13(o)
    model, impl = [o.line1], [o.impl1]
    if o.second and o.kind1 == "ok":
        model.append(o.line2)
        impl.append(o.impl2)
    return sc.result(o, fails, model, impl)


def known_class(case, result):
    return sc.known_class(case, result)

"""C02 — initialised jobs persist and reopen exactly; opening is lazy (DESIGN §4 C02)."""
import copy
import json
import os

from harness import gen
from harness import ws_common as W
from harness.core import exc_name, tagged, tree_snapshot

ID = "C02"
TITLE = "Initialised jobs persist and reopen exactly; opening is lazy"
LEAN_MODULE = "Signac.Properties.C02"
# step level: init of a valid job performs no file-system step at all (Refinement.init_settled_no_step)
EXTRA_MODULES = ["Signac.Properties.Refinement"]
DRIVER = "drv_ws"
DESIGN_REF = "DESIGN.md §4 C02"
RULE = ("sets of 1-40 jobs whose ids are chosen to collide: state points {n:k} mined so that ids share prefixes of length 1-3 "
        "(every prefix length 1..32 has unique / ambiguous / absent instances), plus state points from the C01 value "
        "universe (nested, floats, bools, unicode); per set: byte snapshot of the project around every open_job(sp), "
        "mutation of the caller's mapping (top level and nested) after open, init, re-init through the same handle / a new "
        "handle / a fresh session with (bytes, mtime_ns, inode) of the state point file compared, then a fresh Project: "
        "iteration, membership, len, open by full id and by EVERY prefix length 1..32 of every id plus absent prefixes, "
        "type-exact state points; distinct = distinct (state point set, query set); non-trivial = >=2 jobs sharing a "
        "first id character")
MODELLED = ["os.listdir order (irrelevant: prefix resolution counts matches)"]
ASSUMPTIONS = ["valid state points as in C01"]
EXHAUSTIVE = {"quick": False, "thorough": False}
TECHNIQUE = ("Lean 4 theorems about open / init / open-by-id-or-prefix of the workspace model + differential run against real "
             "signac with byte/mtime/inode snapshots")
LEVEL_TEXT = ("Proved in Lean for every world, state point and prefix: open_job(sp) changes no job (lazy); init creates the job "
              "under the hash of its state point with exactly that state point and is idempotent (a second init is the "
              "identity); opening by id resolves a prefix exactly when one id starts with it (LookupError for several, "
              "KeyError for none and nothing cached), and the handle it yields carries the stored state point. The model is "
              "compared step by step with the real code on job sets mined for colliding id prefixes, for every prefix length "
              "1..32; the oracle checks on the real tree that open_job writes nothing, that later mutation of the caller's "
              "mapping does not reach the job, that re-init leaves bytes / mtime / inode of the state point file unchanged, "
              "and type-exact equality of the re-read state point.")
LEVEL_NOTE = ("At the file-system step level (Signac/Properties/Refinement.lean, audited with this check): init() of a job whose "
              "directory validates announces NO step - under every event schedule, so nothing can be rewritten, torn or "
              "faulted (init_settled_no_step, init_settled_any_schedule); a fresh init is exactly mkdir + temp open/write/commit "
              "(init_fresh_trace) and a second init after it is again no step (init_twice_no_step). "
              "Trusted: Lean kernel + 3 standard axioms; harness/oracle. 'Unaffected by later mutation' (deep copy) and 'never "
              "rewrites a valid file' are runtime facts decided by the oracle on the real code; the model states them as "
              "'open takes the value' and 'init of an existing job is the identity'.")

_MINED = None


def mined():
    """state points {n:k} grouped by the first characters of their id"""
    global _MINED
    if _MINED is None:
        by = {1: {}, 2: {}, 3: {}}
        for k in range(6000):
            i = W.ref_id({"n": k})
            for L in (1, 2, 3):
                by[L].setdefault(i[:L], []).append(k)
        _MINED = by
    return _MINED


def colliding_set(rng, size):
    by = mined()
    ks = set()
    while len(ks) < size:
        L = rng.choice([1, 2, 2, 3, 3])
        grp = rng.choice([g for g in by[L].values() if len(g) >= 2])
        ks.update(rng.sample(grp, min(len(grp), rng.randint(2, 3))))
    return [{"n": k} for k in sorted(ks)][:size]


def generate(tier, rng):
    n = 150 if tier == "quick" else 2500
    for i in range(n):
        size = rng.choice([1, 2, 3, 5, 8, 12, 20, 40]) if i % 5 else rng.choice([2, 3])
        sps = colliding_set(rng, size) if size > 1 else [{"n": rng.randrange(6000)}]
        if i % 3 == 0:
            sps += [gen.rand_obj(rng, rng.choice([1, 2, 3]), minlen=1, maxlen=4) for _ in range(rng.randint(1, 3))]
            sps = [json.loads(json.dumps(s)) for s in sps]
        if i % 4 == 1:
            sps = [{}] + sps          # the empty state point is a state point like any other
        uniq = {}
        for s in sps:
            uniq[W.ref_id(s)] = s
        sps = list(uniq.values())
        ninit = rng.randint(max(1, len(sps) // 2), len(sps))
        yield {"sps": sps, "ninit": ninit, "absent": ["%x" % rng.randrange(16 ** L) for L in (1, 2, 3, 5) for _ in range(2)]
               + ["0" * 32, "f" * 31, "g1"], "ms": rng.randrange(1 << 30)}


def search(rng, deadline):
    while True:
        for c in generate("thorough", rng):
            yield c


def shrink(case):
    sps = case["sps"]
    for i in range(len(sps)):
        if len(sps) > 1:
            yield dict(case, sps=sps[:i] + sps[i + 1:], ninit=min(case["ninit"], len(sps) - 1))
    if case["ninit"] > 1:
        yield dict(case, ninit=case["ninit"] - 1)


def stat_sig(fn):
    st = os.stat(fn)
    with open(fn, "rb") as f:
        return (st.st_mtime_ns, st.st_ino, st.st_size, f.read())


def mutate(x, seed):
    """in-place mutation of the caller's mapping after open_job"""
    x["__later"] = seed
    for k, v in list(x.items()):
        if isinstance(v, list):
            v.append("later")
        elif isinstance(v, dict):
            v["later"] = 1
            for vv in v.values():
                if isinstance(vv, list):
                    vv.append(0)
    for k in list(x)[:1]:
        if k != "__later":
            x[k] = "changed"


def extra_oracle(case, ctx):
    """The clauses of C02 that are facts about the real tree (no model involved)."""
    import signac

    fails = []
    d = ctx.fresh_dir("c02x")
    try:
        project = signac.init_project(d)
        sps = case["sps"]
        handles = []
        for n, sp in enumerate(sps):
            mine = copy.deepcopy(sp)
            before = tree_snapshot(d)
            job = project.open_job(mine)
            after = tree_snapshot(d)
            if before != after:
                fails.append("open_job(%r) changed the project directory: %s" % (sp, [x for x in after if x not in before][:3]))
            want = W.ref_id(sp)
            mutate(mine, case["ms"])
            if job.id != want or tagged(W.plain(job.statepoint())) != tagged(sp) or tagged(W.plain(dict(job.cached_statepoint))) != tagged(sp):
                fails.append("after mutating the caller's mapping the handle opened for %r reports id %s / %r" % (
                    sp, job.id, W.plain(job.statepoint())))
            handles.append(job)
        for n in range(case["ninit"]):
            job, sp = handles[n], sps[n]
            job.init()
            want = W.ref_id(sp)
            fn = os.path.join(project.workspace, want, "signac_statepoint.json")
            if not os.path.isfile(fn):
                fails.append("after init() of %r there is no %s" % (sp, os.path.relpath(fn, d)))
                continue
            with open(fn) as f:
                on_disk = json.load(f)
            if tagged(on_disk) != tagged(sp):
                fails.append("state point file of %r parses to %r" % (sp, on_disk))
            sig = stat_sig(fn)
            job.init()
            project.open_job(copy.deepcopy(sp)).init()
            signac.Project(d).open_job(copy.deepcopy(sp)).init()
            signac.Project(d).open_job(id=want).init()
            if stat_sig(fn) != sig:
                fails.append("re-init of %r rewrote its valid state point file (mtime/inode/bytes changed)" % (sp,))
            # the postcondition of init() holds after EVERY init(): if the file disappears (the directory emptied by
            # hand) a further init() through the same, already initialised handle puts it back - or raises
            if n == 0:
                os.remove(fn)
                try:
                    job.init()
                    ok_again = os.path.isfile(fn) and tagged(json.load(open(fn))) == tagged(sp)
                    if not ok_again:
                        fails.append("init() through an initialised handle returned normally although the state point file of "
                                     "%r is missing afterwards" % (sp,))
                except Exception:
                    job2 = signac.Project(d).open_job(copy.deepcopy(sp))
                    job2.init()
        names = sorted(os.listdir(project.workspace))
        exp = sorted(W.ref_id(sp) for sp in sps[: case["ninit"]])
        if names != exp:
            fails.append("workspace holds %s, initialised jobs: %s" % (names, exp))
        fresh = signac.Project(d)
        if sorted(j.id for j in fresh) != exp or len(fresh) != len(exp):
            fails.append("fresh session iterates %s (len %d), expected %s" % (sorted(j.id for j in fresh), len(fresh), exp))
        for n, sp in enumerate(sps):
            inside = fresh.open_job(copy.deepcopy(sp)) in fresh
            if inside != (n < case["ninit"]):
                fails.append("membership of %r in a fresh session is %s" % (sp, inside))
    finally:
        ctx.cleanup(d)
    return fails


def run_case(case, ctx):
    sps, ninit = case["sps"], case["ninit"]
    ops = []
    for n, sp in enumerate(sps):
        ops.append(["open", "h%d" % n, 0, sp])
    for n in range(ninit):
        ops.append(["init", "h%d" % n])
    for n in range(min(ninit, 2)):
        ops.append(["init", "h%d" % n])  # idempotence
    ids = [W.ref_id(sp) for sp in sps]
    # entries of the workspace that are NOT jobs but share (or are) an id prefix: they take no part in the
    # resolution of ids and prefixes (only exactly-id-named directories are jobs)
    if case.get("plants", True):
        for i in ids[:2]:
            ops.append(["plant", 0, i + ".tar"])
            ops.append(["plant", 0, i[:12]])
        for a in case["absent"][:2]:
            ops.append(["plant", 0, a + "_notes"])
    q = 0
    # in the SAME session: a state point that was only opened (never initialised) is not a job - its full id is unknown
    for n in range(ninit, len(sps)):
        q += 1
        ops.append(["openid", "q%d" % q, 0, ids[n]])
        ops.append(["drop", "q%d" % q])
    ops.append(["session", 0])
    # every prefix length of (a sample of) the ids, initialised or not, plus absent prefixes
    sample = ids if len(ids) <= 6 else ids[:3] + ids[-3:]
    for i in sample:
        for L in range(1, 33):
            q += 1
            ops.append(["openid", "q%d" % q, 0, i[:L]])
            ops.append(["drop", "q%d" % q])
    for a in case["absent"]:
        q += 1
        ops.append(["openid", "q%d" % q, 0, a])
        ops.append(["drop", "q%d" % q])
    # a job created by ANOTHER session after this one looked its id up in vain is found from then on
    for n in list(range(ninit, len(sps)))[:2]:
        q += 1
        ops.append(["openid", "q%d" % q, 0, ids[n]])            # KeyError: not a job yet
        ops.append(["xinit", 0, sps[n]])
        ops.append(["openid", "q%d" % q, 0, ids[n]])            # the job, by full id
        ops.append(["drop", "q%d" % q])
    records, failures = W.lockstep(ops, ctx, 2)
    failures = [f for f in failures if not f.startswith("KNOWN[")]
    failures += extra_oracle(case, ctx)
    executed = [r for r in records if "mop" in r]
    model = ["run " + " | ".join(r["mop"] for r in executed)] if executed else []
    impl = [" ".join(r["itok"] for r in executed)] if executed else []
    res = sorted({"res:" + r["real"].split(":")[0] for r in records if "real" in r and r["op"][0] == "openid"})
    firsts = [i[0] for i in ids[:ninit]]
    nontrivial = len(set(firsts)) < len(firsts)
    return {"model": model, "impl": impl, "oracle": failures[:5], "tags": res + ["njobs=%d" % min(len(sps), 10)],
            "key": json.dumps([sps, ninit, case["absent"]], sort_keys=True) if nontrivial else None}

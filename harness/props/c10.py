"""C10 — documents and the cache file are replaced atomically (DESIGN §4 C10).

A case is a scenario (what is on disk before, which single write is performed) plus a selection of
crash points or reader positions:

    {"sc": {...scenario...}, "part": ["crash", j, m]}     crash points with index = j (mod m)
    {"sc": {...}, "part": ["reader"]}                     one reader stepped at every writer position
    {"sc": {...}, "points": [[k, cls]]}                   explicit crash points (replays / shrinking);
                                                          cls in "0" | "1" | "half" | "all-but-one"
    {"sc": {...}, "positions": [pos, ...]}                explicit reader positions

For every case the REAL step trace of the write is recorded with fsx in a forked child; the Lean driver
(`drv_fs`) is asked (i) whether the discipline `AtomicOn` holds of that trace for every target,
(ii) whether the trace is literally the modelled protocol (`asFlush`), (iii) for every crash point what
the model's crash state shows at every target (old / new) and which other paths differ, (iv) what a
reader inserted at a position sees.  The same crash points are then injected into the real code
(`os._exit` before step k, torn writes at the prefix classes) and the real files are parsed.
"""
import gzip
import json
import os
import random
import shutil

from harness import fsx
from harness.core import hx, tagged

ID = "C10"
TITLE = "Documents and the cache file are replaced atomically"
LEAN_MODULE = "Signac.Properties.C10"
DRIVER = "drv_fs"
DESIGN_REF = "DESIGN.md §4 C10"
RULE = ("scenarios = {job document, project document, buffered flush of 2-4 documents, update_cache} x "
        "{old file absent / empty / small / >64 KiB / >1 MiB} x {setitem, update, delitem, clear, reset, whole-document assignment through the owner's setter} "
        "(cache: first write, growing, shrinking workspace, stale '~' file); for each scenario every "
        "file-system step of the real write x {die before it} and every write step x {die after 1 byte, "
        "half, all-but-one byte}, plus one raw and one signac-API reader process at every position of the "
        "writer's steps (and a reader that opened before and reads after); distinct = distinct (scenario, "
        "crash points / positions); non-trivial = the write performed at least one file-system step")
MODELLED = [
    "os.replace is an atomic rename; a reader that has opened a file keeps reading that inode (kernel, assumed)",
    "process death loses exactly the data not yet passed to write(2); each traced primitive is atomic w.r.t. the others",
    "synced_collections JSONCollection._save_to_resource / buffered flush (dependency): modelled as temp+replace, "
    "tied by the recorded real trace on every run",
    "gzip framing and json encoding: content is opaque to the model (pieces of the real chunks); parsed by the oracle",
]
ASSUMPTIONS = ["process crash, not power loss (no fsync anywhere in signac: durability is out of scope)",
               "local POSIX file system (tmpfs in the sandbox); NFS rename semantics not covered"]
EXHAUSTIVE = {"quick": False, "thorough": False}

ABSENT = "<absent>"
CLASSES = ("0", "1", "half", "all-but-one")


# ----------------------------------------------------------------------------
# scenario generation
# ----------------------------------------------------------------------------
DOC_OPS = ("setitem", "update", "delitem", "clear", "reset", "assign")
SIZES = ("absent", "empty", "small", "mid", "big")


def _doc_sc(rng, kind, size, op=None):
    if op is None:
        op = rng.choice(DOC_OPS)
    if size in ("absent", "empty") and op in ("delitem", "clear"):
        op = "setitem"
    return {"kind": kind, "size": size, "op": op, "seed": rng.randrange(1 << 30)}


def _flush_sc(rng, n, sizes, with_proj):
    return {"kind": "flush", "docs": [_doc_sc(rng, "jobdoc", s) for s in sizes[:n]],
            "proj": _doc_sc(rng, "projdoc", rng.choice(["absent", "small"])) if with_proj else None,
            "seed": rng.randrange(1 << 30)}


def _cache_sc(rng, n_old, add, remove, pad, stale=False, session="same"):
    return {"kind": "cache", "n_old": n_old, "add": add, "remove": remove, "pad": pad, "stale": stale,
            "session": session, "seed": rng.randrange(1 << 30)}


def _migrate_sc(rng, size, name):
    return {"kind": "migrate", "size": size, "name": name, "seed": rng.randrange(1 << 30)}


def scenarios(tier, rng):
    out = []
    # the project-document write of the schema migration v1 -> v2 (the project name moves into the document)
    out.append(_migrate_sc(rng, "small", "my project"))
    out.append(_migrate_sc(rng, "big", "p"))
    # job documents: every size class, the first few with fixed ops so each op occurs
    out.append(_doc_sc(rng, "jobdoc", "absent", "setitem"))
    out.append(_doc_sc(rng, "jobdoc", "empty", "update"))
    out.append(_doc_sc(rng, "jobdoc", "small", "setitem"))
    out.append(_doc_sc(rng, "jobdoc", "small", "clear"))
    out.append(_doc_sc(rng, "jobdoc", "small", "delitem"))
    out.append(_doc_sc(rng, "jobdoc", "mid", "update"))
    out.append(_doc_sc(rng, "jobdoc", "big", "setitem"))
    out.append(_doc_sc(rng, "jobdoc", "big", "reset"))
    out.append(_doc_sc(rng, "jobdoc", "small", "assign"))
    out.append(_doc_sc(rng, "projdoc", "small", "assign"))
    out.append(_doc_sc(rng, "projdoc", "absent", "setitem"))
    out.append(_doc_sc(rng, "projdoc", "small"))
    out.append(_doc_sc(rng, "projdoc", "mid", "reset"))
    out.append(_doc_sc(rng, "projdoc", "big", "delitem"))
    out.append(_flush_sc(rng, 2, ["small", "absent"], True))
    out.append(_flush_sc(rng, 3, ["small", "mid", "empty"], False))
    out.append(_flush_sc(rng, 2, ["big", "small"], True))
    out.append(_cache_sc(rng, 0, 3, 0, 0))                       # first cache file, tiny
    out.append(_cache_sc(rng, 4, 5, 0, 40))                      # growing
    out.append(_cache_sc(rng, 12, 1, 6, 40))                     # shrinking
    out.append(_cache_sc(rng, 0, 260, 0, 1400))                  # multi-chunk gzip stream (> 128 KiB compressed)
    out.append(_cache_sc(rng, 200, 80, 0, 1400))                 # growing, multi-chunk
    out.append(_cache_sc(rng, 260, 1, 200, 1400))                # shrinking from multi-chunk
    out.append(_cache_sc(rng, 3, 2, 1, 10, stale=True))          # stale '~' file from an earlier crash
    # the publishing os.replace itself fails (EACCES: a reader holds the file on some platforms; EIO)
    for errn in ("EACCES", "EIO"):
        out.append(dict(_cache_sc(rng, 4, 3, 1, 40), fault_at_replace=errn))
    # documents written by a sync (job level, project level, the project document), into an absent / empty / populated
    # destination document
    for level, size, ds in (("job", "absent", "bykey"), ("job", "empty", "update"), ("project", "absent", "update"),
                            ("project", "empty", "bykey"), ("projdoc", "absent", "bykey"), ("projdoc", "empty", "update")):
        # (a populated destination is not generated: sync then keeps a backup copy '<document>~' during the merge,
        # which a crash leaves next to the stray temp file - sync's own rollback protocol, C14, not a torn document)
        out.append({"kind": "syncdoc", "level": level, "size": size, "docsync": ds, "seed": rng.randrange(1 << 30)})
    out.append(_doc_sc(rng, "jobdoc", "small", "jobclear"))
    out.append(_doc_sc(rng, "jobdoc", "mid", "jobreset"))
    out.append(dict(_doc_sc(rng, "jobdoc", "small", "setitem"), mt=False))
    out.append(dict(_doc_sc(rng, "projdoc", "small", "update"), mt=False))
    out.append(dict(_doc_sc(rng, "jobdoc", "mid", "assign"), mt=False))
    out.append(dict(_doc_sc(rng, "jobdoc", "small", "setitem"), fault_at_replace="EACCES"))
    out.append(dict(_doc_sc(rng, "projdoc", "mid", "update"), fault_at_replace="EIO"))
    n_doc, n_flush, n_cache, n_fresh = (14, 6, 8, 0) if tier == "quick" else (260, 110, 130, 8)
    for _ in range(n_doc):
        out.append(_doc_sc(rng, rng.choice(["jobdoc", "jobdoc", "projdoc"]), rng.choice(SIZES)))
    for _ in range(n_flush):
        n = rng.randint(2, 4)
        out.append(_flush_sc(rng, n, [rng.choice(SIZES) for _ in range(n)], rng.random() < 0.5))
    for _ in range(n_cache):
        big = rng.random() < 0.3
        out.append(_cache_sc(rng, rng.choice([0, 1, 5, 30, 150 if big else 8]), rng.randint(1, 200 if big else 12),
                             rng.choice([0, 0, 1, 4]), 1400 if big else rng.choice([0, 40, 300]),
                             stale=rng.random() < 0.2))
    for _ in range(n_fresh):  # a fresh session: writes only if the code decides so (trivial case otherwise)
        out.append(_cache_sc(rng, rng.randint(1, 6), rng.randint(1, 5), rng.choice([0, 1]), 10, session="fresh"))
    return out


def generate(tier, rng):
    m = 2 if tier == "quick" else 3
    for sc in scenarios(tier, rng):
        for j in range(m):
            yield {"sc": sc, "part": ["crash", j, m]}
        yield {"sc": sc, "part": ["reader"]}


def search(rng, deadline):
    """Used only when the proof or the tie broke without an oracle failure: a bounded number of fresh
    scenarios (the core runs them in batches; unbounded generation would overshoot the deadline)."""
    import time

    for _ in range(3):
        if time.time() > deadline:
            return
        for sc in scenarios("quick", rng):
            yield {"sc": sc, "part": ["crash", 0, 1]}
            yield {"sc": sc, "part": ["reader"]}


def shrink(case):
    sc = case["sc"]
    if "part" in case and case["part"][0] == "reader" or "positions" in case and len(case["positions"]) > 1:
        for pos in range(0, 40):
            yield {"sc": sc, "positions": [pos]}
        return
    if "points" in case and len(case["points"]) == 1:
        return
    if "positions" in case:
        return
    for k in range(0, 40):
        for cls in CLASSES:
            yield {"sc": sc, "points": [[k, cls]]}


# ----------------------------------------------------------------------------
# building a scenario on disk (pre-state) and the operation under test
# ----------------------------------------------------------------------------
def _filler(rng, n):
    """n characters that do not compress to nothing and exercise escapes."""
    alphabet = "abcdefghijklmnopqrstuvwxyz0123456789 _-\"\\\né/"
    return "".join(rng.choice(alphabet) for _ in range(n))


def make_doc(rng, size):
    if size == "absent":
        return ABSENT
    if size == "empty":
        return {}
    d = {"a": rng.randint(-5, 5), "b": [1, 2.5, None, True, "x"], "n": {"x": {"y": rng.randint(0, 9)}, "z": []},
         "s": _filler(rng, rng.randint(0, 30))}
    if size == "mid":
        target = rng.randint(70, 200) << 10
    elif size == "big":
        target = rng.randint(1100, 1500) << 10
    else:
        return d
    # several keys so that the document is not one giant string only
    nkeys = rng.randint(3, 9)
    for i in range(nkeys):
        d["blob%d" % i] = _filler(rng, 64) * (target // nkeys // 64)
    d["list"] = list(range(2000))
    return d


def apply_op(doc, op, rng_seed):
    """Apply ONE mutation (= one save in unbuffered mode) to a dict-like; works on plain dicts and on
    signac documents alike, so the intended new content is computed without signac."""
    rng = random.Random(rng_seed)
    val = {"v": rng.randint(0, 10**6), "t": _filler(rng, rng.randint(0, 40)), "l": [rng.random(), None, False]}
    if op == "setitem":
        doc["k_new"] = val
    elif op == "update":
        doc.update({"k_new": val, "a": "replaced", "more": [1, [2, [3]]]})
    elif op == "delitem":
        del doc["a"]
    elif op in ("clear", "jobclear", "jobreset"):
        # "jobclear" / "jobreset" = Job.clear() / Job.reset() through a FRESH job handle (see build()); for the
        # document both mean: it becomes empty
        doc.clear()
    elif op in ("reset", "assign"):
        # "assign" = `job.document = new` / `project.document = new` (the owner's setter, see build());
        # on a plain dict both mean: replace the whole content
        new = {"fresh": val, "n": {"deep": {"er": [1, 2, 3]}}}
        if hasattr(doc, "reset"):
            doc.reset(new)
        else:
            doc.clear()
            doc.update(new)
    else:
        raise ValueError(op)


def intended(old, op, seed):
    d = {} if old == ABSENT else json.loads(json.dumps(old))
    apply_op(d, op, seed)
    return d


def _write_json(path, value):
    if value != ABSENT:
        with open(path, "w") as f:
            json.dump(value, f)


class Built:
    """pre-state on disk + fn (the write under test) + targets [{path, fmt, old, want}] + api readers"""


def build(sc, d, mutant=None):
    import signac
    from signac.job import Job

    rng = random.Random(sc["seed"])
    b = Built()
    b.targets, b.api = [], []
    rel = lambda p: os.path.relpath(p, d).replace(os.sep, "/")  # noqa: E731
    kind = sc["kind"]
    if kind == "migrate":
        # a schema-version-1 project written by hand: signac.rc with a project name, a populated project document
        with open(os.path.join(d, "signac.rc"), "w") as f:
            f.write("project = %s\nschema_version = 1\n" % sc["name"])
        os.makedirs(os.path.join(d, "workspace"))
        fn_doc = os.path.join(d, signac.Project.FN_DOCUMENT)
        old = make_doc(random.Random(sc["seed"]), sc["size"])
        _write_json(fn_doc, old)
        want = dict(old)
        want["signac_project_name"] = sc["name"]
        b.targets.append({"path": rel(fn_doc), "fmt": "json", "old": old, "want": want})

        def raw_doc():
            with open(fn_doc) as f:
                return json.load(f)
        b.api.append(raw_doc)

        def migrate():
            import contextlib
            import io
            from signac.migration import apply_migrations
            with contextlib.redirect_stdout(io.StringIO()), contextlib.redirect_stderr(io.StringIO()):
                apply_migrations(d)
        b.fn = migrate
        if mutant:
            b.fn = _mutated(b.fn, mutant)
        return b
    proj = signac.init_project(d)

    def add_doc(dsc, holder, fn_doc, reader, owner=None):
        r = random.Random(dsc["seed"])
        old = make_doc(r, dsc["size"])
        _write_json(fn_doc, old)
        b.targets.append({"path": rel(fn_doc), "fmt": "json", "old": old,
                          "want": intended(old, dsc["op"], dsc["seed"])})
        b.api.append(reader)
        def no_threads():
            if dsc.get("mt") is False:
                # the documented switch that turns the dependency's thread-safety layer off: the documents must
                # still be replaced atomically (signac asks for write_concern=True)
                signac.JSONDict.disable_multithreading()
        if dsc["op"] in ("jobclear", "jobreset") and owner is not None:
            def jobclear():
                no_threads()
                fresh_handle = signac.Project(d).open_job(id=owner.id)   # no document object yet
                (fresh_handle.clear if dsc["op"] == "jobclear" else fresh_handle.reset)()
            return jobclear
        if dsc["op"] == "assign" and owner is not None:
            def assign():
                no_threads()
                probe = {}
                apply_op(probe, "assign", dsc["seed"])     # the same new value as `intended`
                owner.document = probe                        # whole-document assignment through the owner's setter
            return assign

        def plain_op():
            no_threads()
            apply_op(holder(), dsc["op"], dsc["seed"])
        return plain_op

    def job_reader(job_id):
        def rd():
            return signac.Project(d).open_job(id=job_id).document()
        return rd

    def proj_reader():
        return signac.Project(d).document()

    if kind == "jobdoc":
        job = proj.open_job({"a": rng.randint(0, 99), "tag": "c10"}).init()
        b.fn = add_doc(sc, lambda: job.document, job.fn(Job.FN_DOCUMENT), job_reader(job.id), owner=job)
    elif kind == "projdoc":
        b.fn = add_doc(sc, lambda: proj.document, proj.fn(signac.Project.FN_DOCUMENT), proj_reader, owner=proj)
    elif kind == "flush":
        ops = []
        for i, dsc in enumerate(sc["docs"]):
            job = proj.open_job({"a": i, "tag": "flush"}).init()
            ops.append(add_doc(dsc, (lambda j: (lambda: j.document))(job), job.fn(Job.FN_DOCUMENT), job_reader(job.id), owner=job))
        if sc.get("proj"):
            ops.append(add_doc(sc["proj"], lambda: proj.document, proj.fn(signac.Project.FN_DOCUMENT), proj_reader, owner=proj))

        def flush_fn():
            with signac.buffered():
                for op in ops:
                    op()
        b.fn = flush_fn
    elif kind == "syncdoc":
        # a document written by a SYNC: the source document holds exactly one key, so the merge is one logical write of
        # the destination document (absent / empty / populated with other keys)
        from signac import sync as S

        src = signac.init_project(os.path.join(d, "srcproj"))
        spx = {"a": 7, "tag": "sync"}
        val = {"v": _filler(rng, 40), "n": [1, 2, {"k": None}]}
        r = random.Random(sc["seed"])
        old = make_doc(r, sc["size"])
        if sc["level"] == "projdoc":
            src.document["only"] = val
            fn_doc = proj.fn(signac.Project.FN_DOCUMENT)
            _write_json(fn_doc, old)
            reader = proj_reader
            sj = src.open_job(spx).init()
            proj.open_job(spx).init()
            fn = lambda: proj.sync(src, doc_sync=S.DocSync.update if sc["docsync"] == "update" else S.DocSync.ByKey())  # noqa: E731
        else:
            sj = src.open_job(spx).init()
            sj.document["only"] = val
            dj = proj.open_job(spx).init()
            fn_doc = dj.fn(Job.FN_DOCUMENT)
            _write_json(fn_doc, old)
            reader = job_reader(dj.id)
            dst_handle = signac.Project(d).open_job(id=dj.id)
            src_handle = signac.Project(src.path).open_job(id=sj.id)
            if sc["level"] == "job":
                fn = lambda: dst_handle.sync(src_handle, doc_sync=S.DocSync.update if sc["docsync"] == "update" else S.DocSync.ByKey())  # noqa: E731
            else:
                fn = lambda: proj.sync(src, doc_sync=S.DocSync.update if sc["docsync"] == "update" else S.DocSync.ByKey())  # noqa: E731
        want = dict({} if old == ABSENT else old, only=val)
        b.targets.append({"path": rel(fn_doc), "fmt": "json", "old": old, "want": want})
        b.api.append(reader)

        def sync_fn():
            import contextlib
            import io
            with contextlib.redirect_stdout(io.StringIO()):
                fn()
        b.fn = sync_fn
    elif kind == "cache":
        pad = sc["pad"]

        def sp(i):
            return {"i": i, "p": _filler(random.Random(sc["seed"] * 1000 + i), pad), "f": i / 7, "n": {"k": [i, None]}}

        fn_cache = proj.fn(signac.Project.FN_CACHE)
        jobs = [proj.open_job(sp(i)).init() for i in range(sc["n_old"])]
        old = ABSENT
        if jobs:
            old = {j.id: sp(i) for i, j in enumerate(jobs)}
            with gzip.open(fn_cache, "wb") as f:      # written by the harness, not by the code under test
                f.write(json.dumps(old).encode())
        if sc["stale"]:
            with open(fn_cache + "~", "wb") as f:
                f.write(b"\x1f\x8b stale garbage of an earlier crash")
        if sc["session"] == "fresh":
            other = signac.Project(d)
            for i in range(sc["n_old"], sc["n_old"] + sc["add"]):
                other.open_job(sp(i)).init()
            for j in jobs[:sc["remove"]]:
                shutil.rmtree(j.path)
            proj = signac.Project(d)
        else:
            for j in jobs[:sc["remove"]]:
                j.remove()
            for i in range(sc["n_old"], sc["n_old"] + sc["add"]):
                proj.open_job(sp(i)).init()
        want = {}
        ws = proj.workspace
        for name in os.listdir(ws):
            with open(os.path.join(ws, name, Job.FN_STATE_POINT)) as f:
                want[name] = json.load(f)
        b.targets.append({"path": rel(fn_cache), "fmt": "gzjson", "old": old, "want": want})
        some_id = sorted(want)[0] if want else None

        def cache_reader():
            p = signac.Project(d)
            return p.open_job(id=some_id).statepoint() if some_id else None
        b.api.append(cache_reader)
        the_proj = proj
        b.fn = lambda: the_proj.update_cache()
    else:
        raise ValueError(kind)
    if mutant:
        b.fn = _mutated(b.fn, mutant)
    return b


def _mutated(fn, mutant):
    """TEST-ONLY: run fn with a deliberately broken write protocol patched into the dependency
    (inside the forked child only).  Never generated; used by `selftest()` to prove the oracle sees it."""
    def run():
        import uuid

        from synced_collections.backends.collection_json import JSONCollection, SyncedCollectionJSONEncoder

        def blob_of(self):
            return json.dumps(self, cls=SyncedCollectionJSONEncoder).encode()

        if mutant == "direct":
            def save(self):
                with open(self._filename, "wb") as f:
                    f.write(blob_of(self))
        elif mutant == "copy":
            def save(self):
                dn, bn = os.path.split(self._filename)
                tmp = os.path.join(dn, "._%s_%s" % (uuid.uuid4(), bn))
                with open(tmp, "wb") as f:
                    f.write(blob_of(self))
                shutil.copyfile(tmp, self._filename)
                os.remove(tmp)
        elif mutant == "early-replace":
            def save(self):
                dn, bn = os.path.split(self._filename)
                tmp = os.path.join(dn, "._%s_%s" % (uuid.uuid4(), bn))
                with open(tmp, "wb") as f:
                    f.write(blob_of(self))
                    os.replace(tmp, self._filename)
        elif mutant == "write-concern-off":   # control: must NOT be flagged (threading support keeps temp+replace)
            save = None
            import synced_collections.backends.collection_json as cj
            orig_init = cj.JSONCollection.__init__

            def init(self, filename=None, write_concern=False, *a, **kw):
                orig_init(self, filename=filename, write_concern=False, *a, **kw)
            cj.JSONCollection.__init__ = init
        else:
            raise ValueError(mutant)
        if save is not None:
            JSONCollection._save_to_resource = save
        return fn()
    return run


# ----------------------------------------------------------------------------
# observing the real tree
# ----------------------------------------------------------------------------
def parse_target(d, t):
    p = os.path.join(d, t["path"])
    try:
        with open(p, "rb") as f:
            raw = f.read()
    except FileNotFoundError:
        return ABSENT, None
    try:
        if t["fmt"] == "gzjson":
            raw = gzip.decompress(raw)
        return json.loads(raw.decode()), None
    except Exception as e:  # noqa: BLE001 — any failure to parse completely is the observation
        return None, "%s: %s" % (type(e).__name__, str(e)[:80])


def same(a, b):
    if a == ABSENT or b == ABSENT:
        return a == b
    return tagged(a) == tagged(b)


def tag_of(val, err, old, new):
    if err is not None:
        return "torn"
    if same(val, old):
        return "old"
    if same(val, new):
        return "new"
    return "absent" if val == ABSENT else "torn"


def tmp_kind(tmp, t):
    """how the temp name relates to the target name (python twin of Lean's tmpOf / tildeOf)"""
    dn, bn = os.path.split(t)
    if tmp == (dn + "/" if dn else "") + "._TMP_" + bn:
        return "tmpOf"
    if tmp == t + "~":
        return "tildeOf"
    return "other"


def _related(a, b):
    a, b = a.split("/"), b.split("/")
    return a[:len(b)] == b or b[:len(a)] == a


def classify(steps):
    """Independent reading of the trace (no Lean): is it a sequence of  create P, write P*, close P,
    replace P -> T  groups over pairwise unrelated paths?  -> 'flush T:kind ...' or 'none'."""
    ss = [s for s in steps if s.ok and s.mutating]
    i, groups = 0, []
    while i < len(ss):
        if ss[i].kind != "create":
            return "none"
        p = ss[i].path
        i += 1
        while i < len(ss) and ss[i].kind == "write" and ss[i].path == p:
            i += 1
        if i + 1 >= len(ss) or ss[i].kind != "close" or ss[i].path != p:
            return "none"
        r = ss[i + 1]
        if r.kind not in ("replace", "rename") or r.path != p:
            return "none"
        groups.append((p, r.path2))
        i += 2
    paths = [x for g in groups for x in g]
    if any(_related(paths[a], paths[b]) for a in range(len(paths)) for b in range(a + 1, len(paths))):
        return "none"
    return " ".join(["flush"] + ["%s:%s" % (hx(t), tmp_kind(p, t)) for p, t in groups])


# ----------------------------------------------------------------------------
# wire form of a recorded trace
# ----------------------------------------------------------------------------
class Wire:
    """Model step list of a recorded trace: successful mutating steps only; every write chunk cut
    into pieces at the tested torn offsets (content units = piece ids)."""

    def __init__(self, steps):
        self.toks, self.index, self.cuts = [], {}, {}
        nid = 100
        k = 0
        for s in steps:
            self.index[s.i] = k
            if not s.ok or not s.mutating:
                continue
            if s.kind == "write":
                offs = fsx.torn_offsets(s.n)
                npieces = (len(offs) + 1) if s.n else 0
                self.cuts[s.i] = offs
                self.toks.append("write %s %d %s" % (hx(s.path), npieces, " ".join(str(nid + i) for i in range(npieces))))
                nid += npieces
            elif s.kind in ("replace", "rename"):
                self.toks.append("%s %s %s" % (s.kind, hx(s.path), hx(s.path2)))
            elif s.kind == "symlink":
                self.toks.append("symlink %s %s" % (hx(s.path2), hx(s.path)))
            elif s.kind == "truncate":
                self.toks.append("truncate %s %d" % (hx(s.path), s.n))
            elif s.kind == "link":
                self.toks.append("link %s %s" % (hx(s.path), hx(s.path2)))   # not modelled: driver answers bad-value
            else:
                self.toks.append("%s %s" % (s.kind, hx(s.path)))
            k += 1
        self.index[len(steps)] = k
        self.text = " ".join(self.toks)

    def point(self, k, p):
        """(model step index, number of pieces written) of the real crash point (k, p bytes)."""
        return self.index[k], (self.cuts[k].index(p) + 1) if p else 0


def resolve_points(steps, spec):
    """[[k, cls]] -> [(k, p)] on this trace (entries that do not exist on this trace are dropped)."""
    out = []
    for k, cls in spec:
        if k > len(steps):
            continue
        if cls == "0":
            out.append((k, 0))
        elif k < len(steps) and steps[k].kind == "write" and steps[k].ok and steps[k].n:
            offs = fsx.torn_offsets(steps[k].n, (cls,))
            if offs:
                out.append((k, offs[0]))
    return out


def cls_of(steps, k, p):
    if not p:
        return "0"
    n = steps[k].n
    return "1" if p == 1 else "all-but-one" if p == n - 1 else "half"


# ----------------------------------------------------------------------------
# the case
# ----------------------------------------------------------------------------
def run_case(case, ctx):
    sc = case["sc"]
    d = ctx.fresh_dir("c10")
    try:
        return _run(case, sc, d)
    finally:
        ctx.cleanup(d)


def _run_faulted(case, sc, d):
    """Oracle-only: the write's publishing step (os.replace onto the target) FAILS with an injected errno, and the
    process may in addition die at any later (or earlier) step: the target still parses to the old or the new
    content at every such point.  (An error path that falls back to rewriting the target in place is caught here.)"""
    import errno as _errno

    oracle, tags = [], ["kind=%s" % sc["kind"], "fault-at-replace=%s" % sc["fault_at_replace"]]
    b = build(sc, d, case.get("mutant"))
    targets = b.targets
    tpaths = [t["path"] for t in targets]
    snap = fsx.TreeSnapshot(d)
    rec = fsx.fork_run(b.fn, d)
    snap.restore()
    ks = [s_.i for s_ in rec.steps if s_.kind in ("replace", "rename") and s_.path2 in tpaths]
    if rec.status != "done" or not ks:
        return {"model": [], "impl": [], "oracle": oracle, "tags": tags + ["no-write"], "key": None}
    faults = {ks[0]: getattr(_errno, sc["fault_at_replace"])}
    full = fsx.fork_run(b.fn, d, faults=faults)
    news = []
    for t in targets:
        news.append(t["want"])

    def judge(where):
        for t, new in zip(targets, news):
            v, err = parse_target(d, t)
            tg = tag_of(v, err, t["old"], new)
            if tg not in ("old", "new"):
                oracle.append("%s: %s is neither the old nor the new content (%s)" % (
                    where, t["path"], err or ("absent" if v == ABSENT else "parses to something else")))
    judge("replace fails with %s, the call ends with %s" % (sc["fault_at_replace"], full.status))
    steps2 = full.steps
    snap.restore()
    part = case.get("part")
    pts = fsx.crash_points(steps2)
    if part and part[0] == "crash":
        pts = [pt for i, pt in enumerate(pts) if i % part[2] == part[1]]
    elif "points" in case:
        pts = resolve_points(steps2, case["points"])
    else:
        pts = []
    for k, pbytes in pts:
        fsx.fork_run(b.fn, d, crash_at=k, torn=pbytes, faults=faults)
        judge("replace fails with %s, then crash before step %d%s (%s)" % (
            sc["fault_at_replace"], k, " after %d bytes" % pbytes if pbytes else "",
            steps2[k].brief() if k < len(steps2) else "end"))
        snap.restore()
        if oracle:
            break
    key = json.dumps([sc, case.get("part")], sort_keys=True)
    return {"model": [], "impl": [], "oracle": oracle[:3], "tags": tags, "key": key}


def _run(case, sc, d):
    if sc.get("fault_at_replace"):
        return _run_faulted(case, sc, d)
    model, impl, oracle, tags = [], [], [], []
    b = build(sc, d, case.get("mutant"))
    targets = b.targets
    tpaths = [t["path"] for t in targets]
    snap = fsx.TreeSnapshot(d)
    for t in targets:  # the pre-state must be what the scenario says
        v, err = parse_target(d, t)
        assert err is None and same(v, t["old"]), ("pre-state", t["path"], err)

    # 1. the complete write, recorded
    rec = fsx.fork_run(b.fn, d)
    names = run_names(rec.steps, snap.entries, tpaths)
    steps = renamed(rec.steps, names)
    tags.append("kind=%s" % sc["kind"])
    tags.append("size=%s" % (sc.get("size") or ("multi-chunk" if sum(s.kind == "write" for s in steps) > 2 else "n/a")))
    if rec.status != "done":
        oracle.append("the write itself failed: %s %s" % (rec.status, rec.exc))
        return {"model": model, "impl": impl, "oracle": oracle, "tags": tags, "key": None}
    news = []
    for t in targets:
        v, err = parse_target(d, t)
        news.append(v)
        if steps and (err is not None or not same(v, t["want"])):
            oracle.append("completed write: %s does not hold the written content (%s)" % (
                t["path"], err or "differs from the intended document"))
    # temp files of this write: files it creates itself, next to a target
    own_tmp = {s.path for s in steps if s.kind == "create" and s.ok and s.path not in tpaths
               and any(os.path.dirname(s.path) == os.path.dirname(p) for p in tpaths)}
    left = [names.get(fsx_canon(r), fsx_canon(r)) for r, _ in snap.diff(fsx.TreeSnapshot(d)) if r not in tpaths]
    other_ok = sc["kind"] == "migrate"   # a migration legitimately moves the configuration and cache files
    if not other_ok and [r for r in left if r not in own_tmp]:
        oracle.append("completed write changed other paths: %s" % [r for r in left if r not in own_tmp][:3])
    if not other_ok and [r for r in left if r not in snap.entries]:
        oracle.append("completed write left a temporary file behind: %s" % [r for r in left if r not in snap.entries][:3])
    snap.restore()
    if not steps:
        tags.append("no-write")
        return {"model": model, "impl": impl, "oracle": oracle, "tags": tags, "key": None}

    wire = Wire(steps)
    init = []
    for j, t in enumerate(targets):
        if t["old"] != ABSENT:
            init.append("f %s 1 %d" % (hx(t["path"]), j))
    mentioned = {x for s in steps if s.ok and s.mutating for x in (s.path, s.path2) if x}
    for r in sorted(mentioned - set(tpaths)):  # e.g. a stale temp file: part of the model's initial state
        e = snap.entries.get(r)
        if e is not None:
            init.append("f %s 1 %d" % (hx(r), 50 + len(init)) if e[0] == "f" else "d %s" % hx(r))
    init = " ".join(init)
    T = " ".join(hx(p) for p in tpaths)

    # 2. discipline and protocol on the real trace
    model.append("atomic %s | %s" % (T, wire.text))
    impl.append(" ".join(["true"] * len(targets)))
    model.append("proto | %s" % wire.text)
    impl.append(classify(steps))
    tags.append("proto=%s" % ",".join(sorted({x.split(":")[1] for x in impl[-1].split()[1:]}) or ["none"]))

    # 3. crash points
    part = case.get("part")
    all_points = fsx.crash_points(steps)
    if "points" in case:
        points = resolve_points(steps, case["points"])
    elif part and part[0] == "crash":
        points = [pt for i, pt in enumerate(all_points) if i % part[2] == part[1]]
    else:
        points = []
    if sc["kind"] == "migrate":
        # only the document write is under test: crash points up to the step after the last one that touches it
        last = max([i for i, s_ in enumerate(steps) if any(x in tpaths for x in (s_.path, s_.path2) if x)] or [0])
        points = [(k, p) for k, p in points if k <= last + 1]
    for k, p in points:
        r = fsx.fork_run(b.fn, d, crash_at=k, torn=p)
        where = "crash before step %d%s (%s)" % (k, " after %d of %d bytes" % (p, steps[k].n) if p else "",
                                                 steps[k].brief() if k < len(steps) else "end")
        if k < len(steps) and (r.status != "crashed" or r.crash != (k, p)):
            oracle.append("%s: injection did not fire as planned (%s %s) — trace not reproducible" % (where, r.status, r.crash))
        rn = run_names(r.steps, snap.entries, tpaths)
        if k < len(steps) and [_shape(s) for s in renamed(r.steps, rn)] != [_shape(s) for s in steps[:k]]:
            oracle.append("%s: steps before the crash differ from the recorded trace" % where)
        obs = []
        for t, new in zip(targets, news):
            v, err = parse_target(d, t)
            tg = tag_of(v, err, t["old"], new)
            obs.append(tg)
            if tg not in ("old", "new"):
                oracle.append("%s: %s is neither the old nor the new content (%s)" % (
                    where, t["path"], err or ("absent" if v == ABSENT else "parses to something else")))
        diff = [rn.get(fsx_canon(r_), fsx_canon(r_)) for r_, _ in snap.diff(fsx.TreeSnapshot(d)) if r_ not in tpaths]
        if sc["kind"] == "migrate":  # the migration lock file is created outside the traced primitives
            diff = [r_ for r_ in diff if os.path.basename(r_) != ".SIGNAC_PROJECT_MIGRATION_LOCK"]
        tdirs = {os.path.dirname(p_) for p_ in tpaths}
        bad = [r_ for r_ in diff if r_ not in own_tmp and not (r_ not in snap.entries and os.path.dirname(r_) in tdirs)]
        if bad and not other_ok:
            oracle.append("%s: paths other than the target and its temp file changed: %s" % (where, bad[:3]))
        if len(diff) > 1 and not other_ok:
            oracle.append("%s: more than one stray file: %s" % (where, diff[:4]))
        mk, mp = wire.point(k, p)
        model.append("crash %d %d %s | %s | %s" % (mk, mp, T, init, wire.text))
        impl.append(" ".join(obs) + " strays=" + ",".join(sorted(hx(x) for x in set(diff))))
        tags.append("point=%s/%s" % (steps[k].kind if k < len(steps) else "end", cls_of(steps, k, p)))
        snap.restore()

    # 4. readers
    positions = case.get("positions")
    if positions is None and part and part[0] == "reader":
        positions = list(range(len(steps) + 1))
    for pos in positions or []:
        if pos > len(steps):
            continue
        _reader_at(pos, b, d, steps, targets, news, snap, wire, init, model, impl, oracle)
        tags.append("reader-pos")
    key = json.dumps([sc, case.get("part"), case.get("points"), case.get("positions")], sort_keys=True)
    return {"model": model, "impl": impl, "oracle": oracle, "tags": tags, "key": key}


def run_names(steps, pre, tpaths):
    """Temp files a run creates under a name that is not stable across processes (pid / random suffix
    other than the uuid form fsx already canonicalises) get a positional name, so that traces and
    leftovers of different runs of the same write are comparable.  Names of the two known forms
    (`._TMP_<name>`, `<name>~`), targets and pre-existing paths are kept."""
    m = {}
    for s in steps:
        p = s.path
        if s.kind == "create" and p not in tpaths and p not in pre and p not in m:
            if any(tmp_kind(p, t) != "other" for t in tpaths):
                m[p] = p
            else:
                dn = os.path.dirname(p)
                m[p] = (dn + "/" if dn else "") + "._RUNTMP%d" % sum(1 for v in m.values() if "._RUNTMP" in v)
    return m


def renamed(steps, m):
    out = []
    for s in steps:
        d_ = s.as_dict()
        d_["path"] = m.get(s.path, s.path)
        if s.path2 is not None:
            d_["path2"] = m.get(s.path2, s.path2)
        out.append(fsx.Step.from_dict(d_))
    return out


def _shape(s):
    """what two runs of the same write must agree on (chunk sizes of a gzip stream may differ)"""
    return (s.kind, s.path, s.path2, s.err)


def fsx_canon(rel):
    return "/".join(fsx.canon_name(c) for c in rel.split("/"))


def _reader_at(pos, b, d, steps, targets, news, snap, wire, init, model, impl, oracle):
    tpaths = [t["path"] for t in targets]
    watch = lambda cp: cp in tpaths  # noqa: E731

    def raw_reader(which):
        def rd():
            out = []
            for i in which:
                t = targets[i]
                try:
                    with open(os.path.join(d, t["path"]), "rb") as f:
                        raw = f.read()
                except FileNotFoundError:
                    out.append("old" if t["old"] == ABSENT else "absent")
                    continue
                try:
                    v = json.loads((gzip.decompress(raw) if t["fmt"] == "gzjson" else raw).decode())
                    out.append(tag_of(v, None, t["old"], news[i]))
                except Exception as e:  # noqa: BLE001
                    out.append("torn:%s" % type(e).__name__)
            return out
        return rd

    def api_reader():
        out = []
        for t, rd, new in zip(targets, b.api, news):
            try:
                v = rd()
            except Exception as e:  # noqa: BLE001
                out.append("raised %s" % type(e).__name__)
                continue
            if t["fmt"] == "gzjson":
                out.append("ok")       # the cache is consulted; the state point came back
            else:
                out.append(tag_of(json.loads(json.dumps(v)), None, {} if t["old"] == ABSENT else t["old"], new))
        return out

    mpos = wire.index[pos]
    # (a) both readers run completely at position pos
    everything = list(range(len(targets)))
    res = fsx.Scheduler(d, [b.fn, raw_reader(everything), api_reader], reads=[False, watch, watch]).run(
        [0] * pos + [1] * 400 + [2] * 4000)
    snap.restore()
    wr, r1, r2 = res.runs
    if wr.status != "done" or [_shape(s) for s in renamed(wr.steps, run_names(wr.steps, snap.entries, tpaths))] != [
            _shape(s) for s in steps]:
        oracle.append("reader at position %d: the writer did not repeat the recorded trace (%s)" % (pos, wr.status))
    got = r1.value if r1.status == "done" else ["reader-%s" % r1.status] * len(targets)
    for t, g in zip(targets, got):
        if g not in ("old", "new"):
            oracle.append("reader at position %d of the writer's steps: %s read as %s" % (pos, t["path"], g))
        model.append("read %d %s | %s | %s" % (mpos, hx(t["path"]), init, wire.text))
        impl.append(g.split(":")[0])
    if r2.status != "done":
        oracle.append("signac reader at position %d: %s %s" % (pos, r2.status, (r2.exc or {}).get("name")))
    else:
        for t, g in zip(targets, r2.value):
            if g not in ("old", "new", "ok"):
                oracle.append("signac API reader at position %d: %s: %s" % (pos, t["path"], g))
    # (b) a reader that opens before the rest of the write and reads afterwards (keeps the inode)
    ti = pos % len(targets)
    if os.path.exists(os.path.join(d, targets[ti]["path"])):
        res = fsx.Scheduler(d, [b.fn, raw_reader([ti])], reads=[False, watch]).run([0] * pos + [1] + [0] * 400 + [1] * 400)
        snap.restore()
        r1 = res.runs[1]
        g = r1.value[0] if r1.status == "done" else "reader-%s" % r1.status
        if g not in ("old", "new"):
            oracle.append("reader that opened at position %d and read after the write: %s read as %s" % (
                pos, targets[ti]["path"], g))
        model.append("read %d %s | %s | %s" % (mpos, hx(targets[ti]["path"]), init, wire.text))
        impl.append(g.split(":")[0])


# ----------------------------------------------------------------------------
# self-test of oracle and correspondence (test-only mutants of the dependency-side protocol)
# ----------------------------------------------------------------------------
def selftest():
    from harness import core

    root = core.scratch_root()
    ctx = core.Ctx(root)
    rng = random.Random(5)
    ok = True
    try:
        for mutant, expect_fail in (("direct", True), ("copy", True), ("early-replace", True),
                                    ("write-concern-off", False), (None, False)):
            fails, lines, diffs = 0, [], 0
            for sc in (_doc_sc(rng, "jobdoc", "small", "setitem"), _doc_sc(rng, "projdoc", "mid", "update"),
                       _flush_sc(rng, 2, ["small", "small"], True)):
                for part in (["crash", 0, 1], ["reader"]):
                    case = {"sc": sc, "part": part}
                    if mutant:
                        case["mutant"] = mutant
                    r = run_case(case, ctx)
                    fails += len(r["oracle"])
                    lines += r["oracle"][:1]
                    out = core.run_driver(DRIVER, r["model"])
                    diffs += sum(a != b_ for a, b_ in zip(out, r["impl"]))
            good = (fails > 0 and diffs > 0) if expect_fail else (fails == 0 and diffs == 0)
            ok = ok and good
            print("  mutant=%-18s oracle failures=%-3d model/impl disagreements=%-3d %s %s" % (
                mutant, fails, diffs, "ok" if good else "UNEXPECTED", (lines[:1] or [""])[0][:110]))
    finally:
        shutil.rmtree(root, ignore_errors=True)
    print("c10 selftest:", "OK" if ok else "FAILED")
    return ok


TECHNIQUE = ("Lean 4 theorems about a step-level file-system model (crash states = every step prefix and every torn "
             "write; decidable rename-only discipline) + the compiled Lean driver evaluating the discipline, the "
             "protocol match and the per-crash-point prediction on the REAL step trace recorded from signac with an "
             "in-harness tracer, + real crash injection (fork, os._exit before each step / inside each write) and a "
             "real reader process stepped through every position of the writer")
LEVEL_TEXT = ("Proved in Lean for any number and size of write chunks, every crash point and every torn write, any "
              "pre-state: if the only steps touching a file are renames onto it of unrelated, closed files (AtomicOn), "
              "then in every crash state and for a reader step placed anywhere the file shows its old content or exactly "
              "a complete new one (atomic_replace, atomic_discipline, absent_or_complete, reader_sees_old_or_new); a "
              "crash changes at most the target and the temp file (strays_only_tmp); the modelled protocols — "
              "temp-file+replace of JSON documents, '~'-file+replace of update_cache, buffered flush as a sequence of "
              "them — satisfy the discipline, deliver exactly the written blob and leave no temp file "
              "(docWrite_atomic, jsonSave_atomic, cacheWrite_atomic, flush_atomic), and writing in place does not "
              "(direct_write_not_atomic). On every run the real traces of job-document, project-document, buffered-flush "
              "and update_cache writes are recorded and the Lean driver confirms on each that the discipline holds and "
              "that the trace is literally the modelled protocol (real_trace_atomic then applies to what the code did); "
              "every crash point of every scenario is injected into the real code and the parsed files are compared with "
              "the model's prediction and, independently, with 'old or new, at most one stray temp file'.")
LEVEL_NOTE = ("Trusted: Lean kernel; axioms propext/Classical.choice/Quot.sound; harness/fsx.py (tracer at raw-file level, "
              "crash = os._exit, scheduler) and the oracle (json / gzip+json parse, type-exact comparison). Assumed, not "
              "proved: os.replace is atomic, an open file keeps its inode, a primitive is atomic at step granularity, "
              "process crash only (no fsync in signac: power-loss durability is out of scope). The dependency "
              "synced_collections is modelled, and tied by the recorded traces, not verified. Scenario space is sampled "
              "(sizes, operations), crash points and reader positions within a scenario are exhaustive at step "
              "granularity with 4 torn-prefix classes per write.")

if __name__ == "__main__":
    import sys

    sys.exit(0 if selftest() else 1)

"""C17 — a linked view is an exact, self-healing picture of the selected jobs (DESIGN §4 C17).

A case is a history over one project:
    {"pfx": "view" | "views/deep", "ops": [op, ...]}
    op = ["add", sp] | ["remove", sp] | ["rekey", sp_old, sp_new]
       | ["view", sel, path]        sel = None | [sp, ...] (jobs selected by state point)
                                    path = None | False | "<format string>"
Jobs are named by their state point so that every sub-history is still a meaningful case
(an op that names an absent job is skipped).  After the first oracle failure the history stops,
so a failing case has exactly one failing `view` op.  No known-finding carve-out: every oracle failure is a
VIOLATION.
"""
import json
import zlib
import os
import random

from harness import core
from harness.core import enc_val, exc_name, hx

ID = "C17"
TITLE = "A linked view is an exact, self-healing picture of the selected jobs"
LEAN_MODULE = "Signac.Properties.C17"
DRIVER = "drv_view"
DESIGN_REF = "DESIGN.md §4 C17"
RULE = ("histories of add / remove / re-key / create_linked_view (all jobs, job_ids subsets incl. empty and "
        "singleton, spelled with full or unique abbreviated ids, each accepted selection repeated with an unknown id, path=None / False / format strings with {key}, {job.id}, {job.sp.key}, {{auto}}, {{auto:sep}}) "
        "over 10 state point universes (homogeneous, heterogeneous, nested + lists, textually colliding 1/'1'/True/1.0, "
        "key or value literally 'job', values '' '.' '..', values and keys with the separator (also after a nested mapping), unicode/space/dot "
        "values); every view op is compared (outcome + full tree incl. link texts) with the Lean model run on the "
        "REAL prior tree, and judged by the direct oracle; distinct = distinct (selected state points, path, prior "
        "tree) triples; non-trivial = a view op over >= 1 selected job or on a non-empty prior view")
MODELLED = ["os.walk / os.unlink / os.rmdir / os.makedirs / os.symlink / os.path.realpath on the view directory "
            "(modelled as a finite map path -> directory | link(target job id))",
            "posixpath.join / normpath / relpath (re-implemented for relative paths)",
            "str.format for the fragment literal text, {{ }}, {name}, {name:spec}; str() of scalars and tuples",
            "hash/== slotting of _TypedSetDefaultDict (bool/int share a slot, float separate; -2.0 vs -2 excluded)",
            "six defects found by this check (F-16b, F-16c, F-17a, F-17b, F-17c, F-17d) are fixed in the repository; "
            "the model is the code as it stands and nothing is carved out: a return of any of them is a VIOLATION"]
ASSUMPTIONS = ["POSIX (the Windows symlink branch is not modelled)",
               "the view directory contains only what create_linked_view put there",
               "nested keys/values contain no path separator, no key is '', '.', '..' or contains a dot",
               "job_ids has no duplicates; path is None, False or a str (a callable raises ValueError in this version)",
               "the project path contains no symbolic link (otherwise every link is 'changed' on every run)"]
EXHAUSTIVE = {"quick": False, "thorough": False}

TECHNIQUE = ("Lean 4 theorems about an executable model of create_linked_view (path function, checks, tree colouring, "
             "step list run on a finite-map file system with the error behaviour of unlink/rmdir/makedirs/symlink) + "
             "differential correspondence of the compiled model against the real create_linked_view on real "
             "workspaces, fed with the REAL prior view tree at every step + a model-independent oracle "
             "(incremental == from-scratch build into a second prefix, one link per selected job resolving to its "
             "directory, nothing else, no empty directory, second run changes nothing, rejection leaves the view "
             "byte-identical)")
LEVEL_TEXT = ("Proved in Lean (no bound on the number of jobs, depth of paths or the history): whatever input "
              "create_linked_view ACCEPTS yields a valid link set (accepts_valid: distinct normalised paths, none below "
              "another, all ending in the leaf name, no '' or '.' component) - derived from the code's own checks, not "
              "assumed; hence, for every accepted input and every view that is the picture of an earlier accepted input "
              "(targets may dangle), the step list of _update_view (dead branches deepest first via the colouring tree, "
              "changed links, mkdir -p + symlink) runs without a failing step and leaves exactly the picture of the new "
              "link set: one link per selected job with its target, the directories leading to links, nothing else "
              "(view_create, view_scratch), the same as building from scratch at every path (view_incremental_eq_scratch), "
              "and a second run consists of no step at all (view_idempotent, view_twice); no input ever ends in a failed "
              "file-system step (view_never_fails); an unrepresentable input returns the view unchanged before any step "
              "(view_rejects), an accepted one satisfies the representability conditions (view_accepts_sound). The compiled model is compared with the real create_linked_view on every view op "
              "of every generated history, starting from the REAL prior tree (outcome + full set of directories and "
              "(link path, resolved target)).")
LEVEL_NOTE = ("The model mirrors the code as it stands (after the fix commits for F-16b, F-16c, F-17a, F-17b, F-17c, F-17d, F-17e, "
              "all found by this check's direct oracle; no input class is carved out). The proof attempt of accepts_valid on the pinned tree failed and exposed F-17e (paths checked as raw "
              "strings: 'd/' vs 'd/.' ended in FileExistsError on a half-updated view); fixed in /repo (normalise, "
              "reject duplicates), model updated, theorem proved. Not proved: that the path function (index, str(), normpath, format fragment) equals the "
              "Python one - that is the correspondence; os.* semantics are modelled (finite map, errno behaviour of "
              "unlink/rmdir/makedirs/symlink), link TEXT (relative target) is not compared, only what it resolves to. "
              "Not covered: Windows, nested values with separators, foreign files in the view directory, -2.0 vs -2 "
              "slot clash. Real calls run with os.mkdir/makedirs/symlink guarded so that a write outside the scratch "
              "project is reported ([escape]) instead of performed.")

UNIVERSES = {
    # name: (keys, value pool, flags)
    "homog": dict(keys=["a", "b", "c"], vals=[0, 1, 2, 3, "x", "y z", "1.5", "é", "a.b", True, None, 0.5, 10]),
    "hetero": dict(keys=["a", "b", "c", "d"], vals=[0, 1, 2, "x", "y"], hetero=True),
    "nested": dict(keys=["a", "n", "m"], vals=[0, 1, "x", "q r"], nested=True),
    "collide": dict(keys=["a", "b"], vals=[1, "1", True, "True", 1.0, "1.0", 0, False, "0", None, "None"]),
    "jobkey": dict(keys=["a", "job", "b"], vals=[1, 2, 3, 4, "job", "x"], hetero=True),
    "jobval": dict(keys=["a", "b"], vals=["job", "x", "y", 1, 2]),
    "dots": dict(keys=["a", "b"], vals=["", ".", "..", "x", 1, "a.b", "..."]),
    "sep": dict(keys=["a", "b", "k/1"], vals=[1, 2, "x", "x/y", "y/", "y"]),
    # a key 'job' that is a scalar in some jobs and a mapping in others (paths job/5/job, job.id/7/job: a sibling whose
    # name sorts between a leaf and the paths below it)
    "jobnest": dict(keys=["a", "job", "c"], vals=[1, 1, 3, 5, {"id": 7}, {"id": 5}, {"-x": 1}, "job"], hetero=True),
    # a separator-free nested mapping before / after a top-level value with a separator (key order varies)
    "sepnest": dict(keys=["n", "a", "b"], vals=[1, 2, "x", "x/y", "y"], nested=True, inner=[0, 1, "x"], shuffle=True),
}


def rand_sp(rng, uname):
    u = UNIVERSES[uname]
    keys = list(u["keys"])
    if uname == "sep" and rng.random() < 0.8:
        keys.remove("k/1")
    if u.get("hetero"):
        k = rng.randint(1, len(keys))
        keys = sorted(rng.sample(keys, k))
    elif uname in ("homog", "collide", "jobval", "dots", "sep"):
        keys = keys[: rng.choice([1, 2, 2, 3])] if rng.random() < 0.15 else keys[:2]
    sp = {}
    if u.get("shuffle"):
        keys = list(keys)
        rng.shuffle(keys)
    inner = u.get("inner", u["vals"])
    for k in keys:
        r = rng.random()
        if u.get("nested") and k in ("n", "m"):
            if r < 0.55:
                sp[k] = {"b": rng.choice(inner), "c": rng.choice([[1, 2], [1, "x"], [], [2], [1.5, None, True]])}
            elif r < 0.7:
                sp[k] = {"b": {"z": rng.choice(inner)}}
            elif r < 0.8:
                sp[k] = {}
            elif r < 0.9:
                sp[k] = rng.choice([[1, 2], [3], ["x", "y"]])
            else:
                sp[k] = rng.choice(u["vals"])
        else:
            sp[k] = rng.choice(u["vals"])
    return sp


def spec_pool(uname):
    base = [None, None, None, None, False]
    keys = UNIVERSES[uname]["keys"]
    k0, k1 = keys[0], keys[1]
    if uname == "nested":
        return base + ["{a}/{{auto}}", "{job.id}", "{{auto:_}}", "v_{job.sp.a}/{{auto}}", "{job.sp.n.b}/{job.id}",
                       "{a}", "x/{{auto}}/id/{job.id}"]
    if uname in ("sep", "sepnest"):
        return base + ["{a}/{{auto}}", "{job.id}"]
    if uname == "dots":
        # values "", ".", ".." inside format-string paths: paths that differ as strings but name the same
        # place ("d/" and "d/."), paths that are not in normal form (".", "p//x"), paths that leave the prefix
        return base + ["d/{a}", "{a}/x", ".", "p//{a}", "./{a}", "{a}", "{a}/{b}"]
    return base + [
        "{%s}/{{auto}}" % k0, "{%s}" % k0, "%s_{%s}/{{auto}}" % (k1, k1), "{job.id}", "{job}",
        "{job.sp.%s}/{{auto:_}}" % k0, "{{auto:-}}", "q/{%s}/" % k0, "{zz}",
        "{%s}/{%s}" % (k0, k1), "lit", "{job.sp.%s}.{%s}/{{auto}}" % (k1, k0)
    ]


def gen_history(rng, uname, pfx):
    ops = []
    live = []
    njobs = rng.choice([0, 1, 1, 2, 2, 3, 3, 4, 5, 6, 8])
    for _ in range(njobs):
        sp = rand_sp(rng, uname)
        if sp not in live:
            live.append(sp)
            ops.append(["add", sp])
    specs = spec_pool(uname)
    sticky = rng.choice(specs) if rng.random() < 0.6 else None
    nrounds = rng.randint(2, 5)
    for r in range(nrounds):
        # a view
        sel = None
        q = rng.random()
        if q < 0.3 and live:
            k = rng.choice([1, 1, 2, 2, 3, len(live)])
            sel = [sp for sp in rng.sample(live, min(k, len(live)))]
        elif q < 0.305:
            sel = []
        spec = sticky if rng.random() < 0.7 else rng.choice(specs)
        ops.append(["view", sel, spec] + (["abbr"] if sel and rng.random() < 0.35 else []))
        if r == 0 and rng.random() < 0.15:
            # the view directory is moved to another depth (its relative links now lead elsewhere); later views use
            # the new place and must repair every link
            ops.append(["mvview"])
        # some changes
        for _ in range(rng.choice([0, 1, 1, 2, 3])):
            m = rng.random()
            if m < 0.4 or not live:
                sp = rand_sp(rng, uname)
                if sp not in live:
                    live.append(sp)
                    ops.append(["add", sp])
            elif m < 0.7:
                sp = rng.choice(live)
                live.remove(sp)
                ops.append(["remove", sp])
            else:
                sp = rng.choice(live)
                new = rand_sp(rng, uname)
                if rng.random() < 0.5:  # change one key only / drop / add one key
                    new = dict(sp)
                    k = rng.choice(UNIVERSES[uname]["keys"][:3])
                    if k in new and rng.random() < 0.3 and len(new) > 1:
                        del new[k]
                    else:
                        new[k] = rng.choice(UNIVERSES[uname]["vals"])
                if new not in live:
                    live.remove(sp)
                    live.append(new)
                    ops.append(["rekey", sp, new])
    ops.append(["view", None, sticky])
    return {"pfx": pfx, "u": uname, "ops": ops}


CORNERS = [
    # hand-written histories around the places the algorithm is delicate (kept tiny)
    # a leaf/node conflict with a sibling that sorts between the leaf and the paths below it ('job' < 'job.id' < 'job/')
    {"pfx": "view", "u": "jobnest", "ops": [["add", {"a": 1}], ["add", {"a": 1, "job": {"id": 7}}], ["add", {"c": 3}],
                                            ["view", None, None], ["add", {"a": 1, "job": 5}], ["view", None, None]]},
    {"pfx": "view", "u": "jobnest", "ops": [["add", {"a": 1}], ["add", {"a": 1, "job": {"-x": 1}}],
                                            ["add", {"a": 1, "job": 5}], ["view", None, None]]},
    # the view directory moved to another depth between two runs
    {"pfx": "view", "u": "homog", "ops": [["add", {"a": 1}], ["add", {"a": 2}], ["view", None, None], ["mvview"],
                                          ["view", None, None], ["add", {"a": 3}], ["view", None, None]]},
    {"pfx": "view", "u": "homog", "ops": [["view", None, None]]},
    {"pfx": "view", "u": "homog", "ops": [["add", {"a": 1}], ["view", None, None], ["view", None, None],
                                          ["add", {"a": 2}], ["view", None, None], ["remove", {"a": 1}],
                                          ["view", None, None], ["remove", {"a": 2}], ["view", None, None]]},
    {"pfx": "view", "u": "collide", "ops": [["add", {"a": 1}], ["add", {"a": "1"}], ["view", None, None]]},
    {"pfx": "view", "u": "collide", "ops": [["add", {"a": True, "b": 1}], ["add", {"a": 1, "b": 2}],
                                            ["add", {"a": 1.0, "b": 3}], ["view", None, None]]},
    {"pfx": "view", "u": "jobkey", "ops": [["add", {"job": "x"}], ["add", {"job": "y"}], ["view", None, None],
                                           ["view", None, None]]},
    {"pfx": "view", "u": "jobkey", "ops": [["add", {"a": 1}], ["add", {"a": 1, "job": 2}], ["add", {"a": 2, "job": 3}],
                                           ["view", None, None]]},
    {"pfx": "view", "u": "jobkey", "ops": [["add", {"a": 1, "job": 2}], ["add", {"a": 2, "job": 3}],
                                           ["add", {"a": 2, "job": 4}], ["view", None, None],
                                           ["rekey", {"a": 1, "job": 2}, {"a": 1}], ["view", None, None]]},
    {"pfx": "view", "u": "jobkey", "ops": [["add", {"a": 1}], ["add", {"a": 2, "job": 3}], ["add", {"a": 2, "job": 4}],
                                           ["view", None, None], ["rekey", {"a": 1}, {"a": 1, "job": 2}],
                                           ["view", None, None]]},
    {"pfx": "view", "u": "homog", "ops": [["add", {"a": 1}], ["add", {"a": 2}], ["add", {"a": 3}], ["view", [], None],
                                          ["view", None, None], ["view", [{"a": 1}, {"a": 3}], None],
                                          ["view", [{"a": 2}], None], ["view", [], None]]},
    {"pfx": "views/deep", "u": "jobval", "ops": [["add", {"a": "job"}], ["add", {"a": "x"}], ["add", {"a": "y"}],
                                                 ["view", None, None], ["remove", {"a": "job"}], ["view", None, None]]},
    {"pfx": "view", "u": "dots", "ops": [["add", {"a": ""}], ["add", {"a": "job"}], ["view", None, None]]},
    {"pfx": "view", "u": "dots", "ops": [["add", {"a": "job"}], ["add", {"a": ""}], ["view", None, None]]},
    {"pfx": "view", "u": "homog", "ops": [["add", {"a": 1}], ["view", None, "{{auto}}/id/{job.id}"]]},
    {"pfx": "view", "u": "sep", "ops": [["add", {"a": 1}], ["add", {"a": 2}], ["view", None, None],
                                        ["add", {"a": "x/y"}], ["view", None, None]]},
]


def generate(tier, rng):
    n = 9000 if tier == "quick" else 70000
    for c in CORNERS:
        yield c
    names = list(UNIVERSES)
    for i in range(n):
        uname = names[i % len(names)]
        yield gen_history(rng, uname, "view" if rng.random() < 0.7 else "views/deep")


def search(rng, deadline):
    names = list(UNIVERSES)
    i = 0
    while True:
        i += 1
        yield gen_history(rng, names[i % len(names)], "view")


def shrink(case):
    ops = case["ops"]
    # drop a suffix, then single ops
    for k in range(len(ops) - 1, 0, -1):
        if ops[k - 1][0] == "view":
            yield dict(case, ops=ops[:k])
    for i in range(len(ops)):
        yield dict(case, ops=ops[:i] + ops[i + 1:])
    for i, op in enumerate(ops):
        if op[0] == "view" and op[1] is not None:
            for j in range(len(op[1])):
                yield dict(case, ops=ops[:i] + [["view", op[1][:j] + op[1][j + 1:], op[2]]] + ops[i + 1:])
        if op[0] == "view" and op[2] is not None:
            yield dict(case, ops=ops[:i] + [["view", op[1], None]] + ops[i + 1:])


# ----------------------------------------------------------------------------
# observation
# ----------------------------------------------------------------------------
def snapshot(view, workspace):
    """Everything below `view`: sorted [(relpath, 'D')] / [(relpath, 'L', target, text)] / [(relpath, 'F')].
    target = name of the workspace entry the link resolves to, or '?'+path for anything else."""
    out = []
    ws = os.path.realpath(workspace)
    for dp, dns, fns in os.walk(view):
        for n in sorted(dns) + sorted(fns):
            full = os.path.join(dp, n)
            rel = os.path.relpath(full, view)
            if os.path.islink(full):
                text = os.readlink(full)
                res = os.path.realpath(full)
                tgt = os.path.basename(res) if os.path.dirname(res) == ws else "?" + res
                out.append((rel, "L", tgt, text))
            elif os.path.isdir(full):
                out.append((rel, "D"))
            else:
                out.append((rel, "F"))
    return sorted(out)


def tree_tokens(snap):
    toks = ["T%d" % len(snap)]
    for e in snap:
        if e[1] == "D":
            toks += ["D", hx(e[0])]
        elif e[1] == "L":
            toks += ["L", hx(e[0]), hx(e[2])]
        else:
            toks += ["D", hx(e[0])]  # never produced by the tool; the oracle flags it
    return toks


def tree_line(snap):
    ents = []
    for e in snap:
        if e[1] == "L":
            ents.append("L:%s:%s" % (hx(e[0]), hx(e[2])))
        else:
            ents.append("D:%s" % hx(e[0]))
    return sorted(ents)


def spec_token(path):
    if path is None:
        return "PA"
    if path is False:
        return "PI"
    return "PS" + hx(path)


def plain(x):
    if hasattr(x, "items"):
        return {k: plain(v) for k, v in x.items()}
    if isinstance(x, (list, tuple)):
        return [plain(v) for v in x]
    return x


def outcome_of(exc):
    if exc is None:
        return "done"
    if isinstance(exc, RuntimeError):
        return "reject:" + type(exc).__name__
    if isinstance(exc, OSError):
        import errno
        return "fail:" + errno.errorcode.get(exc.errno, str(exc.errno))
    return "raise:" + exc_name(exc)


class Escape(Exception):
    """a file-system write outside the scratch project was attempted (and prevented)"""


class sandboxed:
    """While active, os.mkdir / os.makedirs / os.symlink refuse any destination outside `root`
    (the code under test must never write outside the view prefix; this keeps a defect from
    touching the machine)."""

    NAMES = ("mkdir", "makedirs", "symlink")

    def __init__(self, root):
        self.root = os.path.realpath(root) + os.sep

    def _guard(self, name, orig):
        def f(*a, **kw):
            dst = a[1] if name == "symlink" else a[0]
            full = os.path.normpath(os.path.join(os.getcwd(), os.fspath(dst)))
            # judged by where the entry really lands (the prefix may be addressed through a symbolic link)
            real = os.path.join(os.path.realpath(os.path.dirname(full)), os.path.basename(full))
            if not (real + os.sep).startswith(self.root):
                raise Escape(full)
            return orig(*a, **kw)
        return f

    def __enter__(self):
        self.orig = {n: getattr(os, n) for n in self.NAMES}
        for n in self.NAMES:
            setattr(os, n, self._guard(n, self.orig[n]))
        return self

    def __exit__(self, *a):
        for n, f in self.orig.items():
            setattr(os, n, f)
        return False


def surely_representable(sps, path):
    """A sufficient, deliberately simple condition (no signac code, no model): automatic paths over a flat
    homogeneous selection whose values are all ints or all plain words per key."""
    if path is not None:
        return False
    if not sps:
        return True
    keys = set(sps[0])
    for sp in sps:
        if set(sp) != keys:
            return False
        for k, v in sp.items():
            if k in ("job", "", ".", "..") or "/" in k:
                return False
            if type(v) is int:
                continue
            if type(v) is str and v and v not in (".", "..", "job") and "/" not in v:
                continue
            return False
    for k in keys:
        if len({type(sp[k]) for sp in sps}) != 1:
            return False
    return len({json.dumps(sp, sort_keys=True) for sp in sps}) == len(sps)


def check_exact(snap, selected, view):
    """The property's first sentence on a snapshot: exactly one link per selected job resolving to the job
    directory, the directories leading to links, nothing else."""
    fails = []
    links = [e for e in snap if e[1] == "L"]
    dirs = {e[0] for e in snap if e[1] == "D"}
    for e in snap:
        if e[1] == "F":
            fails.append("[exact] regular file %r in the view" % e[0])
    by_target = {}
    for e in links:
        by_target.setdefault(e[2], []).append(e[0])
    for jid in selected:
        n = len(by_target.get(jid, []))
        if n != 1:
            fails.append("[exact] selected job %s has %d links in the view %r" % (jid, n, by_target.get(jid, [])))
    for tgt, ps in sorted(by_target.items()):
        if tgt not in selected:
            fails.append("[exact] link(s) %r resolve to %r which is not a selected job directory" % (ps, tgt))
    for e in links:
        if os.path.basename(e[0]) != "job":
            fails.append("[exact] link %r is not called 'job'" % e[0])
    need = set()
    for e in links:
        d = os.path.dirname(e[0])
        while d:
            need.add(d)
            d = os.path.dirname(d)
    for d in sorted(dirs - need):
        fails.append("[exact] directory %r leads to no link (empty or dead branch)" % d)
    for d in sorted(need - dirs):
        fails.append("[exact] %r should be a directory" % d)
    return fails


def find_job(project, sp):
    job = project.open_job(sp)
    return job if job in project else None


def run_case(case, ctx):
    import signac

    d = os.path.realpath(ctx.fresh_dir("c17"))
    base = d
    model, impl, oracle, tags = [], [], [], ["u=" + case.get("u", "?")]
    keyparts = []
    try:
        if zlib.crc32(json.dumps(case, sort_keys=True, default=str).encode()) % 3 == 0:
            # project and view addressed through a symbolic link whose target lies at another depth
            # (a linked $HOME / scratch directory): <d>/home -> <d>/storage/vol1/home
            os.makedirs(os.path.join(base, "storage", "vol1", "home", "project"))
            os.symlink(os.path.join("storage", "vol1", "home"), os.path.join(base, "home"))
            d = os.path.join(base, "home", "project")
            tags.append("via-symlink")
        project = signac.init_project(d)
        ws = project.workspace
        view = os.path.join(d, case["pfx"])
        nscratch = 0
        for op in case["ops"]:
            if oracle:
                break
            kind = op[0]
            if kind == "add":
                project.open_job(op[1]).init()
                continue
            if kind == "remove":
                job = find_job(project, op[1])
                if job is not None:
                    job.remove()
                continue
            if kind == "rekey":
                job = find_job(project, op[1])
                if job is not None:
                    try:
                        job.statepoint = op[2]
                    except Exception:
                        pass
                continue
            if kind == "mvview":
                if os.path.isdir(view):
                    new_view = os.path.join(d, "moved", "deeper", case["pfx"].replace(os.sep, "_") + "_%d" % len(keyparts))
                    os.makedirs(os.path.dirname(new_view), exist_ok=True)
                    os.rename(view, new_view)
                    view = new_view
                    tags.append("view-moved")
                continue
            assert kind == "view", op
            sel, path = op[1], op[2]
            all_ids = [j.id for j in project]
            if sel is None:
                sel_ids, jobs = None, [project.open_job(id=i) for i in all_ids]
            else:
                jobs = [j for j in (find_job(project, sp) for sp in sel) if j is not None]
                sel_ids = [j.id for j in jobs]
            job_ids = [j.id for j in jobs]
            if len(op) > 3 and op[3] == "abbr" and sel_ids:
                # the selection spelled with unique abbreviated ids (what `signac view -j 9f` passes through)
                def short(i):
                    for n in range(1, 33):
                        if sum(1 for x in all_ids if x.startswith(i[:n])) == 1:
                            return i[:n]
                    return i
                sel_ids = [short(i) for i in sel_ids]
                tags.append("sel-abbreviated")
            sps = [plain(j.statepoint()) for j in jobs]
            # the same call spelled `signac view -p PREFIX [PATH] [-j IDS]` (argument parsing and glue), where it can be
            via_cli = (zlib.crc32(json.dumps(op, sort_keys=True, default=str).encode()) % 5 == 0
                       and (path is None or (isinstance(path, str) and path and not path.startswith("-")))
                       and (sel_ids is None or len(sel_ids) > 0))
            if via_cli:
                tags.append("via-signac-view-command-line")
                if path is None:
                    path = "{{auto}}"      # what the command passes when no path is given
            prior = snapshot(view, ws)
            line = ["view", spec_token(path), "J%d" % len(jobs)]
            for jid, sp in zip(job_ids, sps):
                line += [jid, enc_val(sp)]
            line += tree_tokens(prior)

            # --- the real thing
            exc = None
            try:
                with sandboxed(d):
                    if via_cli:
                        cli_view(d, view, sel_ids, path)
                    else:
                        project.create_linked_view(prefix=view, job_ids=ids_arg(sel_ids, op), path=path)
            except Exception as e:  # noqa
                exc = e
            post = snapshot(view, ws)
            if isinstance(exc, Escape):
                model.append(" ".join(line))
                impl.append(" ".join(["escape"] + tree_line(post)))
                oracle.append("[escape] create_linked_view tried to create %s, which is outside the view prefix"
                              % exc)
                tags += ["out=escape"]
                break
            out = outcome_of(exc)
            model.append(" ".join(line))
            impl.append(" ".join([out] + tree_line(post)))
            tags.append("out=" + out.split(":")[0])
            tags.append("sel=%s" % ("all" if sel is None else min(len(jobs), 3)))
            tags.append("path=%s" % ("auto" if path is None else "id" if path is False else "fmt"))
            tags.append("njobs=%d" % min(len(jobs), 6))
            if prior:
                tags.append("update")
            if jobs or prior:
                keyparts.append([sorted(json.dumps(s, sort_keys=True) for s in sps), repr(path),
                                 [e[:3] for e in prior]])

            # --- the direct oracle
            fails = []
            # from-scratch build of the same selection into a second prefix
            nscratch += 1
            view2 = view + "_s%d" % nscratch
            exc2 = None
            try:
                with sandboxed(d):
                    project.create_linked_view(prefix=view2, job_ids=ids_arg(sel_ids, op), path=path)
            except Exception as e:  # noqa
                exc2 = e
            scratch = snapshot(view2, ws)
            if exc is None:
                fails += check_exact(post, set(job_ids), view)
                bad = sorted({x for sp in sps for k, v in sp.items() for x in (k, v)
                              if isinstance(x, str) and os.sep in x})
                if bad:
                    fails.append("[reject] state points containing the path separator %r were accepted "
                                 "(documented: RuntimeError)" % bad[:3])
                if exc2 is not None:
                    fails.append("[scratch] update of the existing view succeeded but a from-scratch build raised %s"
                                 % outcome_of(exc2))
                elif scratch != post:
                    fails.append("[scratch] updated view differs from a from-scratch build: only in updated %r, "
                                 "only in scratch %r" % (sorted(set(post) - set(scratch))[:4],
                                                         sorted(set(scratch) - set(post))[:4]))
                # second run is a no-op
                exc3 = None
                try:
                    with sandboxed(d):
                        project.create_linked_view(prefix=view, job_ids=ids_arg(sel_ids, op), path=path)
                except Exception as e:  # noqa
                    exc3 = e
                again = snapshot(view, ws)
                if sel is not None and exc3 is None and again == post:
                    # a selection naming an id that is no job of the project is rejected, the view stays
                    bogus = "f" * 32 if "f" * 32 not in all_ids else "e" * 32
                    exc4 = None
                    try:
                        with sandboxed(d):
                            project.create_linked_view(prefix=view, job_ids=list(sel_ids) + [bogus], path=path)
                    except Exception as e:  # noqa
                        exc4 = e
                    after4 = snapshot(view, ws)
                    if exc4 is None:
                        fails.append("[reject] a selection containing the id %s, which names no job, was accepted" % bogus)
                    if after4 != post:
                        fails.append("[reject] a selection containing an unknown id changed the existing view: %r"
                                     % (sorted(set(after4) ^ set(post))[:4],))
                    tags.append("unknown-id-probe")
                if exc3 is not None:
                    fails.append("[idem] running create_linked_view a second time raised %s: %s"
                                 % (outcome_of(exc3), str(exc3)[:120]))
                elif again != post:
                    fails.append("[idem] second run changed the view: %r" % (sorted(set(again) ^ set(post))[:4],))
            elif isinstance(exc, RuntimeError):
                if post != prior:
                    fails.append("[reject] %s raised but the existing view changed: %r"
                                 % (type(exc).__name__, sorted(set(post) ^ set(prior))[:4]))
                if exc2 is None:
                    fails.append("[reject] updating the existing view raised %s (%s) but the same selection builds "
                                 "from scratch" % (type(exc).__name__, str(exc)[:80]))
                elif scratch:
                    fails.append("[reject] rejected input left entries in a fresh prefix: %r" % (scratch[:3],))
                if surely_representable(sps, path):
                    fails.append("[reject] a flat homogeneous selection with distinct plain values was rejected: %s"
                                 % str(exc)[:120])
            elif isinstance(exc, ValueError) and not (path is None or path is False or isinstance(path, str)):
                pass
            else:
                fails.append("[oserror] create_linked_view raised %s: %s; view now %r"
                             % (outcome_of(exc), str(exc)[:120], [e[:2] for e in post][:6]))
            core_shutil_rmtree(view2)
            if fails:
                oracle += fails
    finally:
        ctx.cleanup(base)
    key = json.dumps(keyparts, sort_keys=True, default=str) if keyparts else None
    return {"model": model, "impl": impl, "oracle": oracle, "tags": sorted(set(tags)), "key": key}


def ids_arg(sel_ids, op):
    """the selection as the documented 'iterable of job ids': a list, a tuple, a generator or an iterator (one-shot)"""
    if sel_ids is None:
        return None
    how = zlib.crc32(json.dumps(op, sort_keys=True, default=str).encode()) % 4
    return [list(sel_ids), tuple(sel_ids), (i for i in list(sel_ids)), iter(list(sel_ids))][how]


def cli_view(d, view, sel_ids, path):
    """`signac view -p PREFIX [PATH] [-j IDS]` in-process from the project directory; the exception
    create_linked_view raised (the command prints it and exits 1) is recorded by a spy and re-raised."""
    import contextlib
    import io
    import sys

    import signac
    import signac.__main__ as M

    seen = []
    orig = signac.Project.create_linked_view

    def spy(self, *a, **k):
        try:
            return orig(self, *a, **k)
        except Exception as e:  # noqa: BLE001
            seen.append(e)
            raise
    argv = ["signac", "view", "-p", view] + ([path] if path != "{{auto}}" else []) + (["-j"] + list(sel_ids) if sel_ids else [])
    old_argv, old_cwd = sys.argv, os.getcwd()
    code = 0
    err = io.StringIO()
    signac.Project.create_linked_view = spy
    try:
        os.chdir(d)
        sys.argv = argv
        with contextlib.redirect_stdout(io.StringIO()), contextlib.redirect_stderr(err):
            try:
                M.main()
            except SystemExit as e:
                code = e.code if isinstance(e.code, int) else (0 if e.code is None else 1)
    finally:
        sys.argv = old_argv
        os.chdir(old_cwd)
        signac.Project.create_linked_view = orig
    if seen:
        raise seen[-1]
    if code != 0:
        raise OSError("signac view exited with %r without an exception from create_linked_view: %s" % (
            code, err.getvalue().strip()[-300:]))


def core_shutil_rmtree(p):
    import shutil

    shutil.rmtree(p, ignore_errors=True)

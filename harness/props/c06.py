"""C06 — find_jobs returns exactly the jobs a per-job reference evaluator accepts (DESIGN §4 C06)."""
import json
import random

from harness import query_common as qc
from harness.core import exc_name

ID = "C06"
TITLE = "find_jobs returns exactly the jobs a per-job reference evaluator accepts"
LEAN_MODULE = "Signac.Properties.C06"
DRIVER = "drv_query"
DESIGN_REF = "DESIGN.md §4 C06"
RULE = ("one evaluation = one (corpus, filter) pair run through the real Project.find_jobs on a real project "
        "on disk; corpora of 0-6 jobs (state point keys a, b, nested n.x/n.y; documents absent / empty / keys "
        "a, d, nested m.x) over ints, int-valued floats (incl. -1.0/-2.0), other floats, bools, None, strings, "
        "lists (incl. nested lists and mappings inside lists), sub-mappings, empty mappings, missing keys; "
        "filters: the whole atom table (15 key spellings, incl. keys that merely begin with the letters sp/doc, x 151 operator/argument pairs, each in one of four "
        "spellings) + logical small-scope combinations over both namespaces + seeded random filters to depth 3 "
        "+ a malformed stream; distinct = distinct (corpus, filter) JSON; non-trivial = at least one job and a "
        "non-empty filter")
MODELLED = ["re.search, float(str), math.isclose (results supplied per case by the harness as tables)",
            "CPython dict slot rule (same hash and ==); hash(True) == hash(1), tuples of equal numbers hash equal",
            "os.listdir order of the workspace (read by the harness, sent with the case)",
            "json round trip of the filter (filters are JSON values already)"]
ASSUMPTIONS = ["job data and filters are JSON values with string keys, finite floats, |ints| <= 2^53",
               "mappings have distinct keys",
               "math.isclose depends only on the numeric value of its first argument (True ~ 1 ~ 1.0)",
               "$where and the internal _id shortcut are outside the modelled grammar"]
EXHAUSTIVE = {"quick": False, "thorough": False}
TECHNIQUE = ("Lean 4 theorems about an executable model of the index-based query engine (value index with dict-slot "
             "semantics, operator evaluation on index keys, int/float dual lookup, set algebra with early exits, "
             "namespace prefixing and the decision to index documents) against a structural per-job evaluator + "
             "differential correspondence of the compiled model against the real Project.find_jobs on real projects "
             "+ an independent Python per-job evaluator as oracle")

FILTERS_PER_CASE = 12


def _atoms_table():
    out = []
    for key in qc.KEY_SPELLINGS:
        for op, arg in qc.ATOM_ARGS:
            out.append((key, op, arg))
    return out


def _logical_small_scope(rng, n):
    """$and/$or/$not over a reduced atom set, both namespaces, also next to plain atoms"""
    base = [{"a": 1}, {"a": {"$gt": 0}}, {"b": {"$exists": False}}, {"doc.d": 1}, {"doc.a": {"$ne": "a"}},
            {"n.x": {"$in": [1, "a"]}}, {"doc.m.x": {"$exists": True}}, {"a": {"$type": "int"}}, {"b": "a"},
            {"doc.d": {"$lt": 2}}, {"sp.a": True}, {"doc": {"d": {"$gte": 0}}}, {}, {"spin": {"$exists": True}},
            {"docs": {"$ne": 1}}, {"doc.spin": {"$exists": False}}]
    out = []
    for _ in range(n):
        k = rng.random()
        x, y, z = rng.choice(base), rng.choice(base), rng.choice(base)
        if k < 0.2:
            f = {"$not": x}
        elif k < 0.35:
            f = {"$and": [x, y]}
        elif k < 0.5:
            f = {"$or": [x, y]}
        elif k < 0.6:
            f = dict(z, **{"$not": x})
        elif k < 0.7:
            f = dict(z, **{"$or": [x, {"$not": y}]})
        elif k < 0.8:
            f = {"$and": [{"$or": [x, y]}, {"$not": z}]}
        elif k < 0.9:
            f = {"$not": {"$and": [x, y]}, "$or": [z, {"$not": x}]}
        else:
            f = {"$or": [{"$and": [x, {"$not": y}]}, {"$not": {"$or": [y, z]}}]}
        out.append(f)
    return out


def _dense_corpus(rng):
    """corpus whose key `a` (state point and document) takes values that collide under ==:
    exercises slot sharing (True/1/1.0, -1/-1.0) and the dual int/float lookup"""
    vals = [1, True, 1.0, -1, -1.0, 0, False, 0.0, 2, 2.0, -2, -2.0, "1"]
    jobs, seen = [], set()
    for _ in range(rng.randint(2, 6)):
        sp = {"a": rng.choice(vals)}
        if rng.random() < 0.5:
            sp["b"] = rng.choice(vals)
        if rng.random() < 0.4:
            sp["n"] = {"x": rng.choice(vals)}
        k = json.dumps(sp, sort_keys=True)
        if k in seen:
            continue
        seen.add(k)
        doc = None if rng.random() < 0.2 else {"d": rng.choice(vals), "a": rng.choice(vals)}
        if doc is not None and rng.random() < 0.4:
            doc["m"] = {"x": rng.choice(vals)}
        jobs.append([sp, doc])
    return jobs


def _corpus(rng, i):
    m = i % 8
    if m == 0:
        return _dense_corpus(rng)
    if m == 1:
        return qc.rand_corpus(rng, typed="num")
    if m == 2:
        return qc.rand_corpus(rng, typed=rng.choice(["str", "list"]))
    return qc.rand_corpus(rng)


def _family(op, arg):
    """value family a corpus should mostly hold so that the atom is well-typed"""
    if op in qc.CMP_OPS:
        return "list" if isinstance(arg, list) else "str" if isinstance(arg, str) else "num"
    if op == "$near":
        return "num"
    return None


def _corner_cases():
    """hand-written (corpus, filters): the same mapping inside a list in two key orders, big integers"""
    a, b = [{"k": 1, "m": 2}], [{"m": 2, "k": 1}]
    deep1, deep2 = [1, {"k": [1, {"z": 0, "y": 1}]}], [1, {"k": [1, {"y": 1, "z": 0}]}]
    jobs = [[{"a": a, "b": 0}, {"d": b}], [{"a": deep1, "b": 1}, None], [{"a": [1], "b": 2}, {"d": [2]}]]
    fs = [{"a": b}, {"a": a}, {"doc.d": a}, {"a": deep2}, {"$not": {"a": b}}, {"$or": [{"a": b}, {"b": 2}]},
          {"a": {"$eq": b}}, {"a": {"$ne": deep2}}, {"a": {"$in": [b, [1]]}}, {"sp": {"a": b}}]
    yield {"jobs": jobs, "filters": fs, "loc": True}
    big = [[{"a": 2 ** 53}, None], [{"a": 2 ** 53 + 1}, None], [{"a": 2.0 ** 53}, {"d": 2 ** 63 - 1}], [{"a": 2 ** 63 - 1}, None]]
    fb = [{"a": 2 ** 53 + 1}, {"a": 2 ** 53}, {"a": 2.0 ** 53}, {"a": 2 ** 63 - 1}, {"doc.d": 2 ** 63 - 1}, {"a": {"$eq": 2 ** 53 + 1}},
          {"a": {"$gt": 2 ** 53}}, {"$not": {"a": 2 ** 53 + 1}}, {"a": {"$in": [2 ** 53 + 1]}}]
    yield {"jobs": big, "filters": fb, "loc": True}


def generate(tier, rng):
    for c in _corner_cases():
        yield c
    quick = tier == "quick"
    table = _atoms_table()
    reps = 24 if quick else 220
    ci = 0
    for rep in range(reps):
        rng.shuffle(table)
        buckets = {}
        for t in table:
            buckets.setdefault(_family(t[1], t[2]), []).append(t)
        for fam, items in sorted(buckets.items(), key=lambda kv: str(kv[0])):
            for i in range(0, len(items), FILTERS_PER_CASE):
                fs = [qc.make_atom(k, op, arg, rng.choice([0, 0, 1, 2, 3])) for k, op, arg in items[i:i + FILTERS_PER_CASE]]
                ci += 1
                # mostly a corpus of the matching family; every fourth one unconstrained (error paths)
                jobs = qc.rand_corpus(rng, typed=fam) if (fam and ci % 4) else _corpus(rng, ci)
                yield {"jobs": jobs, "filters": fs, "loc": ci % 5 == 0}
    # value conflation inside one index slot: every $type atom and the equality family on dense corpora
    dense_filters = [{k: {"$type": t}} for k in ["a", "b", "n.x", "doc.a", "doc.d", "doc.m.x"] for t in qc.TYPE_NAMES]
    dense_filters += [qc.make_atom(k, op, v, 0) for k in ["a", "doc.a"] for op in [None, "$eq", "$ne"]
                      for v in [1, True, 1.0, -1, -1.0, 0, False, 0.0, -2.0]]
    dense_filters += [qc.make_atom(k, op, v, 0) for k in ["a", "doc.d"] for op in ["$in", "$nin"]
                      for v in [[1], [True, -1.0], [0.0], [False, 2]]]
    for rep in range(40 if quick else 300):
        rng.shuffle(dense_filters)
        for i in range(0, len(dense_filters), FILTERS_PER_CASE):
            ci += 1
            yield {"jobs": _dense_corpus(rng), "filters": dense_filters[i:i + FILTERS_PER_CASE], "loc": ci % 5 == 0}
    n_logic = 2500 if quick else 22000
    for j in range(n_logic):
        ci += 1
        yield {"jobs": _corpus(rng, ci), "filters": _logical_small_scope(rng, FILTERS_PER_CASE), "loc": ci % 5 == 0}
    n_rand = 3000 if quick else 28000
    for j in range(n_rand):
        ci += 1
        fs = [qc.rand_filter(rng, rng.choice([0, 1, 1, 2, 2, 3])) for _ in range(FILTERS_PER_CASE)]
        yield {"jobs": _corpus(rng, ci), "filters": fs, "loc": ci % 5 == 0}
    n_mal = 30 if quick else 200
    for j in range(n_mal):
        ci += 1
        yield {"jobs": _corpus(rng, ci), "filters": list(qc.MALFORMED), "loc": False}
    # trivial ends of the space
    yield {"jobs": [], "filters": [{}, {"a": 1}, {"$not": {"a": 1}}, {"a": {"$foo": 1}}, {"a": {"$lt": "x"}}], "loc": False}
    yield {"jobs": [[{"a": 1}, None]], "filters": [{}, {"a": 1}, {"doc.d": {"$exists": False}}], "loc": True}


def search(rng, deadline):
    i = 0
    while True:
        i += 1
        if i % 3 == 0:
            fs = _logical_small_scope(rng, FILTERS_PER_CASE)
        elif i % 3 == 1:
            fs = [qc.rand_atom(rng) for _ in range(FILTERS_PER_CASE)]
        else:
            fs = [qc.rand_filter(rng, rng.choice([1, 2, 3])) for _ in range(FILTERS_PER_CASE)]
        yield {"jobs": _corpus(rng, i), "filters": fs, "loc": i % 4 == 0}


def shrink(case):
    fs = case["filters"]
    if len(fs) > 1:
        for f in fs:
            yield dict(case, filters=[f])
    for jobs in qc.shrink_jobs(case["jobs"]):
        yield dict(case, jobs=jobs)
    if len(fs) == 1:
        for g in qc.shrink_filter(fs[0]):
            yield dict(case, filters=[g])


def _logic_identities(project, flt, ids, order, listing):
    """$not / $and / $or are complement / intersection / union of the operands' own results
    (checked on the real code, for filters that are exactly one logical operator).
    Returns (failure messages, known class of an operand or None)."""
    out, cls = [], None
    if not isinstance(flt, dict) or len(flt) != 1:
        return out, cls
    (k, v), = flt.items()
    operands = [v] if k == "$not" else (v if isinstance(v, list) else [])
    for x in operands:
        cls = cls or qc.known_class_of(listing, x)
    if k == "$not" and isinstance(v, dict):
        _, sub = qc.impl_find(project, v, order)
        if sub is not None and ids != set(order) - sub:
            out.append("find(%r) = %s is not the complement of find(%r) = %s" % (flt, sorted(ids), v, sorted(sub)))
    elif k in ("$and", "$or") and isinstance(v, list) and v and all(isinstance(x, dict) for x in v):
        subs = [qc.impl_find(project, x, order)[1] for x in v]
        if all(s is not None for s in subs):
            want = set(order) if k == "$and" else set()
            for s in subs:
                want = (want & s) if k == "$and" else (want | s)
            if ids != want:
                out.append("find(%r) = %s is not the %s of its operands' results %s" % (
                    flt, sorted(ids), "intersection" if k == "$and" else "union", [sorted(s) for s in subs]))
    return out, cls


def run_case(case, ctx):
    jobs, filters = case["jobs"], case["filters"]
    d, project, listing = qc.build_project(ctx, jobs, "c06")
    order = [i for i, _, _ in listing]
    model, impl, oracle, tags = [], [], [], ["jobs=%d" % len(listing)]
    fail_classes, dbg = [], []
    singles = []
    try:
        if case.get("loc") and listing:
            for i, sp, doc in listing:
                sd, sproj, slist = qc.build_project(ctx, [[sp, doc]], "c06s")
                singles.append((sd, sproj, slist))
        for flt in filters:
            line, ids = qc.impl_find(project, flt, order)
            model.append("find " + qc.payload(listing, flt))
            impl.append(line)
            dbg.append(flt)
            acc, reason = qc.oracle_set(listing, flt)
            for op in qc.filter_ops(flt):
                tags.append("op=" + op)
            tags.append("depth=%d" % qc.filter_depth(flt))
            fails, cls = [], None
            if acc is None:
                tags.append(reason.split(":")[0])
                tags.append("impl=" + (line if line.startswith("err") else "ok"))
            else:
                if ids is None:
                    fails.append("find_jobs(%r) raises %s for a well-typed filter; per-job evaluation accepts %s of %s"
                                 % (flt, line[4:], sorted(acc), [[i, sp, doc] for i, sp, doc in listing]))
                elif ids != acc:
                    fails.append("find_jobs(%r) = %s but per-job evaluation accepts %s; jobs %s"
                                 % (flt, sorted(ids), sorted(acc), [[i, sp, doc] for i, sp, doc in listing]))
                tags.append("result=" + ("all" if acc and len(acc) == len(order) else "some" if acc else "empty"))
                if ids is not None:
                    more, cls = _logic_identities(project, flt, ids, order, listing)
                    fails += more
                # locality: the verdict on a job is the verdict of the same filter on a project
                # holding only that job (real code), and the model's reference evaluator agrees
                if singles:
                    verdicts = []
                    for (sd, sproj, slist) in singles:
                        sline, sids = qc.impl_find(sproj, flt, [slist[0][0]])
                        verdicts.append("E:" + sline[4:] if sids is None else ("T" if sids else "F"))
                    model.append("ref " + qc.payload(listing, flt))
                    dbg.append(flt)
                    impl.append(",".join(verdicts))
                    for (i, sp, doc), v in zip(listing, verdicts):
                        if ids is not None and v in ("T", "F") and (v == "T") != (i in ids):
                            fails.append("job %s (%r, %r) is %s by find_jobs(%r) in the corpus but %s alone"
                                         % (i, sp, doc, "selected" if i in ids else "rejected", flt,
                                            "selected" if v == "T" else "rejected"))
            if fails:
                oracle += fails
                fail_classes.append(qc.known_class_of(listing, flt) or cls)
    finally:
        ctx.cleanup(d)
        for sd, _, _ in singles:
            ctx.cleanup(sd)
    nontrivial = bool(listing) and any(filters)
    key = json.dumps([jobs, filters], sort_keys=True) if nontrivial else None
    return {"model": model, "impl": impl, "oracle": oracle, "tags": tags, "key": key,
            "fail_classes": fail_classes, "dbg": dbg}


def known_class(case, result):
    """F-6a: `$type` on a key under which the corpus holds a bool and an ==-equal int at top level.
    A case is explained only if every failing filter of it is in one of these classes."""
    cl = result.get("fail_classes") or []
    if not cl or any(c is None for c in cl):
        return None
    return cl[0]


LEVEL_TEXT = ("Proved in Lean, for corpora of any size and filters of any depth over the whole modelled grammar "
              "(implicit equality, $eq $ne $gt $gte $lt $lte $in $nin $exists $regex $type $near, $and/$or/$not nested "
              "arbitrarily, dotted or nested keys, sp./doc. namespaces): the index-based search of the model "
              "(per-key value index with dict-slot semantics incl. the float wrapper and True/1 slot sharing, operator "
              "evaluation on the stored keys, int/float dual lookup, set algebra with early exits, documents indexed "
              "iff 'doc' is a root key) returns exactly the ids of the jobs a structural per-job evaluator accepts "
              "(find_eq_ref, find_mem_iff); corollaries: locality (find_local), $not = "
              "complement, $and = intersection, $or = union (not_compl / and_inter / or_union), and that deciding "
              "from the root keys whether documents are indexed loses nothing (indexed_data_suffices). Hypotheses: "
              "distinct ids; well-typed filter (direct evaluation raises for no job); math.isclose depends on the numeric "
              "value only; every mapping in the job data has distinct keys (an invariant of Python dicts; mappings inside "
              "lists at any depth are covered); no $type atom on a key under which two "
              "jobs hold a bool and an ==-equal int (finding F-6a; the unrestricted statement is proved FALSE of the model "
              "from the two-job witness, find_eq_ref_full_false). The model is compared with the real Project.find_jobs on "
              "real on-disk projects for every generated (corpus, filter) pair, result sets and exception kinds, and its "
              "reference evaluator with the real code's verdict on single-job projects.")
LEVEL_NOTE = ("Trusted: Lean kernel; axioms propext/Classical.choice/Quot.sound; harness (generators, wire format, tables of "
              "re.search / float(str) / math.isclose results, workspace listing order) and the independent Python per-job "
              "evaluator used as oracle. The distinct-keys hypothesis is needed in the model only (association lists with a repeated key: "
              "find_eq_ref_nonflat_false); "
              "$where and the unreachable _id shortcut are outside the model. _root_keys descends into $not (F-6b, fixed in "
              "/repo): the model has the same rule, filters mentioning doc only below $not take part in the diff like "
              "any other, and the former behaviour is shown wrong in the model (old_root_keys_lose_documents). One filter naming "
              "the same key in two spellings ('a' and 'sp.a') silently keeps only the later entry in the code and in the "
              "model; the oracle gives no verdict on such filters.")

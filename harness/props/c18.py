"""C18 — schema detection and job diffs are exact summaries of the state points (DESIGN §4 C18).

A case is a corpus of state points plus a list of `detect_schema` queries (subset selection given as
jobs / ids / unknown ids, exclude_const) and a list of `diff_jobs` argument lists:

    {"sps": [sp, ...], "fresh": bool,
     "queries": [{"sel": null | [["job", i] | ["id", i] | ["bogus", "<32 hex>"], ...], "excl": bool}, ...],
     "diffs": [[i, ...], ...]}

Every query and every diff is one line for the Lean driver `drv_schema` and one line observed on a real
project on disk.  The oracle is a brute-force evaluation of the property over the plain state points and
uses neither the Lean model nor signac's flattening / indexing helpers.
"""
import itertools
import json
import os

from harness import gen
from harness.core import exc_name, hx

ID = "C18"
TITLE = "Schema detection and job diffs are exact summaries of the state points"
LEAN_MODULE = "Signac.Properties.C18"
DRIVER = "drv_schema"
DESIGN_REF = "DESIGN.md §4 C18"
RULE = ("bounded-exhaustive corpora of 1-3 jobs {a: v} over a 14-value alphabet of colliding values "
        "(True/1/1.0, False/0/0.0/-0.0, [1]/[1.0]/[True], {} / {b: 1} / scalar under one key) + seeded random "
        "corpora of 0-8 jobs drawn from per-path value pools (so that jobs share, almost share and miss keys; "
        "nesting depth <= 4; ints beyond 2^53 next to the equal float; lists of lists / of mappings; empty "
        "mappings; keys '', non-ASCII) x 2-4 detect_schema queries (no subset / subsets given as Job objects, "
        "ids, unknown ids, duplicates; exclude_const on/off) x 1-3 diff_jobs argument lists (all, sub-multisets, "
        "singletons, none), half of the corpora read back through a fresh Project handle; a third of the corpora "
        "come with a SECOND project (same state points reordered / a sub-corpus / extra jobs / one value with its "
        "type or value twisted / unrelated; all 18 x 18 ordered pairs of tiny corpora first): "
        "ProjectSchema.difference both ways with and without ignore_values, and the schema gate of a dry-run "
        "project.sync(other, check_schema=True) (SchemaSyncConflict or not); distinct = distinct "
        "(corpus, queries, diffs); non-trivial = at least one job")
MODELLED = ["CPython hash/== of None, bool, int, float, str, tuple (re-stated as pyEq / slotEq; '==' implies equal "
            "hashes except for signac's _float wrapper)",
            "dict/set slot semantics: the first inserted of several equal keys stays the stored key",
            "iteration order of the index (os.listdir order, or the order of the Python set built from `subset`): "
            "observed on the real call and passed to the model as the job order",
            "the 'sp.' prefix that is added to and stripped from every key (elided in the model)"]
ASSUMPTIONS = ["state points are JSON values with str keys without '.', finite floats (signac rejects dotted keys)",
               "job ids are distinct (they are directory names)"]
EXHAUSTIVE = {"quick": False, "thorough": False}

TECHNIQUE = ("Lean 4 theorems about an executable model of _nested_dicts_to_dotted_keys, build_index with "
             "Python dict-slot semantics, _build_job_statepoint_index, _collect_by_type, diff_jobs and "
             "_dotted_dict_to_nested_dicts, ProjectSchema equality / difference and the schema gate of sync_projects "
             "(sync.py:829-836) + differential correspondence of the compiled model against "
             "project.detect_schema / signac.diff_jobs on real projects + brute-force oracle over the state points")
LEVEL_TEXT = ("Proved in Lean for all corpora (any number of jobs, any nesting depth, any value mix): the reported "
              "keys are exactly the dotted keys of the selected jobs, minus exactly the constant keys iff "
              "exclude_const (constant = every selected job holds a value under the key and all land in one dict "
              "slot); every reported value is a value some selected job holds under that key, filed under its own "
              "Python type, no two reported values of a key share a slot; under NoBoolIntClash every job value is "
              "represented under its own type (schema_values_exact_partial; the unrestricted statement is refuted "
              "in Lean from the two-job witness of F-6a); flatten/unflatten round-trips on dot-free mappings with "
              "distinct keys; each job's diff and its common part partition its flattened pairs, are disjoint "
              "under Python equality, the common part consists of pairs present in every job, and unflattening "
              "the partition restores the state point. Schema gate of sync (model SchemaGate): detected schemas are "
              "well-formed Python mappings (distinct keys, distinct types, value lists are sets under ==); on those "
              "schema equality is reflexive and symmetric, the two one-sided differences are both empty iff the "
              "schemas are equal (so the inner test of the gate is redundant: syncGate_simple), the gate is "
              "symmetric in the two projects, never fires on a project compared with itself or when either side "
              "has no keys; difference(ignore_values=True) is exactly the keys the other side lacks and a subset of "
              "the full difference; the gate is NOT independent of the job order (syncGate_perm_false, the F-6a "
              "slot clash), which is why the observed index order is passed to the model; it IS independent of the "
              "order of a side without a bool/int clash (syncGate_perm_partial, detectSchema_perm_schemaEq_partial), "
              "the reported key set never depends on the order (detectSchema_perm_keys), schemaEq is transitive.")
LEVEL_NOTE = ("Trusted: Lean kernel; axioms propext/Classical.choice/Quot.sound; the harness (generator, wire "
              "format, brute-force oracle). Modelled, not verified: CPython hashing/equality and set/dict slot "
              "behaviour, index iteration order (observed per call). The model has the current "
              "behaviour of the code, including F-6a (True/1 share a dict slot) and the repairs F-18a/F-18b/F-18c/"
              "F-18d that this check found and that are applied in /repo.")

BOGUS = "0123456789abcdef0123456789abcdef"


# ----------------------------------------------------------------------------------------------
# canonical rendering (must equal lean/Drv/Schema.lean: wire (canon v), everything sorted as strings)
# ----------------------------------------------------------------------------------------------
def enc_canon(x):
    """Wire tokens of a value with mapping entries sorted by key; tuples/lists alike; type exact."""
    if x is None:
        return "N"
    if x is True:
        return "T"
    if x is False:
        return "F"
    if isinstance(x, int):
        return "I%d" % x
    if isinstance(x, float):
        n, d = float(x).as_integer_ratio()
        e = d.bit_length() - 1
        return "D%d/%d:%s" % (n, e, hx(float.__repr__(float(x))))
    if isinstance(x, str):
        return "S" + hx(x)
    if isinstance(x, (list, tuple)):
        return " ".join(["A%d" % len(x)] + [enc_canon(v) for v in x])
    if hasattr(x, "items"):
        parts = ["O%d" % len(x)]
        for k in sorted(x):
            parts.append("S" + hx(k))
            parts.append(enc_canon(x[k]))
        return " ".join(parts)
    return "?" + type(x).__name__


def enc_plain(x):
    """Wire tokens in the entry order given (input side)."""
    if isinstance(x, dict):
        parts = ["O%d" % len(x)]
        for k, v in x.items():
            parts.append("S" + hx(k))
            parts.append(enc_plain(v))
        return " ".join(parts)
    if isinstance(x, (list, tuple)):
        return " ".join(["A%d" % len(x)] + [enc_plain(v) for v in x])
    return enc_canon(x)


def render_schema(schema):
    out = []
    for key, by_type in schema.items():
        types = []
        for t, vals in by_type.items():
            types.append(t.__name__ + "=" + ",".join(sorted(enc_canon(v) for v in vals)))
        out.append(hx(key) + ">" + ";".join(sorted(types)))
    return "|".join(sorted(out))


# ----------------------------------------------------------------------------------------------
# brute-force reference (the property itself; no signac helper, no Lean)
# ----------------------------------------------------------------------------------------------
class _Empty:
    """marker for an empty mapping found below the root"""


def leaves(sp):
    """[(path tuple, leaf value)]: leaves are non-mappings and empty mappings below the root."""
    out = []

    def walk(d, path):
        for k, v in d.items():
            if isinstance(v, dict):
                if v:
                    walk(v, path + (k,))
                else:
                    out.append((path + (k,), _Empty))
            else:
                out.append((path + (k,), v))

    walk(sp, ())
    return out


_MISSING = object()


def lookup(sp, path):
    v = sp
    for k in path:
        if not isinstance(v, dict) or k not in v:
            return _MISSING
        v = v[k]
    return v


def frozen(v):
    """hashable twin with Python's own equality: list -> tuple, mapping -> frozenset of items"""
    if isinstance(v, (list, tuple)):
        return tuple(frozen(x) for x in v)
    if isinstance(v, dict):
        return frozenset((k, frozen(x)) for k, x in v.items())
    return v


def tname(v):
    return "tuple" if isinstance(v, (list, tuple)) else type(v).__name__


def bool_int_clash(values):
    bools = [v for v in values if isinstance(v, bool)]
    ints = [v for v in values if type(v) is int]
    return any(b == i for b in bools for i in ints)


def neg_hash_clash(values):
    """the input class of F-18d (repaired): an int n with hash(n) == -2 (-1, -2, -2**61) next to an ==-equal
    float; hash(_float(x)) is hash(x) + 1 and CPython maps the hash value -1 to -2.  Used as a tag only."""
    ints = [v for v in values if type(v) is int and hash(v) == -2]
    floats = [v for v in values if type(v) is float]
    return any(i == f for i in ints for f in floats)


def unhashable_list(v):
    """F-18c: a list holding (at any list depth) a mapping one of whose values is a list or a mapping."""
    if isinstance(v, list):
        for x in v:
            if isinstance(x, dict):
                if any(isinstance(y, (list, dict)) for y in x.values()):
                    return True
            elif unhashable_list(x):
                return True
    return False


def has_unhashable(sp):
    return any(unhashable_list(v) for _, v in leaves(sp))


def has_empty_mapping(sp):
    return any(v is _Empty for _, v in leaves(sp))


def expected_schema(sel_sps, excl):
    """{dotted key: {type name: frozen value set}} and per-key notes, by brute force."""
    paths = []
    for sp in sel_sps:
        for p, _ in leaves(sp):
            if p not in paths:
                paths.append(p)
    exp, clash = {}, {}
    for p in paths:
        vals = [lookup(sp, p) for sp in sel_sps]
        present = [v for v in vals if v is not _MISSING]
        scalars = [v for v in present if not isinstance(v, dict)]
        const = len(present) == len(sel_sps) and (
            all(isinstance(v, dict) for v in present)
            or (len(scalars) == len(present)
                and all(tname(v) == tname(scalars[0]) and frozen(v) == frozen(scalars[0]) for v in scalars)))
        key = ".".join(p)
        clash[key] = "F-6a" if bool_int_clash(scalars) else False
        if excl and const:
            continue
        by_type = {}
        for v in scalars:
            by_type.setdefault(tname(v), set()).add(frozen(v))
        exp[key] = by_type
    return exp, clash


def check_schema(got, sel_sps, excl, where):
    """Compare a detect_schema result with the brute-force expectation.  Returns [(message, class)]."""
    exp, clash = expected_schema(sel_sps, excl)
    msgs = []
    any_empty_sp = any(len(sp) == 0 for sp in sel_sps)
    for key in sorted(set(got) | set(exp)):
        cls = clash.get(key) or None
        if key not in exp:
            if key not in got:
                continue
            if key == "" and any_empty_sp and not got[key] and not excl:
                # F-18b (fixed in /repo): must not come back
                msgs.append(("%s: reports the key '' (no values) for an empty state point" % where, None))
            elif clash.get(key) is None:
                msgs.append(("%s: reports key %r which no selected job has" % (where, key), None))
            else:
                msgs.append(("%s: key %r is constant over the selection but is reported" % (where, key), cls))
            continue
        if key not in got:
            msgs.append(("%s: key %r %s is not reported" % (
                where, key, "(not constant: types/values differ)" if excl else ""), cls))
            continue
        g = {}
        for t, vals in got[key].items():
            for v in vals:
                if tname(v) != t.__name__:
                    msgs.append(("%s: key %r value %r filed under %s" % (where, key, v, t.__name__), cls))
            g[t.__name__] = {frozen(v) for v in vals}
        g = {t: s for t, s in g.items() if s}
        if g != exp[key]:
            msgs.append(("%s: key %r reports %s, the selected jobs hold %s" % (
                where, key, _fmt_types(g), _fmt_types(exp[key])), cls))
    return msgs


def _fmt_types(d):
    return "{" + ", ".join("%s: %s" % (t, sorted(map(repr, s))) for t, s in sorted(d.items())) + "}"


def pairs_of(sp):
    return [(".".join(p), frozenset() if v is _Empty else frozen(v)) for p, v in leaves(sp)]


def typed(v):
    """type-exact text of a value (lists and tuples alike, mappings sorted)"""
    return enc_canon(v)


def merge_nested(a, b):
    """deep union of two nested mappings (b's leaves win)"""
    out = dict(a)
    for k, v in b.items():
        if k in out and isinstance(out[k], dict) and isinstance(v, dict):
            out[k] = merge_nested(out[k], v)
        else:
            out[k] = v
    return out


def nest(pairs):
    out = {}
    for path, v in pairs:
        d = out
        for k in path[:-1]:
            d = d.setdefault(k, {})
        d[path[-1]] = {} if v is _Empty else v
    return out


def check_diff(result, ids, sps, where):
    msgs = []
    if not ids:
        if result != {}:
            msgs.append(("%s: diff of no jobs is %r" % (where, result), None))
        return msgs
    if sorted(result) != sorted(set(ids)):
        msgs.append(("%s: result has ids %s for jobs %s" % (where, sorted(result), sorted(set(ids))), None))
        return msgs
    all_pairs = [pairs_of(sp) for sp in sps]
    common = [p for p in all_pairs[0] if all(p in other for other in all_pairs[1:])]
    for i, sp in zip(ids, sps):
        own = leaves(sp)
        want = [(p, v) for (p, v), fz in zip(own, pairs_of(sp)) if fz not in common]
        rest = [(p, v) for (p, v), fz in zip(own, pairs_of(sp)) if fz in common]
        want_d = nest(want)
        if typed(result[i]) != typed(want_d):
            msgs.append(("%s: diff of %r among %r is %r, its pairs not shared by all are %r" % (
                where, sp, sps, result[i], want_d), None))
            continue
        if typed(merge_nested(nest(rest), _plain(result[i]))) != typed(sp):
            msgs.append(("%s: diff %r merged with the common part %r does not give back %r" % (
                where, result[i], nest(rest), sp), None))
    return msgs


def _plain(v):
    if isinstance(v, dict):
        return {k: _plain(x) for k, x in v.items()}
    if isinstance(v, (list, tuple)):
        return [_plain(x) for x in v]
    return v


# ----------------------------------------------------------------------------------------------
# generators
# ----------------------------------------------------------------------------------------------
ALPHABET = [True, 1, 1.0, False, 0, 0.0, -0.0, "1", None, [1], [1.0], [True], {}, {"b": 1}]
SUBKEYS = ["a", "b", "c", "", "é", "x y", "sp", "disp", "0", "1"]
FAMILIES = [
    [1, 1.0, True, 2, "1"],
    [0, False, 0.0, -0.0, None],
    [2 ** 53, float(2 ** 53), 2 ** 53 + 1, -1],
    [1.5, "1.5", 3, 3.0],
    [-1, -1.0, -2, -2.0, -3, -3.0],
    ["a", "b", "", "é", None],
    [[1], [1.0], [True], [1, 2], []],
    [[[1], "a"], [[1.0], "a"], [[], []], [None]],
    [[{"b": 1}], [{"b": 1.0}], [{"b": 1, "c": None}], [{}]],
    [[0, False], [False, 0], [0.0, -0.0], [-0.0, 0.0]],
    # equal mappings inside lists, written in different key orders (== and hash must not depend on the order)
    [[{"b": 1, "c": 2}], [{"c": 2, "b": 1}], [{"b": 1, "c": 2}, {"c": 3, "b": 1}], [{"c": 2, "b": 1}, {"b": 1, "c": 3}]],
    [[{"u": 64, "act": "relu", "p": None}], [{"act": "relu", "p": None, "u": 64}], [{"p": None, "u": 64, "act": "relu"}]],
]
UNHASHABLE = [[{"b": [1]}], [{"b": {"c": 1}}], [1, [{"k": []}]]]


def canon_text(sp):
    return json.dumps(sp, sort_keys=True)


def make_pool(rng, depth, pools, path):
    """what the jobs of one corpus may hold under `path` (1-3 alternatives)"""
    if path in pools:
        return pools[path]
    alts = []
    fam = rng.choice(FAMILIES)
    odd = pools.get("odd", False)  # corpora that may hold empty mappings / deep list values / {}
    for _ in range(rng.choice([1, 1, 2, 2, 3])):
        r = rng.random()
        if depth > 0 and r < 0.22:
            alts.append(("map",))
        elif r < 0.30:
            alts.append(("val", {}) if odd else ("val", rng.choice(fam)))
        elif r < 0.32:
            alts.append(("val", rng.choice(UNHASHABLE)) if odd else ("val", rng.choice(fam)))
        elif r < 0.42:
            alts.append(("val", gen.rand_scalar(rng)))
        else:
            alts.append(("val", rng.choice(fam)))
    pools[path] = alts
    return alts


def make_mapping(rng, depth, pools, path, keys_here, p_present):
    d = {}
    ks = list(keys_here)
    if rng.random() < 0.3:
        rng.shuffle(ks)
    for k in ks:
        if rng.random() > p_present:
            continue
        alt = rng.choice(make_pool(rng, depth, pools, path + (k,)))
        if alt[0] == "map":
            sub = pools.setdefault(("keys",) + path + (k,), rng.sample(SUBKEYS, rng.choice([1, 2, 2, 3])))
            d[k] = make_mapping(rng, depth - 1, pools, path + (k,), sub, rng.choice([0.6, 0.9, 1.0]))
        else:
            d[k] = json.loads(json.dumps(alt[1]))
    return d


def make_corpus(rng, n):
    pools = {"odd": rng.random() < 0.5}
    top = rng.sample(SUBKEYS + ["d", "z9"], rng.choice([1, 2, 2, 3, 4]))
    depth = rng.choice([0, 1, 2, 2, 3])
    p_present = rng.choice([0.5, 0.8, 1.0])
    sps, seen = [], set()
    for _ in range(n * 3):
        if len(sps) >= n:
            break
        sp = make_mapping(rng, depth, pools, (), top, p_present)
        t = canon_text(sp)
        if not sp and not pools["odd"]:
            continue  # the empty state point only in the odd corpora
        if t not in seen:
            seen.add(t)
            sps.append(sp)
    return sps


def make_queries(rng, n, k):
    qs = [{"sel": None, "excl": rng.random() < 0.5}]
    while len(qs) < k:
        r = rng.random()
        if r < 0.25:
            sel = None
        else:
            sel = []
            m = rng.randint(0, max(1, n))
            for _ in range(m):
                if n == 0 or rng.random() < 0.1:
                    sel.append(["bogus", BOGUS])
                else:
                    sel.append([rng.choice(["job", "id"]), rng.randrange(n)])
        qs.append({"sel": sel, "excl": rng.random() < 0.5})
    if n and not any(q["sel"] is None and q["excl"] for q in qs) and rng.random() < 0.5:
        qs.append({"sel": None, "excl": True})
    return qs


def make_diffs(rng, n, k):
    ds = [list(range(n))]
    while len(ds) < k:
        r = rng.random()
        if n == 0 or r < 0.05:
            ds.append([])
        elif r < 0.2:
            ds.append([rng.randrange(n)])
        else:
            ds.append([rng.randrange(n) for _ in range(rng.randint(2, min(n + 1, 6)))])
    return ds


# every ordered pair of these tiny corpora is a (destination, source) pair for the schema gate / difference
GATE_CORPORA = [[], [{}], [{"a": 1}], [{"a": 2}], [{"a": 1.0}], [{"a": True}], [{"a": True}, {"a": 1}],
                [{"a": 1}, {"a": 2}], [{"a": {}}], [{"a": {"b": 1}}], [{"a": {"b": 1}}, {"a": 5}], [{"a": {"b": 1.0}}],
                [{"a": 1, "b": None}], [{"a": [1]}], [{"a": [1.0]}], [{"a": "1"}], [{"b": 1}], [{}, {"a": 1}]]


def small_cases():
    for v in ALPHABET:
        yield [{"a": v}]
    for v, w in itertools.combinations(ALPHABET, 2):
        yield [{"a": v}, {"a": w}]
    for n in (-1, -2, -3, -2 ** 61):
        yield [{"a": n}, {"a": float(n)}]
        yield [{"a": [n]}, {"a": [float(n)]}, {"a": n}]
    yield [{}]
    yield [{}, {"a": 1}]
    yield [{}, {"": 1}]
    yield [{"a": {}}, {"a": {}, "b": 1}]
    yield [{"a": {"b": 1}}, {"a": 5}, {"a": {}}]


def generate(tier, rng):
    for sps in small_cases():
        n = len(sps)
        yield {"sps": sps, "fresh": rng.random() < 0.5,
               "queries": [{"sel": None, "excl": False}, {"sel": None, "excl": True}],
               "diffs": [list(range(n))]}
    for a in GATE_CORPORA:
        for b in GATE_CORPORA:
            yield {"sps": json.loads(json.dumps(a)), "fresh": rng.random() < 0.5, "queries": [], "diffs": [],
                   "gate": {"sps": json.loads(json.dumps(b))}}
    triples = list(itertools.combinations(ALPHABET, 3))
    rng.shuffle(triples)
    for t in triples[: (120 if tier == "quick" else len(triples))]:
        yield {"sps": [{"a": v} for v in t], "fresh": rng.random() < 0.5,
               "queries": [{"sel": None, "excl": False}, {"sel": None, "excl": True},
                           {"sel": [["job", 0], ["id", 2]], "excl": True}],
               "diffs": [[0, 1, 2], [2, 0]]}
    n_random = 12000 if tier == "quick" else 160000
    for _ in range(n_random):
        yield random_case(rng)


def _twist(rng, v):
    """a near miss of a value: same text family, other type / other value"""
    if isinstance(v, dict):
        if not v:
            return {"a": 1}
        k = rng.choice(sorted(v))
        return dict(v, **{k: _twist(rng, v[k])})
    if isinstance(v, bool):
        return int(v)
    if isinstance(v, int):
        return float(v) if abs(v) < 2 ** 53 and rng.random() < 0.7 else v + 1
    if isinstance(v, float):
        if v.is_integer() and abs(v) < 2 ** 53 and rng.random() < 0.7:
            return int(v)
        w = v / 2 + 1                      # stays finite (v * 2 overflows to inf near the top of the range)
        return w if w != v else 0.5
    if isinstance(v, str):
        return v + "x"
    if isinstance(v, list):
        return v + [0] if rng.random() < 0.5 else [_twist(rng, x) for x in v[:1]] + v[1:]
    return 0


def make_gate(rng, sps):
    """state points of a SECOND project, related to the first: the two detected schemas are compared
    (ProjectSchema.difference both ways, with and without ignore_values) and the schema gate of a dry-run
    project sync is observed"""
    base = json.loads(json.dumps(sps))
    rng.shuffle(base)
    r = rng.random()
    if r < 0.2:
        out = base                                   # the same state points in another order
    elif r < 0.4:
        out = base[: rng.randint(0, len(base))]      # a sub-corpus (possibly empty)
    elif r < 0.55:
        out = base + make_corpus(rng, rng.randint(1, 2))
    elif r < 0.85 and base:
        i = rng.randrange(len(base))                 # one value changes its type / value
        out = base[:i] + [_twist(rng, base[i])] + base[i + 1:]
        if rng.random() < 0.5:
            out = out[: max(1, rng.randint(1, len(out)))]
    else:
        out = make_corpus(rng, rng.randint(0, 4))
    seen, res = set(), []
    for sp in out:
        t = canon_text(sp)
        try:
            json.dumps(sp, allow_nan=False)      # state points are JSON: no inf / nan
        except ValueError:
            continue
        if isinstance(sp, dict) and t not in seen and not has_unhashable(sp):
            seen.add(t)
            res.append(sp)
    return {"sps": res}


def random_case(rng):
    n = rng.choice([0, 1, 2, 2, 3, 3, 4, 4, 5, 6, 7, 8])
    sps = make_corpus(rng, n)
    n = len(sps)
    case = {"sps": sps, "fresh": rng.random() < 0.5,
            "queries": make_queries(rng, n, rng.choice([2, 3, 4])),
            "diffs": make_diffs(rng, n, rng.choice([1, 2, 3]))}
    if rng.random() < 0.35:
        case["gate"] = make_gate(rng, sps)
    if n >= 2 and rng.random() < 0.25:
        # jobs that existed and are gone when the questions are asked (their state points are still in the session /
        # persistent cache; the selection may still name them): they are no longer jobs of the project
        case["gone"] = sorted(rng.sample(range(n), rng.choice([1, 1, 2]) if n > 2 else 1))
        case["ucache"] = rng.random() < 0.5
    return case


def search(rng, deadline):
    while True:
        yield random_case(rng)


def _drop_job(case, i):
    sps = case["sps"][:i] + case["sps"][i + 1:]

    def fix(j):
        return j - 1 if j > i else j

    queries = []
    for q in case["queries"]:
        if q["sel"] is None:
            queries.append(q)
        else:
            sel = [[k, fix(j)] if k != "bogus" else [k, j] for k, j in q["sel"] if k == "bogus" or j != i]
            queries.append({"sel": sel, "excl": q["excl"]})
    diffs = [[fix(j) for j in d if j != i] for d in case["diffs"]]
    out = dict(case, sps=sps, queries=queries, diffs=diffs)
    if case.get("gone"):
        out["gone"] = [fix(j) for j in case["gone"] if j != i]
    return out


def shrink(case):
    if len(case["queries"]) + len(case["diffs"]) > 1:
        for i in range(len(case["queries"])):
            yield dict(case, queries=case["queries"][:i] + case["queries"][i + 1:])
        for i in range(len(case["diffs"])):
            yield dict(case, diffs=case["diffs"][:i] + case["diffs"][i + 1:])
    for i in range(len(case["sps"])):
        yield _drop_job(case, i)
    for qi, q in enumerate(case["queries"]):
        if q["sel"]:
            for j in range(len(q["sel"])):
                qq = dict(q, sel=q["sel"][:j] + q["sel"][j + 1:])
                yield dict(case, queries=case["queries"][:qi] + [qq] + case["queries"][qi + 1:])
    for di, d in enumerate(case["diffs"]):
        for j in range(len(d)):
            yield dict(case, diffs=case["diffs"][:di] + [d[:j] + d[j + 1:]] + case["diffs"][di + 1:])
    texts = {canon_text(sp) for sp in case["sps"]}
    for i, sp in enumerate(case["sps"]):
        for s in gen.shrink_value(sp):
            if isinstance(s, dict) and canon_text(s) not in texts:
                yield dict(case, sps=case["sps"][:i] + [s] + case["sps"][i + 1:])
    if case.get("fresh"):
        yield dict(case, fresh=False)
    if case.get("gate") is not None:
        yield {k: v for k, v in case.items() if k != "gate"}
        g = case["gate"]["sps"]
        for i in range(len(g)):
            yield dict(case, gate={"sps": g[:i] + g[i + 1:]})
        gtexts = {canon_text(sp) for sp in g}
        for i, sp in enumerate(g):
            for s in gen.shrink_value(sp):
                if isinstance(s, dict) and canon_text(s) not in gtexts:
                    yield dict(case, gate={"sps": g[:i] + [s] + g[i + 1:]})


# ----------------------------------------------------------------------------------------------
# running the real code
# ----------------------------------------------------------------------------------------------
_RECORDED = []
_PATCHED = [None]


def _install_order_probe():
    """Record the iteration order of the index detect_schema hands to _build_job_statepoint_index
    (harness-side wrapper; /repo is not touched)."""
    import signac.schema as S

    cur = S._build_job_statepoint_index
    if getattr(cur, "_c18_probe", False):
        return
    orig = cur

    def probe(exclude_const, index):
        _RECORDED.append(list(index.keys()))
        return orig(exclude_const=exclude_const, index=index)

    probe._c18_probe = True
    S._build_job_statepoint_index = probe


def job_line(ids_sps):
    return " ".join("S%s %s" % (hx(i), enc_plain(sp)) for i, sp in ids_sps)


def run_case(case, ctx):
    import signac

    _install_order_probe()
    sps = case["sps"]
    model, impl, msgs, tags = [], [], [], []
    d = ctx.fresh_dir("c18")
    try:
        project = signac.init_project(d)
        jobs = [project.open_job(sp).init() for sp in sps]
        ids = [j.id for j in jobs]
        if len(set(ids)) != len(ids):
            raise RuntimeError("generator produced two state points with one id")
        by_id = dict(zip(ids, sps))
        gone = set(case.get("gone") or [])
        if gone:
            if case.get("ucache"):
                project.update_cache()
            for i in sorted(gone):
                jobs[i].remove()
        if case.get("fresh"):
            project = signac.Project(d)
            jobs = [project.open_job(id=i) if n not in gone else project.open_job(sps[n]) for n, i in enumerate(ids)]
        listing = [n for n in os.listdir(project.workspace) if n in by_id]

        for qn, q in enumerate(case["queries"]):
            where = "detect_schema(exclude_const=%s, subset=%s)" % (q["excl"], _fmt_sel(q["sel"]))
            if q["sel"] is None:
                subset, wanted = None, set(ids)
            else:
                subset, wanted = [], set()
                for kind, arg in q["sel"]:
                    if kind == "job":
                        subset.append(jobs[arg])
                        wanted.add(ids[arg])
                    elif kind == "id":
                        subset.append(ids[arg])
                        wanted.add(ids[arg])
                    else:
                        subset.append(arg)
            sel_sps = [by_id[i] for i in listing if i in wanted]
            del _RECORDED[:]
            try:
                got = dict(project.detect_schema(exclude_const=q["excl"], subset=subset))
                line = render_schema(got)
                err = None
            except Exception as e:  # noqa: BLE001 - every exception is an observation
                got, err = None, e
                line = "EXC:" + exc_name(e)
            order = _RECORDED[-1] if _RECORDED else None
            if order is None or sorted(order) != sorted(w for w in wanted if w in listing):
                order = [i for i in listing if i in wanted]
            model.append("schema %d %d %s" % (1 if q["excl"] else 0, len(order),
                                              job_line([(i, by_id[i]) for i in order])))
            impl.append(line)
            if err is not None:
                msgs.append(("%s raised %s: %s" % (where, exc_name(err), err), None))
                tags.append("schema-exc=" + exc_name(err))
            else:
                msgs.extend(check_schema(got, sel_sps, q["excl"], where + " over " + repr(sel_sps)))
            tags.append("subset=" + ("none" if q["sel"] is None else "given"))
            tags.append("selected=%d" % min(len(sel_sps), 8))

        for dn, idxs in enumerate(case["diffs"]):
            idxs = [i for i in idxs if i not in gone]
            dj = [jobs[i] for i in idxs]
            dids = [ids[i] for i in idxs]
            dsps = [sps[i] for i in idxs]
            where = "diff_jobs over %r" % (dsps,)
            try:
                res = signac.diff_jobs(*dj)
                line = "|".join("%s>%s" % (hx(i), enc_canon(res[i]) if i in res else "?") for i in dids)
                err = None
            except Exception as e:  # noqa: BLE001
                res, err = None, e
                line = "EXC:" + exc_name(e)
            model.append("diff %d %s" % (len(idxs), job_line(list(zip(dids, dsps)))))
            impl.append(line)
            if err is not None:
                msgs.append(("%s raised %s: %s" % (where, exc_name(err), err), None))
                tags.append("diff-exc=" + exc_name(err))
            else:
                msgs.extend(check_diff(res, dids, dsps, where))
            tags.append("diffed=%d" % min(len(idxs), 8))

        if case.get("gate") is not None:
            run_gate(case, ctx, project, [by_id[i] for i in listing], listing, by_id, model, impl, msgs, tags)
    finally:
        ctx.cleanup(d)

    tags.append("jobs=%d" % len(sps))
    allv = [v for sp in sps for _, v in leaves(sp)]
    if any(v is _Empty for v in allv):
        tags.append("has-empty-mapping")
    if any(isinstance(v, list) for v in allv):
        tags.append("has-list")
    if any(len(p) > 1 for sp in sps for p, _ in leaves(sp)):
        tags.append("has-nesting")
    paths = {p for sp in sps for p, _ in leaves(sp)}
    if any(isinstance(lookup(sp, p), dict) and lookup(sp, p) for sp in sps for p in paths):
        tags.append("scalar-vs-mapping")
    if any(bool_int_clash([lookup(sp, p) for sp in sps if lookup(sp, p) is not _MISSING
                           and not isinstance(lookup(sp, p), dict)]) for p in paths):
        tags.append("bool-int-clash")
    if any(neg_hash_clash([lookup(sp, p) for sp in sps if lookup(sp, p) is not _MISSING
                           and not isinstance(lookup(sp, p), dict)]) for p in paths):
        tags.append("neg-hash-clash")
    if case.get("fresh"):
        tags.append("fresh-handle")
    if case.get("gone"):
        tags.append("removed-jobs-in-cache" + ("+persistent" if case.get("ucache") else ""))
    key = None
    if sps:
        key = json.dumps([sorted(canon_text(sp) for sp in sps), case["queries"], case["diffs"],
                          sorted(canon_text(sp) for sp in (case.get("gate") or {"sps": []})["sps"])
                          if case.get("gate") is not None else None], sort_keys=True)
    return {"model": model, "impl": impl, "oracle": [m for m, _ in msgs],
            "classes": [c for _, c in msgs], "tags": tags, "key": key}


def _observed_schema(project, ids, by_id):
    """(ProjectSchema, job order the index was built in, exception)"""
    del _RECORDED[:]
    try:
        sch = project.detect_schema()
    except Exception as e:  # noqa: BLE001
        return None, list(ids), e
    order = _RECORDED[-1] if _RECORDED else None
    if order is None or sorted(order) != sorted(ids):
        order = list(ids)
    return sch, order, None


def expected_difference(sps_a, sps_b, ignore_values):
    """keys of a's schema that b's schema lacks, plus (unless ignore_values) keys whose typed value sets
    differ; None when a True/1 slot clash (F-6a) makes the reported value sets order dependent"""
    ea, ca = expected_schema(sps_a, False)
    eb, cb = expected_schema(sps_b, False)
    if any(ca.values()) or any(cb.values()):
        return None, None
    keys = {k for k in ea if k not in eb}
    if not ignore_values:
        keys |= {k for k in ea if k in eb and ea[k] != eb[k]}
    return keys, bool(ea) and bool(eb) and ea != eb


def run_gate(case, ctx, project, sps_a, ids_a, by_a, model, impl, msgs, tags):
    """second project; ProjectSchema.difference and the schema gate of sync_projects (dry run)"""
    import contextlib
    import io

    import signac
    from signac.errors import SchemaSyncConflict

    d2 = ctx.fresh_dir("c18g")
    try:
        other = signac.init_project(d2)
        sps_b = case["gate"]["sps"]
        jobs_b = [other.open_job(sp).init() for sp in sps_b]
        by_b = {j.id: sp for j, sp in zip(jobs_b, sps_b)}
        ids_b = [n for n in os.listdir(other.workspace) if n in by_b]
        A, order_a, ea = _observed_schema(project, ids_a, by_a)
        B, order_b, eb = _observed_schema(other, ids_b, by_b)
        la = "%d %s" % (len(order_a), job_line([(i, by_a[i]) for i in order_a]))
        lb = "%d %s" % (len(order_b), job_line([(i, by_b[i]) for i in order_b]))
        if ea is not None or eb is not None:
            e = ea or eb
            msgs.append(("detect_schema() raised %s: %s" % (exc_name(e), e), None))
        else:
            for ign, X, Y, lx, ly, sx, sy, name in ((False, A, B, la, lb, sps_a, [by_b[i] for i in ids_b], "A-B"),
                                                    (False, B, A, lb, la, [by_b[i] for i in ids_b], sps_a, "B-A"),
                                                    (True, A, B, la, lb, sps_a, [by_b[i] for i in ids_b], "A-B")):
                where = "schema(%r).difference(schema(%r), ignore_values=%s)" % (sx, sy, ign)
                try:
                    got = X.difference(Y, ignore_values=ign)
                    line = "|".join(sorted(hx(k) for k in got))
                    exp, _ = expected_difference(sx, sy, ign)
                    if exp is not None and set(got) != exp:
                        msgs.append(("%s = %r, the state points give %r" % (where, sorted(got), sorted(exp)), None))
                    if not isinstance(got, set):
                        msgs.append(("%s is a %s, not a set" % (where, type(got).__name__), None))
                except Exception as e:  # noqa: BLE001
                    line = "EXC:" + exc_name(e)
                    msgs.append(("%s raised %s: %s" % (where, exc_name(e), e), None))
                model.append("sdiff %d %s %s" % (1 if ign else 0, lx, ly))
                impl.append(line)
                tags.append("sdiff-%s=%s" % ("keys" if ign else "full", "empty" if not line else "nonempty"))
        # the gate of dst.sync(src, check_schema=True): dst = first project, src = second; a dry run
        del _RECORDED[:]
        buf = io.StringIO()
        try:
            with contextlib.redirect_stdout(buf):
                project.sync(other, check_schema=True, dry_run=True)
            line = "g0"
        except SchemaSyncConflict:
            line = "g1"
        except Exception as e:  # noqa: BLE001
            line = "EXC:" + exc_name(e)
            msgs.append(("dry-run sync raised %s: %s" % (exc_name(e), e), None))
        o_src, o_dst = list(ids_b), list(ids_a)
        if len(_RECORDED) >= 2 and sorted(_RECORDED[0]) == sorted(ids_b) and sorted(_RECORDED[1]) == sorted(ids_a):
            o_src, o_dst = _RECORDED[0], _RECORDED[1]
        model.append("gate %d %s %d %s" % (len(o_src), job_line([(i, by_b[i]) for i in o_src]),
                                           len(o_dst), job_line([(i, by_a[i]) for i in o_dst])))
        impl.append(line)
        _, gexp = expected_difference(sps_a, [by_b[i] for i in ids_b], False)
        if gexp is not None and line in ("g0", "g1") and (line == "g1") != gexp:
            msgs.append(("sync(check_schema=True) of %r into %r %s, but the two schemas %s" % (
                [by_b[i] for i in ids_b], sps_a, "raised SchemaSyncConflict" if line == "g1" else "went ahead",
                "are non-empty and differ" if gexp else "are equal or one is empty"), None))
        tags.append("gate=" + line[:3])
        tags.append("gate-jobs=%d" % min(len(ids_b), 8))
    finally:
        ctx.cleanup(d2)


def _fmt_sel(sel):
    if sel is None:
        return "None"
    return "[" + ", ".join("%s#%s" % (k, a) for k, a in sel) + "]"


def known_class(case, result):
    """F-6a iff EVERY oracle message of the case is about a key under which the selected jobs hold a bool
    and an ==-equal int at top level (True/1 or False/0 share a dict slot in _TypedSetDefaultDict).
    F-18a / F-18b / F-18c / F-18d were found by this check, are repaired in /repo and are carved out
    nowhere: if one of them returns it is a VIOLATION."""
    classes = result.get("classes")
    if not classes or len(classes) != len(result.get("oracle", [])):
        return None
    if all(c == "F-6a" for c in classes):
        return "F-6a"
    return None

"""C19 — discovery (get_project / get_job / init_project) resolves to the nearest enclosing
project; init_project is idempotent (DESIGN §4 C19).

A case is a recipe for a real directory tree (projects, jobs, projects inside job
directories and plain sub-directories, symlinked job directories, plain symlinks, legacy
`signac.rc` markers, projects with a foreign schema version or without workspace).  The tree is
built with the real signac, enumerated *lexically* (through symlinks), and every directory is
used as the query path — absolute, relative to varying working directories and with the
argument omitted — for get_project(search=True/False), get_job, Project() and init_project.

model : one line = the observed tree + all queries; answered by lean/Drv/Discovery.lean
oracle: brute force over all prefixes of the (lexically normalised) query path on the real
        file system; byte snapshots around init_project.  No Lean involved.
"""
import hashlib
import json
import os
import random
import re

from harness import core
from harness.core import exc_name, hx, tree_snapshot

ID = "C19"
TITLE = "Discovery resolves to the nearest enclosing project; init_project is idempotent"
LEAN_MODULE = "Signac.Properties.C19"
DRIVER = "drv_disc"
DESIGN_REF = "DESIGN.md §4 C19"
RULE = ("seeded random real directory trees, nesting depth <= 5 (a job adds two path components): projects at "
        "top level, inside job directories (as sub-directory and as the job directory itself), inside plain "
        "sub-directories; jobs; symlinked job directories and plain symlinks (to directories, job directories, "
        "projects); dangling links; plain files; legacy signac.rc markers; projects with schema_version 1/3/absent; "
        "projects whose workspace was removed; id-like names only as workspace children.  Every lexical directory "
        "(through symlinks) + files + non-existent paths are queried with get_project(search=True/False), get_job, "
        "Project(), absolute / relative to a varying cwd / argument omitted; init_project on every project and on "
        "fresh, nested non-existent and legacy directories with byte snapshots.  distinct = distinct tree recipe; "
        "non-trivial = at least one project and one job")
MODELLED = ["posixpath.abspath / normpath (re-implemented in Lean as absPath, compared on every relative query)",
            "os.path.exists / isfile / isdir through symlinks (observed by the harness, input of the model)",
            "re.finditer(JOB_ID_REGEX) (re-implemented in Lean as a scanner over each component)",
            "configobj parsing of .signac/config (harness reads schema_version with a regex and hands it to the model)"]
ASSUMPTIONS = ["no ~/.signacrc user configuration overriding schema_version",
               "no '..' component after a symlink component in a query path (abspath is lexical, exists is physical)",
               "config files are syntactically valid; `workspace` inside a project is a directory or absent",
               "getJob_innermost: names containing an id match occur only as directories named exactly by an id "
               "directly inside the workspace of a project whose workspace directory is not itself a project"]
EXHAUSTIVE = {"quick": False, "thorough": False}

IDRE = re.compile(r"[0-9a-f]{32}")
NAMES = ["a", "b", "sub", "data", "run", "x.y", "my proj", "src", "~", "~root"]


# ----------------------------------------------------------------------------
# generation
# ----------------------------------------------------------------------------
def _dirlike(n):
    return n["t"] in ("dir", "proj", "job", "legacy", "halfproj")


def _projlike(n):
    return n["t"] == "proj" or (n["t"] == "job" and n.get("proj"))


def _ancestors(nodes, i):
    out = []
    while i >= 0:
        out.append(i)
        i = nodes[i]["par"]
    return out


def gen_tree(rng, size):
    nodes, depth, used = [], [], {}
    jobk = [0]

    def add(n, d):
        nodes.append(n)
        depth.append(d)
        return len(nodes) - 1

    def fresh_name(par):
        u = used.setdefault(par, set())
        pool = [x for x in NAMES if x not in u]
        name = rng.choice(pool) if pool else "n%d" % len(u)
        u.add(name)
        return name

    for _ in range(size):
        cands = [-1] + [i for i, n in enumerate(nodes) if _dirlike(n) and depth[i] < 5]
        # favour deep parents so that nesting actually happens
        par = rng.choice(cands[-6:] if rng.random() < 0.6 else cands)
        pd = depth[par] if par >= 0 else 0
        pproj = par >= 0 and _projlike(nodes[par]) and not nodes[par].get("nows")
        r = rng.random()
        if not nodes or (par == -1 and r < 0.6):
            add({"t": "proj", "par": par, "name": fresh_name(par)}, pd + 1)
        elif pproj and r < 0.5:
            jobk[0] += 1
            add({"t": "job", "par": par, "k": jobk[0], "proj": rng.random() < 0.2}, pd + 1)
        elif pproj and r < 0.58:
            # names that merely CONTAIN an id-like run, next to the job directories: a backup copy, a prefixed
            # name, a 40-hex name, a regular FILE named like an id (none of them is a job directory)
            jobk[0] += 1
            add({"t": "wsx", "par": par, "k": jobk[0], "flavour": rng.choice(["bak", "pre", "long", "file", "bakfile"])}, pd + 1)
        elif r < 0.72:
            # sometimes what an interrupted init_project leaves: a `.signac` directory without a configuration - not a project
            add({"t": "halfproj" if rng.random() < 0.12 else "dir", "par": par, "name": fresh_name(par)}, pd + 1)
        elif r < 0.9:
            add({"t": "proj", "par": par, "name": fresh_name(par)}, pd + 1)
        elif r < 0.95:
            add({"t": "file", "par": par, "name": fresh_name(par) + ".txt"}, pd + 1)
        else:
            add({"t": "legacy", "par": par, "name": fresh_name(par), "ver": rng.choice([None, 0, 1, 2, 3])}, pd + 1)
    # project flavours
    for i, n in enumerate(nodes):
        if _projlike(n):
            has_jobs = any(m["t"] in ("job", "joblink", "wsx") and m["par"] == i for m in nodes)
            r = rng.random()
            if not has_jobs and r < 0.12:
                n["nows"] = True
            elif r < 0.22:
                n["ver"] = rng.choice([1, 3, "n"])
            n["rich"] = rng.random() < 0.5
    # links
    frozen = set()
    for _ in range(rng.choice([0, 0, 1, 2, 3])):
        linkpos = {i for i, n in enumerate(nodes) if n["t"] in ("link", "joblink")}

        def subtree(i):
            return {j for j in range(len(nodes)) if i in _ancestors(nodes, j)}

        kind = rng.choice(["joblink", "joblink", "link"])
        parents = [i for i, n in enumerate(nodes) if _dirlike(n) and not (set(_ancestors(nodes, i)) & frozen)
                   and (kind == "link" or (_projlike(n) and not n.get("nows")))]
        if kind == "link":
            parents.append(-1)
        if not parents:
            continue
        par = rng.choice(parents)
        anc = set(_ancestors(nodes, par))
        targets = [i for i, n in enumerate(nodes) if _dirlike(n) and i not in anc and not (subtree(i) & linkpos)]
        if not targets:
            continue
        tgt = rng.choice(targets)
        frozen.add(tgt)
        pd = depth[par] if par >= 0 else 0
        if kind == "joblink":
            jobk[0] += 1
            add({"t": "joblink", "par": par, "k": jobk[0], "tgt": tgt}, pd + 1)
        else:
            add({"t": "link", "par": par, "name": "lnk%d" % len(nodes), "tgt": tgt}, pd + 1)
    if rng.random() < 0.3:
        cands = [-1] + [i for i, n in enumerate(nodes) if _dirlike(n) and not (set(_ancestors(nodes, i)) & frozen)]
        add({"t": "dangling", "par": rng.choice(cands), "name": "gone%d" % len(nodes)}, 1)
    return nodes


def generate(tier, rng):
    n = 1800 if tier == "quick" else 12000
    # a few fixed shapes first (the classic off-by-one layouts)
    yield {"nodes": [{"t": "proj", "par": -1, "name": "P", "rich": True},
                     {"t": "job", "par": 0, "k": 1, "proj": True},
                     {"t": "job", "par": 1, "k": 2, "proj": False},
                     {"t": "dir", "par": 2, "name": "data"},
                     {"t": "proj", "par": 3, "name": "N"},
                     {"t": "job", "par": 4, "k": 3, "proj": False}], "seed": 1}
    yield {"nodes": [{"t": "dir", "par": -1, "name": "x"},
                     {"t": "legacy", "par": 0, "name": "old", "ver": 1},
                     {"t": "dir", "par": 1, "name": "sub"}], "seed": 2}
    for i in range(n):
        size = rng.choice([3, 5, 8, 8, 12, 12, 16, 22])
        yield {"nodes": gen_tree(rng, size), "seed": rng.randrange(1 << 30)}


def search(rng, deadline):
    while True:
        yield {"nodes": gen_tree(rng, rng.choice([4, 8, 12, 16])), "seed": rng.randrange(1 << 30)}


def shrink(case):
    nodes = case["nodes"]
    needed = {n["par"] for n in nodes} | {n.get("tgt", -1) for n in nodes}
    for i in range(len(nodes) - 1, -1, -1):
        if i in needed:
            continue
        new = []
        for j, n in enumerate(nodes):
            if j == i:
                continue
            m = dict(n)
            if m["par"] > i:
                m["par"] -= 1
            if m.get("tgt", -1) > i:
                m["tgt"] -= 1
            new.append(m)
        if new:
            yield {"nodes": new, "seed": case["seed"]}
    for i, n in enumerate(nodes):
        for flag in ("rich", "nows", "ver"):
            if n.get(flag):
                new = [dict(m) for m in nodes]
                del new[i][flag]
                yield {"nodes": new, "seed": case["seed"]}


# ----------------------------------------------------------------------------
# building and observing the real tree
# ----------------------------------------------------------------------------
ODD_CONFIG = "# project configuration\nschema_version=%s\n  custom_key   =   some value  # trailing comment\n"


def job_id(k):
    """The id signac gives the state point {"i": k} (C01: md5 of the sorted-key JSON text)."""
    return hashlib.md5(json.dumps({"i": k}, sort_keys=True).encode()).hexdigest()


def make_project(p):
    """What init_project leaves behind in an empty directory, written by hand: the builder
    must not depend on the functions under test."""
    os.makedirs(os.path.join(p, ".signac"))
    with open(os.path.join(p, ".signac", "config"), "w") as f:
        f.write("schema_version = 2\n")
    os.mkdir(os.path.join(p, "workspace"))


def build(case, R):
    nodes = case["nodes"]
    paths, projects = {}, set()
    for i, n in enumerate(nodes):
        base = R if n["par"] < 0 else paths[n["par"]]
        t = n["t"]
        if t == "halfproj":
            p = os.path.join(base, n["name"])
            os.makedirs(os.path.join(p, ".signac"))
        elif t in ("dir", "legacy"):
            p = os.path.join(base, n["name"])
            os.makedirs(p)
            if t == "legacy":
                with open(os.path.join(p, "signac.rc"), "w") as f:
                    f.write("project = legacy\n")
                    if n.get("ver") is not None:
                        f.write("schema_version = %d\n" % n["ver"])
        elif t == "proj":
            p = os.path.join(base, n["name"])
            os.makedirs(p)
            make_project(p)
            projects.add(i)
        elif t == "job":
            p = os.path.join(base, "workspace", job_id(n["k"]))
            os.mkdir(p)
            with open(os.path.join(p, "signac_statepoint.json"), "w") as f:
                json.dump({"i": n["k"]}, f)
            if n.get("rich") or n["k"] % 2:
                with open(os.path.join(p, "signac_job_document.json"), "w") as f:
                    json.dump({"d": n["k"]}, f)
            if n.get("proj"):
                make_project(p)
                projects.add(i)
        elif t == "file":
            p = os.path.join(base, n["name"])
            with open(p, "w") as f:
                f.write("data %d\n" % i)
        elif t == "wsx":
            jid = job_id(n["k"])
            name = {"bak": jid + ".bak", "pre": "x" + jid, "long": jid + hashlib.md5(jid.encode()).hexdigest()[:8],
                    "file": jid, "bakfile": jid + ".json"}[n["flavour"]]
            p = os.path.join(base, "workspace", name)
            if n["flavour"] in ("file", "bakfile"):
                with open(p, "w") as f:
                    json.dump({"i": n["k"]}, f)
            else:
                os.mkdir(p)
                with open(os.path.join(p, "signac_statepoint.json"), "w") as f:
                    json.dump({"i": n["k"]}, f)
                os.mkdir(os.path.join(p, "data"))
        elif t == "joblink":
            p = os.path.join(base, "workspace", job_id(n["k"]))
            os.symlink(paths[n["tgt"]], p)
        elif t == "link":
            p = os.path.join(base, n["name"])
            os.symlink(paths[n["tgt"]], p)
        elif t == "dangling":
            p = os.path.join(base, n["name"])
            os.symlink(os.path.join(R, "does", "not", "exist"), p)
        else:
            raise ValueError(t)
        paths[i] = p
    nows = []
    for i, n in enumerate(nodes):
        if i not in projects:
            continue
        p = paths[i]
        if n.get("rich"):
            with open(os.path.join(p, "signac_project_document.json"), "w") as f:
                json.dump({"note": {"n": i}}, f)
            with open(os.path.join(p, ".signac", "statepoint_cache.json.gz"), "wb") as f:
                f.write(b"opaque cache bytes %d" % i)
            with open(os.path.join(p, ".signac", "config"), "w") as f:
                f.write(ODD_CONFIG % 2)
        if n.get("ver") is not None:
            with open(os.path.join(p, ".signac", "config"), "w") as f:
                f.write("" if n["ver"] == "n" else (ODD_CONFIG % n["ver"] if n.get("rich") else "schema_version = %s\n" % n["ver"]))
        if n.get("nows"):
            os.rmdir(os.path.join(p, "workspace"))
            nows.append(p)
    return paths, nows


def cfg_version(d):
    """`n` / version / None as read off <d>/.signac/config without signac."""
    fn = os.path.join(d, ".signac", "config")
    if not os.path.isfile(fn):
        return None
    with open(fn) as f:
        m = re.search(r"^\s*schema_version\s*=\s*['\"]?(\d+)", f.read(), flags=re.M)
    return int(m.group(1)) if m else "n"


def rc_version(d):
    fn = os.path.join(d, "signac.rc")
    if not os.path.isfile(fn):
        return None
    with open(fn) as f:
        txt = f.read()
    if not re.search(r"^\s*project\s*=", txt, flags=re.M):
        return None
    m = re.search(r"^\s*schema_version\s*=\s*['\"]?(\d+)", txt, flags=re.M)
    return int(m.group(1)) if m else 0


def enumerate_lexical(R):
    """All lexical paths below R (through symlinks): (path, kind) with kind in d/f/a."""
    out = []

    def rec(p):
        out.append((p, "d"))
        for name in sorted(os.listdir(p)):
            c = os.path.join(p, name)
            if os.path.isdir(c):
                rec(c)
            elif os.path.isfile(c):
                out.append((c, "f"))
            else:
                out.append((c, "a"))
    rec(R)
    return out


def node_tokens(path, kind):
    if kind != "d":
        return "%s %s - -" % (hx(path), kind)
    c, r = cfg_version(path), rc_version(path)
    return "%s d %s %s" % (hx(path), "-" if c is None else c, "-" if r is None else r)


def norm(cwd, raw):
    """Lexical normalisation (the meaning of 'the query path'); own implementation."""
    comps = [] if raw.startswith("/") else [c for c in cwd.split("/") if c]
    for c in raw.split("/"):
        if c in ("", "."):
            continue
        if c == "..":
            if comps:
                comps.pop()
        else:
            comps.append(c)
    return "/" + "/".join(comps)


def prefixes(a):
    comps = [c for c in a.split("/") if c]
    yield "/"
    for i in range(1, len(comps) + 1):
        yield "/" + "/".join(comps[:i])


# ----------------------------------------------------------------------------
# direct oracle (no Lean): brute force over the prefixes on the real file system
# ----------------------------------------------------------------------------
def oracle_project(a, search, schema):
    """-> ('ok', path) | ('exc', set of admissible exception names)"""
    if not os.path.exists(a):
        return ("exc", {"LookupError"})
    if search:
        best = None
        for d in prefixes(a):
            if os.path.isfile(os.path.join(d, ".signac", "config")):
                best = d
    else:
        best = a if os.path.isfile(os.path.join(a, ".signac", "config")) else None
    if best is None:
        adm = {"LookupError"}
        if search and any(os.path.isfile(os.path.join(d, "signac.rc")) for d in prefixes(a)):
            adm = {"IncompatibleSchemaVersion", "AssertionError"}
        return ("exc", adm)
    v = cfg_version(best)
    if (1 if v == "n" else v) != schema:
        return ("exc", {"IncompatibleSchemaVersion"})
    return ("ok", best)


def oracle_job(a, schema):
    if not os.path.exists(a):
        return ("exc", {"LookupError"})
    best = None
    for d in prefixes(a):
        name = os.path.basename(d)
        ws = os.path.dirname(d)
        if IDRE.fullmatch(name) and os.path.basename(ws) == "workspace" and os.path.isdir(d) \
                and os.path.isfile(os.path.join(os.path.dirname(ws), ".signac", "config")):
            best = d
    if best is None:
        return ("exc", {"LookupError"})
    proj = os.path.dirname(os.path.dirname(best))
    v = cfg_version(proj)
    if (1 if v == "n" else v) != schema:
        return ("exc", {"IncompatibleSchemaVersion"})
    return ("ok", (os.path.basename(best), proj))


def diff_steps(R, before, after):
    b = {e[0]: e for e in before}
    a = {e[0]: e for e in after}
    toks = []
    for rel in sorted(set(a) | set(b), key=lambda r: os.path.normpath(os.path.join(R, r))):
        full = os.path.normpath(os.path.join(R, rel))
        if rel not in b:
            if a[rel][1] == "d":
                toks.append("+d" + hx(full))
            elif a[rel][1] == "f" and full.endswith("/.signac/config"):
                toks.append("+c" + hx(full[: -len("/.signac/config")] or "/"))
            else:
                toks.append("+?" + hx(full))
        elif rel not in a:
            toks.append("-?" + hx(full))
        elif a[rel] != b[rel]:
            toks.append("~?" + hx(full))
    return toks


def pretty(steps):
    return [s[:2] + bytes.fromhex(s[2:]).decode() for s in steps]


def undo(R, before, after):
    b = {e[0] for e in before}
    for e in sorted(after, key=lambda e: -len(e[0])):
        if e[0] not in b:
            full = os.path.join(R, e[0])
            if e[1] == "d":
                os.rmdir(full)
            else:
                os.unlink(full)


# ----------------------------------------------------------------------------
# the case
# ----------------------------------------------------------------------------
def run_case(case, ctx):
    import signac
    from signac.version import SCHEMA_VERSION

    schema = int(SCHEMA_VERSION)
    rng = random.Random(case["seed"])
    R = ctx.fresh_dir("c19")
    home = os.getcwd()
    oracle, tags = [], []
    try:
        if os.path.realpath(R) != R:
            raise RuntimeError("scratch root is not physical: %s" % R)
        paths, nows = build(case, R)
        lex = enumerate_lexical(R)
        dirs = [p for p, k in lex if k == "d"]
        files = [p for p, k in lex if k == "f"]
        gone = [p for p, k in lex if k == "a"]
        ntoks = [node_tokens(p, "d") for p in prefixes(os.path.dirname(R))]
        ntoks += [node_tokens(p, k) for p, k in lex]

        # ---- query targets
        targets = list(dirs)
        targets += rng.sample(files, min(len(files), 3))
        targets += [f for f in files if IDRE.search(os.path.basename(f)) and f not in targets]
        targets += gone
        fresh_id = hashlib.md5(b"c19-absent").hexdigest()
        for d in rng.sample(dirs, min(len(dirs), 4)):
            targets.append(os.path.join(d, "nope"))
            if os.path.basename(d) == "workspace":
                targets.append(os.path.join(d, fresh_id))
        wss = [d for d in dirs if os.path.basename(d) == "workspace"]
        if wss:
            targets.append(os.path.join(rng.choice(wss), fresh_id, "deeper"))
        queries = []  # (op, cwd, raw or None)
        for tpath in targets:
            forms = [(R, tpath)]
            if rng.random() < 0.5:
                cwd = os.path.realpath(rng.choice(dirs))
                rel = os.path.relpath(tpath, cwd)
                if rng.random() < 0.3:
                    rel = "./" + rel
                if rng.random() < 0.2 and os.path.isdir(tpath):
                    rel = rel + "/"
                forms.append((cwd, rel))
            if os.path.isdir(tpath) and os.path.realpath(tpath) == tpath and rng.random() < 0.25:
                forms.append((tpath, None))
            for cwd, raw in forms:
                for op in ("gp1", "gp0", "gj", "open"):
                    queries.append((op, cwd, raw))
        # init_project on every project directory (some relative), then on non-projects
        projdirs = [d for d in dirs if os.path.isfile(os.path.join(d, ".signac", "config"))]
        # init_project only through physical paths: the snapshot diff names what changed physically
        for d in [d for d in projdirs if os.path.realpath(d) == d]:
            queries.append(("init", R, d))
            if rng.random() < 0.3:
                cwd = os.path.realpath(rng.choice(dirs))
                queries.append(("init", cwd, os.path.relpath(d, cwd)))
        plain = [d for d in dirs if d not in projdirs and "/.signac" not in d and os.path.basename(d) != "workspace"
                 and os.path.realpath(d) == d]
        for d in rng.sample(plain, min(len(plain), 3)):
            queries.append(("init", R, d))
            queries.append(("init", R, os.path.join(d, "new", "deep")))
        for d in dirs:
            if os.path.isfile(os.path.join(d, "signac.rc")) and os.path.realpath(d) == d:
                queries.append(("init", R, d))

        # ---- run them on the real code
        answers = []
        kinds = {}
        for op, cwd, raw in queries:
            a = cwd if raw is None else norm(cwd, raw)
            full_snap = op == "init"
            before = tree_snapshot(R) if full_snap else None
            os.chdir(cwd)
            try:
                args = () if raw is None else (raw,)
                try:
                    if op == "gp1":
                        res = ("ok", signac.get_project(*args).path)
                    elif op == "gp0":
                        res = ("ok", signac.get_project(*args, search=False).path) if raw is not None else \
                            ("ok", signac.get_project(search=False).path)
                    elif op == "gj":
                        job = signac.get_job(*args)
                        res = ("ok", (job.id, job.project.path))
                    elif op == "open":
                        res = ("ok", signac.Project(*args).path)
                    else:
                        res = ("ok", signac.init_project(*args).path)
                except Exception as e:
                    res = ("exc", exc_name(e))
            finally:
                os.chdir(home)
            steps = []
            if full_snap:
                after = tree_snapshot(R)
                steps = diff_steps(R, before, after)
            else:
                got = res[1] if (res[0] == "ok" and op != "gj") else (res[1][1] if res[0] == "ok" else None)
                for p in nows:
                    w = os.path.join(p, "workspace")
                    if os.path.isdir(w):
                        # name it the way the returned project does (lexical path through links)
                        lexw = os.path.join(got, "workspace") if got else w
                        steps.append("+d" + hx(lexw if os.path.realpath(lexw) == w else w))
            # ---- the property itself
            what = "%s(%r) cwd=%s" % (op, raw, os.path.relpath(cwd, R))
            if op in ("gp1", "gp0"):
                exp = oracle_project(a, op == "gp1", schema)
            elif op == "gj":
                exp = oracle_job(a, schema)
                if res == ("exc", "LookupError") and any(
                        IDRE.fullmatch(os.path.basename(d_)) and not os.path.isdir(d_) for d_ in prefixes(a)):
                    # outside the property's layouts (an id-named FILE below a job directory): refusing is fine,
                    # guessing (a job that is not a directory at or above the path) is not
                    exp = ("exc", {"LookupError"})
            elif op == "open":
                exp = oracle_project(a, False, schema) if os.path.exists(a) else ("exc", {"LookupError"})
                if exp[0] == "exc" and os.path.isfile(os.path.join(a, "signac.rc")):
                    exp = ("exc", {"IncompatibleSchemaVersion", "AssertionError"})
            else:
                exp = None
            if exp is not None:
                if exp[0] == "ok" and res != exp:
                    oracle.append("%s returned %r, brute force over the ancestors of %s gives %r" % (
                        what, res[1], os.path.relpath(a, R), exp[1]))
                elif exp[0] == "exc" and (res[0] != "exc" or res[1] not in exp[1]):
                    oracle.append("%s returned %r, expected %s (%s)" % (
                        what, res[1], "/".join(sorted(exp[1])), os.path.relpath(a, R)))
                projp = res[1] if (res[0] == "ok" and op != "gj") else (res[1][1] if res[0] == "ok" else None)
                bad = [s for s in steps if projp is None or s != "+d" + hx(os.path.join(projp, "workspace"))]
                if bad:
                    oracle.append("%s changed the tree: %s" % (what, pretty(bad)))
            else:
                was_project = os.path.isfile(os.path.join(a, ".signac", "config")) and "+c" + hx(a) not in steps
                legacy = os.path.isfile(os.path.join(a, "signac.rc"))
                if was_project:
                    v = cfg_version(a)
                    okv = (1 if v == "n" else v) == schema
                    allowed = ["+d" + hx(os.path.join(a, "workspace"))] if (a in nows and okv) else []
                    if [s for s in steps if s not in allowed]:
                        oracle.append("%s on an existing project changed it: %s" % (
                            what, pretty(steps)))
                    if okv and res != ("ok", a):
                        oracle.append("%s on an existing project returned %r" % (what, res[1]))
                    if not okv and res != ("exc", "IncompatibleSchemaVersion"):
                        oracle.append("%s on a project with schema %r returned %r" % (what, v, res[1]))
                elif legacy:
                    if res[0] != "exc" or steps:
                        oracle.append("%s on a legacy directory returned %r, steps %s" % (what, res[1], pretty(steps)))
                else:
                    if res != ("ok", a) or cfg_version(a) != schema or any(s[1] == "?" for s in steps):
                        oracle.append("%s on a fresh directory returned %r, version %r, steps %s" % (
                            what, res[1], cfg_version(a), pretty(steps)))
                    os.chdir(cwd)
                    try:
                        again = signac.init_project(*args).path
                    except Exception as e:
                        again = exc_name(e)
                    finally:
                        os.chdir(home)
                    if again != a or tree_snapshot(R) != after:
                        oracle.append("%s a second time returned %r or changed the tree" % (what, again))
            # ---- restore the tree for the next query
            if full_snap:
                undo(R, before, after)
            else:
                for p in nows:
                    w = os.path.join(p, "workspace")
                    if os.path.isdir(w):
                        os.rmdir(w)
            if res[0] == "ok":
                ans = "ok:" + (res[1][0] + ":" + hx(res[1][1]) if op == "gj" else hx(res[1]))
                ans += "".join(":" + s for s in steps)
            else:
                ans = res[1]
                if steps:
                    ans += "".join(":" + s for s in steps)
            answers.append(ans)
            k = op + "/" + (res[1] if res[0] == "exc" else "ok")
            kinds[k] = kinds.get(k, 0) + 1

        qtoks = " ".join("%s %s %s" % (op, hx(cwd), "-" if raw is None else "r" + hx(raw)) for op, cwd, raw in queries)
        line = "T %d %s Q %d %s" % (len(ntoks), " ".join(ntoks), len(queries), qtoks)
        nodes = case["nodes"]
        tags = ["queries=%d" % (len(queries) // 100 * 100), "dirs=%d" % (len(dirs) // 10 * 10)]
        tags += ["res:" + k for k in kinds]
        if any(n["t"] == "job" and n.get("proj") for n in nodes):
            tags.append("project-is-jobdir")
        if any(n["t"] == "proj" and n["par"] >= 0 and nodes[n["par"]]["t"] == "job" for n in nodes):
            tags.append("project-in-jobdir")
        if any(n["t"] == "proj" and n["par"] >= 0 and nodes[n["par"]]["t"] == "dir" for n in nodes):
            tags.append("project-in-subdir")
        for t in ("joblink", "link", "legacy", "dangling"):
            if any(n["t"] == t for n in nodes):
                tags.append(t)
        if nows:
            tags.append("no-workspace")
        if any(n.get("ver") is not None and n["t"] != "legacy" for n in nodes):
            tags.append("foreign-version")
        nontrivial = any(_projlike(n) for n in nodes) and any(n["t"] == "job" for n in nodes)
        key = json.dumps(nodes, sort_keys=True) if nontrivial else None
        return {"model": [line], "impl": [" ".join(answers)], "oracle": oracle, "tags": tags, "key": key}
    finally:
        os.chdir(home)
        ctx.cleanup(R)


TECHNIQUE = ("Lean 4 theorems about an executable model of _locate_config_dir / get_project / get_job / init_project "
             "over arbitrary path-indexed trees + differential correspondence of the compiled model against the real "
             "signac on generated real directory trees (every lexical directory as query, absolute / relative / "
             "omitted argument), with a brute-force nearest-ancestor oracle and byte snapshots around init_project")
LEVEL_TEXT = ("Proved in Lean for all trees and all query paths, no bound on depth or size: the upward search returns "
              "exactly the nearest project at or above the path (locate_nearest, getProject_nearest); search=False "
              "returns a project iff the path itself is one (nosearch_exact); get_job (model: the code's finditer scan of every "
              "component with the whole-component filter of fix F-19a, proved equal to 'the component IS an id': "
              "complete_match_iff_idName, lastJob_simple) is characterised without any layout hypothesis "
              "(getJob_characterised), never returns a job that is not an id-named directory at or above the path "
              "(getJob_never_phantom), ignores names that merely contain an id-like run (getJob_ignores_lookalikes), and "
              "under the layout hypothesis LayoutW - which constrains only names that ARE ids; strictly weaker than the "
              "property's (lookTree_not_layout) - returns exactly the innermost job directory containing the path together "
              "with the project whose workspace holds it (getJob_innermost; the clause 'an existing id-named path is a "
              "directory' is needed: getJob_innermost_needs_iddir); non-existent paths, nothing-above and id-less paths give LookupError and whatever is "
              "returned is a project at or above the query (lookup_errors); for string-typed configs getProjectS_nearest / nosearchS_exact hold for every tree "
              "(Signac/DiscoveryS.lean); init_project on an existing project performs "
              "no mutating step besides creating a missing workspace directory and never writes the configuration "
              "(initProject_idempotent, initProject_never_rewrites); init_project elsewhere writes the config once and "
              "creates only the missing directories (initProject_fresh). The compiled model is compared with the real "
              "functions on every generated tree and query.")
LEVEL_NOTE = ("Trusted: Lean kernel; axioms propext/Classical.choice/Quot.sound; the harness (tree builder, lexical "
              "enumeration through symlinks, regex reader of schema_version, brute-force oracle). The file system is an "
              "input of the model (kind / config marker / legacy marker per lexical path), so symlink resolution, "
              "configobj parsing and os.path are modelled, not verified. getJob_innermost carries the layout hypothesis "
              "stated in the property; without it (e.g. a project initialised in a workspace directory, id-like names "
              "elsewhere) get_job follows the last id match, which the model reproduces but the theorem does not cover.")

"""C14 — sync never overwrites conflicts unless told to; failed document syncs roll back (DESIGN §4 C14)."""
from harness import sync_common as sc

ID = "C14"
TITLE = "Sync never overwrites conflicts unless told to; failed syncs roll documents back"
LEAN_MODULE = "Signac.Properties.C14"
DRIVER = "drv_sync"
DESIGN_REF = "DESIGN.md §4 C14"
RULE = ("the C13 universe biased to conflicts: files on both sides with equal / different size x older / equal / "
        "newer mtime x top level / nested, documents with flat, nested (to depth 4), mixed-type and partially "
        "overlapping conflicts; x 5 file strategies x ByKey(None / predicate / regex), update, NO_SYNC, COPY; "
        "job-level and project-level entry points; distinct = distinct (layout, options, entry point); "
        "non-trivial = at least one file or document present on both sides")
MODELLED = ["filecmp.cmp signature rule and byte comparison — re-stated in Lean (`differs`)",
            "os.path.getmtime ordering (mtimes are sent as ranks)",
            "Python == on JSON values (`pyEq`)", "re.match of key strategies (table computed by the harness)",
            "synced_collections document files (read back with json.loads)"]
ASSUMPTIONS = ["documents are JSON objects with string keys; no directory is named like a document backup file"]
EXHAUSTIVE = {"quick": False, "thorough": False}
TECHNIQUE = ("Lean 4 theorems about the executable sync model (second loop of the directory walk, ByKey recursion, "
             "backup-and-restore context) + differential correspondence against the real sync entry points on "
             "conflicting project pairs")
LEVEL_TEXT = "see Signac/Properties/C14.lean"
LEVEL_NOTE = ""


def generate(tier, rng):
    n = 5000 if tier == "quick" else 50000
    for _ in range(n):
        yield sc.gen_case(rng, "c14")


def search(rng, deadline):
    while True:
        yield sc.gen_case(rng, "c14")


def shrink(case):
    yield from sc.shrink_case(case)


def run_case(case, ctx):
    o = sc.observe(case, ctx, second_run=False)
    fails = sc.oracle_c14(o)
    r = sc.result(o, fails, [o.line1], [o.impl1])
    if not (sc.file_pairs(o) or any(sc.doc_of(o.s0, a) and sc.doc_of(o.d0, b) for a, b in sc.doc_pairs(o))):
        r["key"] = None
    return r


def known_class(case, result):
    return sc.known_class(case, result)

"""C14 — sync never overwrites conflicts unless told to; failed document syncs roll back (DESIGN §4 C14)."""
from harness import sync_common as sc

ID = "C14"
TITLE = "Sync never overwrites conflicts unless told to; failed syncs roll documents back"
LEAN_MODULE = "Signac.Properties.C14"
DRIVER = "drv_sync"
DESIGN_REF = "DESIGN.md §4 C14"
RULE = ("the C13 universe biased to conflicts: files on both sides with equal / different size x older / equal / "
        "newer mtime x top level / nested, documents with flat, nested (to depth 4), mixed-type and partially "
        "overlapping conflicts; x 5 file strategies x ByKey(None / predicate / regex), update, NO_SYNC, COPY; "
        "job-level and project-level entry points; distinct = distinct (layout, options, entry point); "
        "non-trivial = at least one file or document present on both sides")
MODELLED = ["filecmp.cmp signature rule and byte comparison — re-stated in Lean (`differs`)",
            "os.path.getmtime ordering (mtimes are sent as ranks)",
            "Python == on JSON values (`pyEq`)", "re.match of key strategies (table computed by the harness)",
            "synced_collections document files (read back with json.loads)"]
ASSUMPTIONS = ["documents are JSON objects with string keys; no directory is named like a document backup file"]
EXHAUSTIVE = {"quick": False, "thorough": False}
TECHNIQUE = ("Lean 4 theorems about the executable sync model (second loop of the directory walk, ByKey recursion, "
             "backup-and-restore context) + differential correspondence against the real sync entry points on "
             "conflicting project pairs")
LEVEL_TEXT = ('Proved in Lean (Signac/Properties/C14.lean), same model as C13, for all job directory pairs / documents / options: a file '
    'on both sides (at any depth reached through common directories) that differs under the comparison in force and is not '
    "excluded carries the source's bytes after a successful real sync_jobs iff the strategy's verdict is 'overwrite' and is "
    'exactly the old file otherwise (file_overwrite_iff); unless it is such an approved conflict it is untouched in every run, '
    'failed and dry ones included (file_untouched_otherwise); with no strategy such a conflict makes sync_jobs raise '
    'FileSyncConflict with the file untouched (no_strategy_conflict); a document key at any depth whose source value is not a '
    'mapping and differs is overwritten iff the key strategy selects its dotted key, otherwise kept and — without key strategy — '
    'reported in DocumentSyncConflict (bykey_selective); whenever the merge of a non-empty destination document raises, the '
    'destination directory is node for node what it was (doc_rollback); DocSync.update sets every source key and nothing else '
    '(update_overwrites_all); NO_SYNC / COPY never merge (nosync_none). Compared with the real entry points on generated '
    "conflicting pairs; the oracle checks every conflicting file / key against the strategy's verdict and the rollback.")
LEVEL_NOTE = ("'Differs' without deep is filecmp's shallow rule (differs_shallow_rule): equal (size, mtime) => same; content comparison "
    'regardless of timestamps is C15 (deep). The payload of DocumentSyncConflict is proved to be EXACTLY the conflicting keys '
    '(conflict_payload_exact, conflict_payload_eq: in walk order; no_conflict_no_error; with a key strategy the skipped list is '
    'exactly the unselected conflicting keys, bykey_skipped_exact); that it is duplicate-free is refuted for keys containing a dot '
    "({'a.b':1,'a':{'b':1}} reports 'a.b' twice: conflict_payload_nodup_false) and proved otherwise (conflict_payload_nodup_partial). "
    'A mapping in the source facing a non-mapping in the '
    'destination raises TypeError in the code (modelled, rolled back; the theorems exclude it by hypothesis typeErr = false). '
    'Model = code with fixes F-13, F-14a, F-15d applied; carve-outs as in C13. Trusted base as in C13.')


def generate(tier, rng):
    n = 10000 if tier == "quick" else 75000
    for _ in range(n):
        yield sc.gen_case(rng, "c14")


def search(rng, deadline):
    while True:
        yield sc.gen_case(rng, "c14")


def shrink(case):
    yield from sc.shrink_case(case)


def run_case(case, ctx):
    o = sc.observe(case, ctx, second_run=False)
    fails = sc.oracle_c14(o)
    model, impl = [o.line1], [o.impl1]
    if case["opts"].get("parallel") and o.kind1 != "ok":
        model, impl = [], []   # which jobs ran before the exception surfaced is up to the thread pool: oracle only
    r = sc.result(o, fails, model, impl)
    if not (sc.file_pairs(o) or any(sc.doc_of(o.s0, a) and sc.doc_of(o.d0, b) for a, b in sc.doc_pairs(o))):
        r["key"] = None
    return r


def known_class(case, result):
    return sc.known_class(case, result)

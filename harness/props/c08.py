"""C08 — the state point cache is transparent, and update_cache makes it exact (DESIGN §4 C08)."""
import gzip
import itertools
import json
import os

from harness.core import enc_val, exc_name, hx, tagged
from harness.ws_common import plain, ref_id

ID = "C08"
TITLE = "The state point cache is transparent, and update_cache makes it exact"
LEAN_MODULE = "Signac.Properties.C08"
DRIVER = "drv_cache"
DESIGN_REF = "DESIGN.md §4 C08"
RULE = ("histories over {init job, remove job, re-key job, update_cache, restart session, delete cache file} on a 5-job "
        "universe {n:k} with k chosen so that ids share 1- and 2-character prefixes (re-key = job.sp.n = m): bounded-exhaustive length<=3 (quick) / <=4 (thorough) + seeded random "
        "length<=40; after EVERY step the observables (ids by iteration, len, find_jobs per value, open-by-id state point "
        "of every existing job) are taken three times — through the live session, through a fresh session with the cache "
        "file as is, and through a fresh session with the cache file moved away — and compared with the raw directory "
        "listing; after update_cache the decoded cache file is compared with the workspace and an immediate second call "
        "must return None and leave the file byte-identical; distinct = distinct history; non-trivial = the history "
        "contains update_cache and at least one job existed")
MODELLED = ["gzip/json encoding of the cache file (the model's cache file is the decoded id -> state point map)",
            "ThreadPool reading order in _update_in_memory_cache (irrelevant to the resulting map)"]
ASSUMPTIONS = ["uncorrupted workspace (corruption is C09)", "MD5 collision-freeness wherever equal ids are read as equal state points"]
EXHAUSTIVE = {"quick": False, "thorough": False}
TECHNIQUE = ("Lean 4 invariant proof (every cache entry hashes to its id, preserved by all operations) with transparency and "
             "update_cache exactness/idempotence theorems + differential run of real signac against the Lean cache model")
LEVEL_TEXT = ("Proved in Lean for every history and every hash function: the cache invariant (each entry of the session cache "
              "and of the cache file maps an id to a state point hashing to it) is preserved by init / remove / re-key / "
              "update_cache / session restart / cache deletion on an uncorrupted workspace; under it the id listing does "
              "not depend on the cache at all and every state point handed out for an existing id hashes to that id whatever "
              "the cache holds (fresh, stale, none); after update_cache the cache file lists exactly the workspace ids, and "
              "an immediate second call returns None and changes nothing; the chunking of the ids update_cache reads "
              "(_split_and_print_progress) covers its input for every list and every chunk count: no id dropped, duplicated "
              "or re-ordered (chunks_cover_all_ids, chunks_cover). The Lean model's predictions (return value of "
              "update_cache, ids in the cache file, session cache ids) are compared with the real code after every step; "
              "an independent oracle compares the three views (live session, fresh session with and without cache file) "
              "with the raw workspace.")
LEVEL_NOTE = ("Trusted: Lean kernel + 3 standard axioms; harness and oracle. 'Same result' for state points is proved as "
              "'hashes to the requested id' — equal values only under MD5 injectivity (assumption). The model covers "
              "signac.project open_job/_read_cache/_get_statepoint/_update_in_memory_cache/update_cache and Job.init's "
              "registration points; gzip/JSON encoding is the library's.")

N = 5
# values chosen so that ids collide in their first characters: {n:0}/{n:287} share "da", {n:1}/{n:6}/{n:49} share "9"
KS = [0, 287, 1, 6, 49]


def sp_of(i):
    return {"n": KS[i]}


def alphabet():
    ops = []
    for i in range(3):
        ops.append(["init", i])
        ops.append(["remove", i])
    ops += [["rekey", 0, 1], ["rekey", 0, 3], ["rekey", 1, 0], ["ucache"], ["session"], ["rmcache"]]
    ops += [["reassign", 0], ["reassign", 1]]
    return ops


def rand_history(rng, n):
    ops = []
    for _ in range(n):
        r = rng.random()
        if r < 0.3:
            ops.append(["init", rng.randrange(N)])
        elif r < 0.45:
            ops.append(["remove", rng.randrange(N)])
        elif r < 0.6:
            ops.append(["rekey", rng.randrange(N), rng.randrange(N)])
        elif r < 0.66:
            ops.append(["reassign", rng.randrange(N)])
        elif r < 0.8:
            ops.append(["ucache"])
        elif r < 0.92:
            ops.append(["session"])
        else:
            ops.append(["rmcache"])
    return ops


def generate(tier, rng):
    # sizes around the chunking thresholds of update_cache (>= 2000 ids are read in int(n/1000) chunks)
    for n in ([2001] if tier == "quick" else [1999, 2000, 2001, 2999, 3001, 4567]):
        yield {"bulk": n}
    # the chunking helper on its own: all (n, k) with n <= 40, k <= 12 (incl. k = 0 and k > n), and random larger ones
    grid = [(n, k) for n in range(0, 41) for k in range(0, 13)]
    for i in range(0, len(grid), 40):
        yield {"chunks": grid[i:i + 40]}
    for _ in range(10 if tier == "quick" else 200):
        yield {"chunks": [(rng.randrange(0, 5000), rng.randrange(1, 120)) for _ in range(20)]}
    depth = 3 if tier == "quick" else 4
    alpha = alphabet()
    for k in range(1, depth + 1):
        for seq in itertools.product(alpha, repeat=k):
            yield {"ops": [list(o) for o in seq]}
    for i in range(1200 if tier == "quick" else 6000):
        c = {"ops": rand_history(rng, rng.randint(5, 40))}
        if i % 4 == 0:
            c["oldtimes"] = True
        yield c
    for seq in itertools.product([["init", 0], ["remove", 0], ["ucache"], ["session"], ["staletmp"]], repeat=4):
        ops_ = [list(o) for o in seq]
        if ["ucache"] in ops_ and ["staletmp"] in ops_:
            yield {"ops": ops_}
    for seq in itertools.product([["init", 0], ["init", 1], ["remove", 0], ["ucache"], ["session"]], repeat=4):
        if ["ucache"] in [list(o) for o in seq]:
            yield {"ops": [list(o) for o in seq], "oldtimes": True}


def search(rng, deadline):
    while True:
        yield {"ops": rand_history(rng, rng.randint(3, 30))}


def shrink(case):
    if "bulk" in case:
        return
    if case.get("oldtimes"):
        ops = case["ops"]
        for i in range(len(ops)):
            yield dict(case, ops=ops[:i] + ops[i + 1:])
        return
    if "chunks" in case:
        for i in range(len(case["chunks"])):
            yield {"chunks": case["chunks"][:i] + case["chunks"][i + 1:]}
        return
    ops = case["ops"]
    for i in range(len(ops)):
        yield {"ops": ops[:i] + ops[i + 1:]}


def raw_workspace(path):
    ws = os.path.join(path, "workspace")
    out = {}
    for d in sorted(os.listdir(ws)):
        with open(os.path.join(ws, d, "signac_statepoint.json")) as f:
            out[d] = json.load(f)
    return out


def read_cache_file(path):
    fn = os.path.join(path, ".signac", "statepoint_cache.json.gz")
    if not os.path.exists(fn):
        return None, None
    with open(fn, "rb") as f:
        raw = f.read()
    return json.loads(gzip.decompress(raw).decode()), raw


def view(project, truth):
    """Observables of C08 through one Project object."""
    v = {}
    # abbreviated ids: the answer must depend on the workspace only, never on what a cache happens to hold
    pre = {}
    for i in truth:
        for L in (1, 2, 3):
            p = i[:L]
            if p in pre:
                continue
            try:
                pre[p] = project.open_job(id=p).id
            except LookupError as e:   # KeyError is a LookupError too
                pre[p] = type(e).__name__
            except Exception as e:  # noqa: BLE001
                pre[p] = "EXC:" + exc_name(e)
    v["prefix"] = pre
    v["iter"] = sorted(j.id for j in project)
    v["len"] = len(project)
    v["find"] = {str(k): sorted(j.id for j in project.find_jobs({"n": k})) for k in KS}
    v["findall"] = sorted(j.id for j in project.find_jobs({"n": {"$exists": True}}))
    byid = {}
    for i in truth:
        try:
            byid[i] = tagged(plain(project.open_job(id=i).statepoint()))
        except Exception as e:  # noqa: BLE001
            byid[i] = "EXC:" + exc_name(e)
    v["byid"] = byid
    return v


def expected_view(truth):
    return {
        "iter": sorted(truth), "len": len(truth),
        "find": {str(k): sorted(i for i, sp in truth.items() if sp.get("n") == k) for k in KS},
        "findall": sorted(truth),
        "byid": {i: tagged(sp) for i, sp in truth.items()},
        "prefix": {p: (m[0] if len(m) == 1 else "LookupError")
                   for p, m in ((i[:L], [x for x in truth if x.startswith(i[:L])]) for i in truth for L in (1, 2, 3))},
    }


def run_bulk(case, ctx):
    """Oracle-only case: a workspace large enough for update_cache() to read the state points in several
    chunks (the code splits the ids to read into int(n/1000) chunks when there are 2000 or more)."""
    import signac
    from harness.ws_common import ref_id

    n = case["bulk"]
    path = ctx.fresh_dir("c08b")
    oracle = []
    try:
        signac.init_project(path)
        ws = os.path.join(path, "workspace")
        os.makedirs(ws, exist_ok=True)
        truth = {}
        for i in range(n):
            sp = {"i": i}
            jid = ref_id(sp)
            os.mkdir(os.path.join(ws, jid))
            with open(os.path.join(ws, jid, "signac_statepoint.json"), "w") as f:
                f.write(json.dumps(sp))
            truth[jid] = sp
        project = signac.Project(path)
        r = project.update_cache()
        cache, raw = read_cache_file(path)
        if cache is None or sorted(cache) != sorted(truth):
            missing = sorted(set(truth) - set(cache or {}))
            oracle.append("update_cache() over %d new jobs returned %r; the cache file lacks %d of the workspace ids (e.g. %s) "
                          "and lists %d unknown ones" % (n, r, len(missing), missing[:2], len(set(cache or {}) - set(truth))))
        elif any(cache[i] != truth[i] for i in truth):
            oracle.append("update_cache() over %d jobs: a cached state point differs from the file" % n)
        r2 = project.update_cache()
        _, raw2 = read_cache_file(path)
        if r2 is not None or raw2 != raw:
            oracle.append("an immediate second update_cache() over %d jobs returned %r / rewrote the file" % (n, r2))
        fresh = signac.Project(path)
        if len(fresh) != n or len(fresh.find_jobs({"i": {"$gte": 0}})) != n:
            oracle.append("fresh session with cache: len %d, find_jobs %d, workspace holds %d" % (
                len(fresh), len(fresh.find_jobs({"i": {"$gte": 0}})), n))
    finally:
        ctx.cleanup(path)
    return {"model": [], "impl": [], "oracle": oracle[:3], "tags": ["bulk=%d" % n], "key": "bulk%d" % n}


def run_chunks(case, ctx):
    """`_split_and_print_progress` itself against the Lean `Chunks.splitChunks` (proved to cover its input)."""
    import signac.project as SP

    fn = getattr(SP, "_split_and_print_progress", None)
    model, impl, oracle = [], [], []
    for n, k in case["chunks"]:
        xs = list(range(n))
        try:
            cs = list(fn(xs, num_chunks=k, write=lambda m: None)) if fn else None
            tok = " ".join("%d:%d" % (c[0] if c else 0, len(c)) for c in cs)
            if [x for c in cs for x in c] != xs:
                oracle.append("_split_and_print_progress(range(%d), %d) yields chunks that do not concatenate to the input "
                              "(%d of %d items)" % (n, k, sum(len(c) for c in cs), n))
        except ValueError:
            tok = "ValueError"
        except Exception as e:  # noqa: BLE001
            tok = "EXC:" + exc_name(e)
            oracle.append("_split_and_print_progress(range(%d), %d) raised %s" % (n, k, exc_name(e)))
        model.append("run chunks %d %d" % (n, k))
        impl.append(tok)
    return {"model": model, "impl": impl, "oracle": oracle[:3],
            "tags": ["chunks"], "key": "chunks%r" % (case["chunks"][:3],)}


def run_case(case, ctx):
    import signac

    if "bulk" in case:
        return run_bulk(case, ctx)
    if "chunks" in case:
        return run_chunks(case, ctx)

    path = ctx.fresh_dir("c08")
    oracle, tags = [], set()
    mops, itoks = [], []
    try:
        project = signac.init_project(path)
        cache_fn = os.path.join(path, ".signac", "statepoint_cache.json.gz")
        any_job = False
        for step, op in enumerate(case["ops"]):
            k = op[0]
            tags.add("op:" + k)
            res = "ok"
            try:
                if k == "init":
                    project.open_job(sp_of(op[1])).init()
                elif k == "remove":
                    project.open_job(sp_of(op[1])).remove()
                elif k == "rekey":
                    project.open_job(sp_of(op[1])).sp.n = KS[op[2]]
                elif k == "reassign":
                    # open by id (a cache miss in a new session without cache file) and assign the state point the
                    # job already has, as the FIRST state point access (e.g. a migration script run twice)
                    # ... in a session of its own (the live session has usually seen every state point already)
                    from harness.ws_common import ref_id as _rid
                    p2 = signac.Project(path)
                    j = p2.open_job(id=_rid(sp_of(op[1])))
                    j.statepoint = sp_of(op[1])
                    truth2 = raw_workspace(path)
                    got2 = view(p2, truth2)
                    if got2 != expected_view(truth2):
                        bad2 = [x for x in expected_view(truth2) if got2.get(x) != expected_view(truth2)[x]]
                        oracle.append("step %d %s: after assigning job %s the state point it already has (first access of a "
                                      "handle opened by id), that session's view differs from the workspace in %s" % (
                                          step, json.dumps(op), j.id[:8], bad2))
                elif k == "ucache":
                    r = project.update_cache()
                    res = "none" if r is None else str(r)
                elif k == "session":
                    project = signac.Project(path)
                elif k == "rmcache":
                    if os.path.exists(cache_fn):
                        os.remove(cache_fn)
                elif k == "staletmp":
                    # what a process killed inside update_cache() leaves: the temp file next to the cache
                    os.makedirs(os.path.dirname(cache_fn), exist_ok=True)
                    with open(cache_fn + "~", "wb") as f:
                        f.write(b"\x1f\x8b leftover of an interrupted update_cache")
            except Exception as e:  # noqa: BLE001
                res = exc_name(e)
            if case.get("oldtimes"):
                # time stamps carry no information (a restore that preserves them, clock skew, a coarse clock): the
                # workspace and its entries always look older than the cache file
                ws_ = os.path.join(path, "workspace")
                if os.path.isdir(ws_):
                    for n_ in os.listdir(ws_):
                        os.utime(os.path.join(ws_, n_), (1e9, 1e9))
                    os.utime(ws_, (1e9, 1e9))
                tags.add("old-time-stamps")
            tags.add("res:" + (res if not res.isdigit() else "count"))
            truth = raw_workspace(path)
            any_job = any_job or bool(truth)
            exp = expected_view(truth)
            where = "step %d %s" % (step, json.dumps(op))
            if k == "ucache":
                if res not in ("none",) and not res.isdigit():
                    oracle.append("%s: update_cache raised %s" % (where, res))
                cache, raw = read_cache_file(path)
                if cache is None:
                    if truth or res != "none":
                        oracle.append("%s: no cache file after update_cache" % where)
                else:
                    if sorted(cache) != sorted(truth):
                        oracle.append("%s: cache file lists %s, workspace holds %s" % (where, sorted(cache), sorted(truth)))
                    for i, sp in cache.items():
                        if i in truth and tagged(sp) != tagged(truth[i]):
                            oracle.append("%s: cache maps %s to %r, its state point is %r" % (where, i, sp, truth[i]))
                try:
                    r2 = project.update_cache()
                except Exception as e:  # noqa: BLE001
                    r2 = exc_name(e)
                _, raw2 = read_cache_file(path)
                if r2 is not None or raw2 != raw:
                    oracle.append("%s: an immediate second update_cache returned %r / rewrote the file" % (where, r2))
            # three views.  Right after a session restart the live session is NOT looked at (and the model gets no
            # `observe`): the next operation - e.g. update_cache() - is then the first cache lookup of the session
            quiet = (k == "session")
            views = {} if quiet else {"live": project}
            try:
                views["fresh+cache"] = signac.Project(path)
            except Exception as e:  # noqa: BLE001
                oracle.append("%s: fresh session failed %s" % (where, exc_name(e)))
            for name, pr in views.items():
                try:
                    got = view(pr, truth)
                except Exception as e:  # noqa: BLE001
                    oracle.append("%s: %s view raised %s" % (where, name, exc_name(e)))
                    continue
                if got != exp:
                    bad = [x for x in exp if got.get(x) != exp[x]]
                    oracle.append("%s: %s view differs from the workspace in %s: %s vs %s" % (
                        where, name, bad, json.dumps({x: got.get(x) for x in bad})[:300], json.dumps({x: exp[x] for x in bad})[:300]))
            if os.path.exists(cache_fn):
                os.rename(cache_fn, cache_fn + ".away")
                try:
                    got = view(signac.Project(path), truth)
                    if got != exp:
                        oracle.append("%s: fresh session without cache file differs from the workspace" % where)
                except Exception as e:  # noqa: BLE001
                    oracle.append("%s: fresh-no-cache view raised %s" % (where, exc_name(e)))
                finally:
                    os.rename(cache_fn + ".away", cache_fn)
            # correspondence token: result, ids in cache file, ids on disk
            cache, _ = read_cache_file(path)
            if k == "staletmp":
                itoks.append("obs")   # no counterpart in the model: a file the cache logic must not care about
            elif k == "reassign":
                itoks.append("obs")   # its model counterpart is the `observe` pseudo-op
                if res not in ("ok", "KeyError"):
                    oracle.append("%s: assigning a job the state point it already has raised %s" % (where, res))
            else:
                itoks.append("%s:%s:%s" % (res, "-" if cache is None else ",".join(sorted(cache)), ",".join(sorted(truth))))
            if k in ("init", "remove"):
                mops.append("%s %s" % (k, enc_val(sp_of(op[1]))))
            elif k == "rekey":
                mops.append("rekey %s %s %s" % (enc_val(sp_of(op[1])), "S" + hx("n"), enc_val(KS[op[2]])))
            elif k in ("reassign", "staletmp"):
                mops.append("observe")   # for the model: the session has (at most) learnt the job's state point
            else:
                mops.append(k)
            # NOTE: the views above go through the live session and register state points in its cache; the
            # model is told so (the `observe` pseudo-op) to keep its session cache in step
            if not quiet:
                mops.append("observe")
                itoks.append("obs")
            if oracle:
                break
    finally:
        ctx.cleanup(path)
    nontrivial = any_job and any(o[0] == "ucache" for o in case["ops"])
    return {"model": ["run " + " | ".join(mops)] if mops else [], "impl": [" ".join(itoks)] if itoks else [],
            "oracle": oracle[:5], "tags": sorted(tags), "key": json.dumps([case["ops"], bool(case.get("oldtimes"))]) if nontrivial else None}

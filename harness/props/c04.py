"""C04 — re-keying, moving and cloning carry all data and never clobber another job (DESIGN §4 C04)."""
import copy
import itertools
import json

from harness import ws_common as W

ID = "C04"
TITLE = "Re-keying, moving and cloning carry all data and never clobber another job"
LEAN_MODULE = "Signac.Properties.C04"
# the refinement layer: event-free runs of the lifecycle step programs implement the abstract workspace operations
EXTRA_MODULES = ["Signac.Properties.Refinement"]
DRIVER = "drv_ws"
DESIGN_REF = "DESIGN.md §4 C04"
RULE = ("(old state point, edit) pairs over the C03 universe (4 keys x {0,1,'x'} and rich values 1.0/True/None/list/"
        "sub-mapping): every edit route (key set, key delete, nested set, whole assignment, update_statepoint with and "
        "without overwrite, move, clone) x destination {absent, initialised, uninitialised handle only} x payload "
        "{none, document, files incl. nested} x handle provenance {same handle, copy.copy taken before/after first use, "
        "by id, deepcopy, pickle}; after EVERY step a fresh Project is compared with the plain reference model and every "
        "live handle's id / statepoint / cached_statepoint / path with the reference; distinct = distinct op sequence; "
        "non-trivial = the edited job was initialised")
MODELLED = ["synced_collections `_update` semantics for whole-mapping assignment (== skip, None over a collection)",
            "os.replace of a directory is one atomic step (crash points are C11's)"]
ASSUMPTIONS = ["a handle whose job was removed / moved / re-keyed through an unrelated handle may refuse to act"]
EXHAUSTIVE = {"quick": False, "thorough": False}
TECHNIQUE = ("Lean 4 theorems about the re-key / move / clone steps of the workspace model (payload carried, no clobber, "
             "group of handles follows, failing edit is the identity) + per-step differential run of real signac against "
             "the Lean model and a plain reference model")
LEVEL_TEXT = ("Proved in Lean for every world, handle, payload and hash function: all edit routes are the one re-key "
              "protocol; a successful re-key makes the job re-appear under the new id with document and files unchanged, "
              "removes the old id, touches no other job or project, and every handle of the sharing group carries the new "
              "state point; an initialised destination gives DestinationExistsError with the whole world unchanged; any "
              "failing re-key is the identity; update without overwrite on a conflicting key is KeyError without effect; "
              "move keeps id and payload; clone copies and leaves the source project unchanged. The model is run in lock "
              "step with the real signac on generated edit scenarios (result kind, both workspaces, all live handles "
              "compared after every step), and an independent plain reference model judges the real code directly.")
LEVEL_NOTE = ("Refinement layer (Signac/Properties/Refinement.lean, audited with this check): for every clean world an EVENT-FREE run of "
              "the file-system step program of init / re-key / move / clone / remove / clear ends in a clean world whose "
              "abstraction is the abstract operation's result (op_refines, history_refines by induction over histories), and "
              "commutes with the step of the abstract workspace model of C03/C04 (init_square ... clear_square): the crash/fault "
              "model of C11 and the in-memory model of C03/C04 describe the same operations. Collisions at the step level: re-key / move / clone onto an initialised destination end "
              "in DestinationExistsError with the world EXACTLY as before (rekey_collision_no_damage: park, failed rename, rollback); "
              "a single fault in the parking step or the rename also restores the world exactly, a fault in the rollback leaves the "
              "state point parked as backup, which check() reports (rekey_collision_single_fault). "
              "Trusted: Lean kernel + 3 standard axioms; the correspondence harness and the plain reference model "
              "(harness/ws_common.py). The model works at the level of whole operations (no file-system steps: C11). "
              "Known findings carved out exactly: F-4b (type-only / None whole-assignment ignored by the dependency), "
              "F-3c (pickle of a handle that has a shallow copy), F-3d (assignment through a handle whose job was re-keyed "
              "by an unrelated handle), F-5c (stale document object).")

EDIT_VALUES = [0, 1, "x", 1.0, True, None, [1, 2], {"n": 0}]


def edits_for(sp, rng, rich):
    vals = EDIT_VALUES if rich else [0, 1, "x"]
    keys = W.SP_KEYS
    out = []
    for k in keys:
        for v in vals:
            out.append(["spset", "h1", k, copy.deepcopy(v)])
        out.append(["spdel", "h1", k])
        out.append(["update", "h1", {k: copy.deepcopy(rng.choice(vals))}, False])
        out.append(["update", "h1", {k: copy.deepcopy(rng.choice(vals))}, True])
        out.append(["spnest", "h1", k, "n", rng.choice([0, 1])])
    for _ in range(4):
        out.append(["spassign", "h1", W.gen_sp(rng, rich)])
    out.append(["spassign", "h1", copy.deepcopy(sp)])
    out += [["move", "h1", 1], ["move", "h1", 0], ["clone", "h1", 1, "hc"], ["clone", "h1", 0, "hc"]]
    return out


def apply_edit_sp(sp, e):
    sp = copy.deepcopy(sp)
    if e[0] == "spset":
        sp[e[2]] = e[3]
    elif e[0] == "spdel":
        sp.pop(e[2], None)
    elif e[0] == "update":
        sp.update(e[2])
    elif e[0] == "spassign":
        sp = copy.deepcopy(e[2])
    elif e[0] == "spnest" and isinstance(sp.get(e[2]), dict):
        sp[e[2]][e[3]] = e[4]
    return sp


def scenario(rng, rich):
    sp = W.gen_sp(rng, rich)
    ops = [["open", "h1", 0, sp]]
    init = rng.random() < 0.8
    early_copy = rng.random() < 0.3
    if early_copy:
        ops.append(["copy", "h1", "h2"])
    if init:
        ops.append(["init", "h1"])
        r = rng.random()
        if r < 0.7:
            ops.append(["dset", "h1", "k", copy.deepcopy(rng.choice(W.DOC_VALS))])
        if r > 0.3:
            ops.append(["put", "h1", rng.choice(W.FILES), rng.choice(["A", "BB", ""])])
        if rng.random() < 0.3:
            ops.append(["put", "h1", "sub/h.txt", "n"])
    prov = rng.choice(["none", "copy", "copy2", "deepcopy", "pickle", "byid", "byid", "fresh"])
    if prov == "copy":
        ops.append(["copy", "h1", "h3"])
    elif prov == "copy2":
        ops += [["copy", "h1", "h3"], ["copy", "h3", "h4"]]
    elif prov == "deepcopy":
        ops.append(["deepcopy", "h1", "h3"])
    elif prov == "pickle":
        ops.append(["pickle", "h1", "h3"])
    elif prov == "byid" and init:
        cold = rng.random() < 0.5
        if cold:  # a new session: nothing in the state point cache
            ops.append(["session", 0])
        ops.append(["openid", "h3", 0, W.ref_id(sp)[: rng.choice([32, 4, 8])]] + (["lazy"] if rng.random() < 0.6 else []))
    elif prov == "fresh":
        ops.append(["open", "h3", 0, copy.deepcopy(sp)])
    e = rng.choice(edits_for(sp, rng, rich))
    # destination: absent / initialised / handle only
    dest = rng.choice(["absent", "init", "handle", "init-other-project", "file"])
    nsp = apply_edit_sp(sp, e)
    if dest == "file":
        # a regular file or a dangling link named exactly like the NEW id sits in the workspace: a re-key cannot
        # move the directory there; it must fail and roll back completely
        if init and e[0] in ("spset", "spdel", "update", "spassign", "spnest") and W.ref_id(nsp) != W.ref_id(sp):
            ops.append(["plant", 0, W.ref_id(nsp), rng.choice(["file", "link"])])
        dest = "absent"
    if dest != "absent":
        p = 1 if (dest == "init-other-project" or e[0] in ("move", "clone")) and rng.random() < 0.7 else 0
        ops.append(["open", "hd", p, nsp])
        if dest != "handle":
            ops.append(["init", "hd"])
            if rng.random() < 0.5:
                ops.append(["dset", "hd", "m", "dest"])
    who = rng.choice(["h1", "h1", "h3"]) if prov not in ("none",) else "h1"
    e = list(e)
    if e[0] in ("spset", "spdel", "update", "spassign", "spnest", "move"):
        e[1] = who if (who != "h3" or prov != "byid" or init) else "h1"
    if prov in ("copy", "copy2", "deepcopy") and rng.random() < 0.2:
        # a REJECTED assignment first: afterwards the handle and its copies must still belong together
        ops.append(["spbad", e[1] if e[0] != "clone" else "h1", dict(copy.deepcopy(sp), **{"bad.key": 1})])
    ops.append(e)
    if e[0] != "clone" and rng.random() < 0.5:
        # the handle that carried out the change goes on using its document: it belongs to the job as it is now
        ops.append(["dset", e[1], "after", rng.choice([7, "v"])])
    if e[0] in ("move", "clone"):
        # the handles left behind in the source project (copies made before the move) keep working there:
        # re-create the job, change its state point through them
        for h in ("h1", "h2", "h3", "h4"):
            if h != e[1] and rng.random() < 0.5:
                if rng.random() < 0.5:
                    ops.append(["init", h])
                ops.append(rng.choice([["spset", h, "d", rng.choice([0, 1, "x"])], ["spnest", h, "n", "q", 1],
                                       ["update", h, {"zz": 1}, False], ["dset", h, "m", 2]]))
    # use the handles afterwards
    for _ in range(rng.randint(0, 3)):
        h = rng.choice(["h1", "h2", "h3", "h4", "hd", "hc"])
        ops.append(rng.choice([["init", h], ["dset", h, "m", 1], ["put", h, "g.dat", "Z"],
                               ["spset", h, "d", rng.choice([0, 1, "x"])], ["remove", h]]))
    return ops


def link_scenario(rng, rich):
    """clone of a job that holds a symbolic link with an absolute target inside its own directory: the
    clone must be independent (writing through the clone's entry must not reach the source job)"""
    sp = W.gen_sp(rng, rich)
    ops = [["open", "h1", 0, sp], ["init", "h1"], ["put", "h1", "run_3.dat", "A"],
           ["putlink", "h1", "latest.dat", "run_3.dat", "A"]]
    if rng.random() < 0.5:
        ops.append(["dset", "h1", "k", 1])
    ops.append(["clone", "h1", 1, "hc"])
    ops.append(["put", "hc", "latest.dat", "ZZ"])
    if rng.random() < 0.5:
        ops.append(["remove", "h1"])
    return ops


def reappear_scenario(rng, rich):
    """the OLD id comes back without the session that re-keyed the job having created it (cloned in from another
    project): opening it by id must give the old state point, not what the re-keyed handle has now"""
    sp = W.gen_sp(rng, rich)
    while not sp:
        sp = W.gen_sp(rng, rich)
    e = rng.choice([x for x in edits_for(sp, rng, rich) if x[0] in ("spset", "spdel", "update", "spnest")] or [["spset", "h3", "zz", 1]])
    e = list(e)
    e[1] = "h3"
    ops = [["open", "h1", 0, sp], ["init", "h1"], ["dset", "h1", "k", 1],
           ["open", "hb", 1, copy.deepcopy(sp)], ["init", "hb"], ["dset", "hb", "src", 2]]
    if rng.random() < 0.5:
        ops.append(["session", 0])
    ops.append(["openid", "h3", 0, W.ref_id(sp)] + (["lazy"] if rng.random() < 0.3 else []))
    ops.append(e)
    ops.append(["clone", "hb", 0, "hc"])
    ops.append(["openid", "h5", 0, W.ref_id(sp)])
    ops.append(["dset", "h5", "z", 3])
    if rng.random() < 0.5:
        ops.append(["spset", "h5", "yy", 0])
    return ops


def generate(tier, rng):
    for i in range(40 if tier == "quick" else 400):
        yield {"ops": reappear_scenario(rng, rich=(i % 3 == 0)), "nproj": 2, "views": True}
    n = 9000 if tier == "quick" else 40000
    for i in range(20 if tier == "quick" else 200):
        yield {"ops": link_scenario(rng, rich=(i % 3 == 0)), "nproj": 2, "views": True}
    for i in range(n):
        yield {"ops": scenario(rng, rich=(i % 3 == 0)), "nproj": 2, "views": i % 4 != 0}


def search(rng, deadline):
    while True:
        yield {"ops": scenario(rng, rich=rng.random() < 0.4), "nproj": 2, "views": rng.random() < 0.7}


def shrink(case):
    ops = case["ops"]
    for i in range(len(ops)):
        yield dict(case, ops=ops[:i] + ops[i + 1:])


def known_class(case, result):
    fs = result.get("oracle") or []
    ids = []
    for f in fs:
        if not f.startswith("KNOWN["):
            return None
        ids.append(f[6:f.index("]")])
    return ids[0] if ids else None


def run_case(case, ctx):
    records, failures = W.lockstep(case["ops"], ctx, case.get("nproj", 2), check_handles=case.get("views", True))
    executed = [r for r in records if "mop" in r]
    model = ["run " + " | ".join(r["mop"] for r in executed)] if executed else []
    impl = [" ".join(r["itok"] for r in executed)] if executed else []
    tags = sorted({"op:" + r["op"][0] for r in records if "real" in r})
    tags += sorted({"res:" + r["real"].split(":")[0] for r in records if "real" in r})
    nontrivial = any(any(o["jobs"] for o in r.get("obs", [])) for r in records)
    strict = [f for f in failures if not f.startswith("KNOWN[")]
    return {"model": model, "impl": impl, "oracle": (strict or failures)[:5], "tags": tags,
            "key": json.dumps(case["ops"]) if nontrivial else None}

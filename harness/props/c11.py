"""C11 — crashes and I/O errors in lifecycle operations never lose data or forge a job
(DESIGN §4 C11).  Real signac is run under harness/faultfs.py (crash / torn write / errno
injection at every mutating file-system step); the compiled Lean model (Signac/Lifecycle.lean)
must predict result, step trace, resulting tree and check() for every event; the direct oracle
evaluates the property on the real tree without the model."""
import hashlib
import json
import logging
import os
import random
import re
import shutil
import uuid

from harness import core, faultfs
from harness.core import enc_val, exc_name

ID = "C11"
TITLE = "Crashes and I/O errors in lifecycle operations never lose data or forge a job"
LEAN_MODULE = "Signac.Properties.C11"
# the refinement layer: event-free runs of the lifecycle step programs implement the abstract workspace operations
EXTRA_MODULES = ["Signac.Properties.Refinement"]
DRIVER = "drv_life"
DESIGN_REF = "DESIGN.md §4 C11, §2.4, §5 S-11"
RULE = ("a case = one scenario (operation x destination kind x damage of the pre-state x payload with document, "
        "nested files, empty files/directories, bystander jobs in two projects) x a list of events; events = process "
        "death before every mutating step, a torn write inside every write of >=2 bytes, errno in "
        "{EIO,ENOSPC,EACCES,EXDEV,EROFS} at every step (thorough: + sampled second faults / crashes inside the error "
        "handling); distinct = distinct (operation, variant, payload shape, state points); non-trivial = the fault-free "
        "run performs at least one step")
MODELLED = ["os.replace/rename/remove/rmdir/mkdir and write(2) are atomic steps; process death loses exactly the bytes "
            "not yet passed to write(2) (no power-loss model: signac never fsyncs)",
            "shutil.copytree / rmtree (CPython 3.12): entry order = os.scandir order (read by the harness and given to "
            "the model), per-entry error collection of copytree, first-error abort of rmtree",
            "synced_collections JSON save = temp file ._<uuid>_<name> + os.replace; one write chunk per file (<64 KiB)",
            "json.loads rejects every proper prefix of a JSON object text (checked on every torn write)",
            "MD5 collision-freeness where 'validates' is read as 'holds this state point'"]
ASSUMPTIONS = ["job directories are opened by state point (not by id); both workspaces exist; reads never fail "
               "(only mutating steps are faulted); ENOENT is not injected (signac reads it as 'not there')",
               "S-11 (partial clone passes check()) is a known finding; clone is judged by clone_safe_partial"]
EXHAUSTIVE = {"quick": False, "thorough": False}
TECHNIQUE = ("Lean 4 theorems over step programs with the code's error handling, for all pre-states, payloads and "
             "event schedules + step-level differential correspondence against real signac under crash/fault injection")

SP = "signac_statepoint.json"
DOC = "signac_job_document.json"
ERRNOS = ["EIO", "ENOSPC", "EACCES", "EXDEV", "EROFS"]
_TMPC = re.compile(r"^\._TMP_(.*)$")
_TMP = re.compile(r"^\._[0-9a-f]{8}-[0-9a-f]{4}-[0-9a-f]{4}-[0-9a-f]{4}-[0-9a-f]{12}_(.*)$")


def ref_id(v):
    return hashlib.md5(json.dumps(v, sort_keys=True).encode()).hexdigest()


def xh(s):
    return "x" + (s if isinstance(s, bytes) else s.encode()).hex()


# ------------------------------------------------------------------------------------------
# scenarios
# ------------------------------------------------------------------------------------------
PAYLOADS = [
    {"doc": {"x": 1}, "files": {"top.txt": "t", "sub/f.txt": "hello", "sub/deep/g.bin": "0123456789"}, "dirs": []},
    {"doc": None, "files": {"a.dat": "aa"}, "dirs": ["emptydir"]},
    {"doc": {"k": [1, 2, {"z": None}]}, "files": {"e.txt": "", "d/e2.txt": "", "d/x.txt": "xyz"}, "dirs": ["d/sub"]},
    {"doc": {"n": 0}, "files": {}, "dirs": []},
    {"doc": None, "files": {"only.txt": "payload"}, "dirs": []},
]
SPS = [{"a": 1}, {"a": 2}, {"b": {"c": [1, 2.5, "x"]}, "a": True}, {"s": "é\n", "n": None}, {"a": 1, "b": 2}]

CORE = [
    ("init", "fresh"), ("init", "valid"), ("init", "nosp"), ("init", "junk"), ("init", "wrongsp"),
    ("init", "emptydir"), ("init", "stray"),
    ("rekey", "fresh"), ("rekey", "collide"), ("rekey", "collide-empty"), ("rekey", "bak"), ("rekey", "junk"),
    ("rekey", "stray"), ("rekey", "uninit"),
    ("move", "fresh"), ("move", "collide"), ("move", "collide-empty"),
    ("clone", "fresh"), ("clone", "collide"), ("clone", "collide-empty"), ("clone", "resave"), ("clone", "stray"),
    ("clone", "bak"),
    ("remove", "fresh"), ("remove", "nosp"), ("clear", "fresh"), ("clear", "stray"),
    # Job.reset() = clear() + init(): the model's composite program resetProg (Prog.seq)
    ("reset", "fresh"), ("reset", "stray"),
    # the job holds a symbolic link to ANOTHER job's directory (inputs -> ../<other id>): emptying the job must not
    # reach through the link (oracle only: the model has no links)
    ("clear", "dirlink"), ("reset", "dirlink"), ("remove", "dirlink"),
]
NO_MODEL_OPS = ()


def make_scenario(op, variant, rng, events="all"):
    sps = list(SPS)
    rng.shuffle(sps)
    sp, newsp, other = sps[0], sps[1], sps[2]
    pay = PAYLOADS[rng.randrange(len(PAYLOADS))]
    if op in ("clone", "remove", "clear", "reset") and not pay["files"]:
        pay = PAYLOADS[0]
    jobs = []
    tgt = {"proj": 0, "sp": sp, "damage": None, "resave": False}
    tgt.update(pay)
    if op == "init":
        if variant == "fresh":
            tgt = None
        elif variant in ("nosp", "junk", "wrongsp", "stray"):
            tgt["damage"] = variant if variant != "stray" else "stray+nosp"
        elif variant == "emptydir":
            tgt = {"proj": 0, "sp": sp, "damage": "emptydir", "doc": None, "files": {}, "dirs": [], "resave": False}
    else:
        if variant in ("bak", "junk", "stray", "nosp"):
            tgt["damage"] = variant
        if variant == "resave":
            tgt["resave"] = True
        if variant == "uninit":
            tgt = None
    if tgt is not None:
        jobs.append(tgt)
    dst_sp = newsp if op == "rekey" else sp
    dst_proj = 0 if op == "rekey" else 1
    if op in ("rekey", "move", "clone"):
        if variant == "collide":
            p2 = PAYLOADS[rng.randrange(len(PAYLOADS))]
            j = {"proj": dst_proj, "sp": dst_sp, "damage": None, "resave": False}
            j.update(p2)
            jobs.append(j)
        elif variant == "collide-empty":
            jobs.append({"proj": dst_proj, "sp": dst_sp, "damage": "emptydir", "doc": None, "files": {}, "dirs": [],
                         "resave": False})
    # bystanders: a healthy job in each project, sometimes a damaged one
    for p in (0, 1):
        j = {"proj": p, "sp": other, "damage": None, "resave": False}
        j.update(PAYLOADS[rng.randrange(len(PAYLOADS))])
        jobs.append(j)
    if rng.random() < 0.5:
        j = {"proj": rng.randrange(2), "sp": sps[3], "damage": rng.choice(["junk", "nosp", "bak"]), "resave": False}
        j.update(PAYLOADS[1])
        jobs.append(j)
    return {"op": op, "variant": variant, "sp": sp, "newsp": newsp if op == "rekey" else None, "jobs": jobs,
            "events": events, "seed": rng.randrange(1 << 30), "cache": rng.random() < 0.5}


def generate(tier, rng):
    reps = 10 if tier == "quick" else 80
    for rep in range(reps):
        for op, variant in CORE:
            # first round: single events only; later rounds add sampled second events
            yield make_scenario(op, variant, rng, "all" if rep == 0 else "all+double")


def search(rng, deadline):
    while True:
        op, variant = CORE[rng.randrange(len(CORE))]
        yield make_scenario(op, variant, rng, "all")


def shrink(case):
    evs = case.get("events")
    if isinstance(evs, str):
        evs = enumerate_events_standalone(case)
    if len(evs) > 1:
        h = len(evs) // 2
        yield dict(case, events=evs[:h])
        yield dict(case, events=evs[h:])
        if len(evs) <= 16:
            for e in evs:
                yield dict(case, events=[e])
    # drop bystanders
    req = 1 if case["op"] != "init" or case["variant"] != "fresh" else 0
    if len(case["jobs"]) > req + (1 if case["variant"].startswith("collide") else 0):
        yield dict(case, jobs=case["jobs"][:-1], events=evs)


# ------------------------------------------------------------------------------------------
# building and reading trees
# ------------------------------------------------------------------------------------------
def build_template(scn, root):
    import signac

    projs = []
    for p in (0, 1):
        d = os.path.join(root, "p%d" % p)
        os.makedirs(d)
        projs.append(signac.init_project(d))
        os.makedirs(projs[-1].workspace, exist_ok=True)
    for j in scn["jobs"]:
        proj = projs[j["proj"]]
        jid = ref_id(j["sp"])
        jd = os.path.join(proj.workspace, jid)
        if j["damage"] == "emptydir":
            continue  # created below, after the cache has been written
        job = proj.open_job(j["sp"])
        job.init()
        if j.get("doc") is not None:
            job.doc.update(j["doc"])
        for path, content in j["files"].items():
            full = os.path.join(jd, path)
            os.makedirs(os.path.dirname(full), exist_ok=True)
            with open(full, "w") as f:
                f.write(content)
        for d in j["dirs"]:
            os.makedirs(os.path.join(jd, d), exist_ok=True)
        if j.get("resave"):
            job.init(force=True)
    if scn.get("cache"):
        # a persistent state point cache written while every job was healthy: check() after the
        # crash / fault must judge the files, not the cache
        for proj in projs:
            proj.update_cache()
    for j in scn["jobs"]:
        jd = os.path.join(projs[j["proj"]].workspace, ref_id(j["sp"]))
        if j["damage"] == "emptydir":
            os.makedirs(jd)
            continue
        spf = os.path.join(jd, SP)
        dmg = j["damage"] or ""
        if "nosp" in dmg:
            os.remove(spf)
        if dmg == "junk":
            with open(spf, "w") as f:
                f.write('{"a": ')
        if dmg == "wrongsp":
            with open(spf, "w") as f:
                f.write(json.dumps({"zz": 99}))
        if dmg == "bak":
            with open(spf + "~", "w") as f:
                f.write(json.dumps({"old": 1}))
        if "stray" in dmg:
            with open(os.path.join(jd, "._%s_%s" % (uuid.UUID(int=7), SP)), "w") as f:
                f.write('{"a"')
    if scn["variant"] == "dirlink":
        tgt = scn["jobs"][0]
        others = [j for j in scn["jobs"][1:] if j["proj"] == tgt["proj"] and j["damage"] is None]
        if others:     # (a shrunk scenario may have lost its bystander)
            os.symlink(os.path.join(os.pardir, ref_id(others[0]["sp"])),
                       os.path.join(projs[tgt["proj"]].workspace, ref_id(tgt["sp"]), "inputs"))
    return projs


def classify(raw):
    """content of a file in state-point position -> ('K', value) | ('J', bytes)"""
    try:
        v = json.loads(raw.decode())
        if isinstance(v, dict):
            return ("K", v)
    except (ValueError, UnicodeDecodeError):
        pass
    return ("J", raw)


def read_dir(path):
    """(structured content, scan order refs) of one job directory"""
    d = {"sp": None, "bak": None, "strays": [], "entries": {}, "raw": {}}
    order = []

    def walk(rel):
        with os.scandir(os.path.join(path, rel) if rel else path) as it:
            ents = list(it)
        for e in ents:
            r = (rel + "/" + e.name) if rel else e.name
            if e.is_dir(follow_symlinks=False):
                d["entries"][r] = None
                order.append(("d", r))
                walk(r)
                continue
            if e.is_symlink():
                raw = ("<symbolic link to %s>" % os.readlink(e.path)).encode()
            else:
                with open(e.path, "rb") as f:
                    raw = f.read()
            d["raw"][faultfs.canon_name(r)] = raw
            m = _TMP.match(e.name) or _TMPC.match(faultfs.canon_name(e.name))   # any temp-name scheme
            if not rel and e.name == SP:
                d["sp"] = classify(raw)
                order.append(("s",))
            elif not rel and e.name == SP + "~":
                d["bak"] = classify(raw)
                order.append(("b",))
            elif not rel and m:
                c = classify(raw) if m.group(1) == SP else ("J", raw)
                d["strays"].append((m.group(1), c))
                order.append(("t", m.group(1)))
            else:
                d["entries"][r] = raw
                order.append(("f", r))

    walk("")
    return d, order


def read_world(ws):
    """{(proj, name): dir}, {(proj, name): order}"""
    world, orders = {}, {}
    for p, w in enumerate(ws):
        for name in sorted(os.listdir(w)) if os.path.isdir(w) else []:
            full = os.path.join(w, name)
            if os.path.isdir(full):
                world[(p, name)], orders[(p, name)] = read_dir(full)
    return world, orders


def c_wire(c):
    return ("K " + enc_val(c[1])) if c[0] == "K" else ("J " + xh(c[1]))


def c_render(c, raw=None):
    if c is None:
        return "-"
    if c[0] == "K":
        return "K" + (raw if raw is not None else json.dumps(c[1]).encode()).hex()
    return "J" + c[1].hex()


def world_wire(world):
    parts = [str(len(world))]
    for (p, name), d in sorted(world.items()):
        parts += [str(p), name, c_wire(d["sp"]) if d["sp"] else "-", c_wire(d["bak"]) if d["bak"] else "-"]
        parts.append(str(len(d["strays"])))
        for n, c in d["strays"]:
            parts += [xh(n), c_wire(c)]
        parts.append(str(len(d["entries"])))
        for path, b in d["entries"].items():
            parts += [xh(path), "D" if b is None else "F " + xh(b)]
    return " ".join(parts)


def world_render(world):
    out = []
    for (p, name), d in world.items():
        raw = d["raw"]
        s = "P%d/%s{S=%s B=%s T=%s E=%s}" % (
            p, name, c_render(d["sp"], raw.get(SP)), c_render(d["bak"], raw.get(SP + "~")),
            ",".join(sorted("%s:%s" % (n, c_render(c, c[1] if c[0] == "J" else None)) for n, c in d["strays"])),
            ",".join(sorted("%s:%s" % (path, "D" if b is None else "F" + b.hex()) for path, b in d["entries"].items())))
        out.append(s)
    return ";".join(sorted(out))


def refs_wire(order):
    parts = [str(len(order))]
    for r in order:
        parts.append(r[0] if len(r) == 1 else r[0] + " " + xh(r[1]))
    return " ".join(parts)


def real_check(pdir):
    import signac
    from signac.errors import JobsCorruptedError

    try:
        signac.Project(pdir).check()
        return []
    except JobsCorruptedError as e:
        return sorted(e.job_ids)


# ------------------------------------------------------------------------------------------
# the operation on the real code
# ------------------------------------------------------------------------------------------
def op_keys(scn):
    sid = ref_id(scn["sp"])
    op = scn["op"]
    if op == "rekey":
        return (0, sid), (0, ref_id(scn["newsp"]))
    if op in ("move", "clone"):
        return (0, sid), (1, sid)
    return (0, sid), (0, sid)


_LAST = {}


def handle_view():
    """what the handle the operation went through says about itself afterwards"""
    job = _LAST.get("job")
    if job is None:
        return None
    try:
        sp = json.loads(json.dumps(job.statepoint(), default=lambda o: o() if callable(o) else str(o)))
    except Exception as e:  # noqa: BLE001
        return {"id": job.id, "sp_error": type(e).__name__}
    return {"id": job.id, "sp_id": ref_id(sp)}


def do_op(scn, work):
    import signac

    p0 = signac.Project(os.path.join(work, "p0"))
    op = scn["op"]
    job = p0.open_job(scn["sp"])
    _LAST["job"] = job
    if op == "init":
        job.init()
    elif op == "rekey":
        job.statepoint = scn["newsp"]
    elif op == "move":
        job.move(signac.Project(os.path.join(work, "p1")))
    elif op == "clone":
        signac.Project(os.path.join(work, "p1")).clone(job)
    elif op == "remove":
        job.remove()
    elif op == "clear":
        job.clear()
    elif op == "reset":
        job.reset()
    else:
        raise ValueError(op)


def op_wire(scn, orders):
    op = scn["op"]
    src, dst = op_keys(scn)
    if op == "init":
        return "init 0 %s F" % enc_val(scn["sp"])
    if op == "rekey":
        return "rekey 0 %s %s" % (src[1], enc_val(scn["newsp"]))
    if op == "move":
        return "move 0 %s 1" % src[1]
    order = refs_wire(orders.get(src, []))
    if op == "clone":
        return "clone 0 %s 1 %s" % (src[1], order)
    if op == "reset":       # clear() followed by init(): the composite program of the model (resetProg)
        return "reset 0 %s %s %s" % (src[1], enc_val(scn["sp"]), order)
    return "%s 0 %s %s" % (op, src[1], order)


def plan_of(ev):
    plan = {}
    faults = {}
    for e in ev:
        if e[1] == "F":
            faults[str(e[0])] = e[2]
        elif e[1] == "C":
            plan["crash"] = e[0]
        elif e[1] == "T":
            plan["crash"] = e[0]
            plan["torn"] = e[2]
    if faults:
        plan["faults"] = faults
    return plan


def ev_wire(ev):
    return " ".join([str(len(ev))] + ["%d %s" % (e[0], " ".join(str(x) for x in e[1:])) for e in ev])


class Runner:
    def __init__(self, scn, ctx):
        self.scn = scn
        self.base = ctx.fresh_dir("c11")
        self.template = os.path.join(self.base, "T")
        os.makedirs(self.template)
        build_template(scn, self.template)
        self.work = os.path.join(self.base, "W")

    def run(self, ev):
        shutil.rmtree(self.work, ignore_errors=True)
        shutil.copytree(self.template, self.work, symlinks=True)
        ws = [os.path.join(self.work, "p%d" % p, "workspace") for p in (0, 1)]
        roots = {"P0": ws[0], "P1": ws[1]}
        pre, orders = read_world(ws)
        scn, work = self.scn, self.work
        res = faultfs.run_forked(lambda: do_op(scn, work), roots, plan_of(ev), exc_name=exc_name, after=handle_view)
        post, _ = read_world(ws)
        checks = [real_check(os.path.join(self.work, "p%d" % p)) for p in (0, 1)]
        return pre, orders, res, post, checks


def events_from_trace(steps, rng, double=False, runner=None):
    evs = []
    n = len(steps)
    for k in range(n):
        evs.append([[k, "C"]])
        if steps[k][0] == "write" and int(steps[k][2]) >= 2:
            ln = int(steps[k][2])
            evs.append([[k, "T", rng.choice([1, ln // 2, ln - 1])]])
        for e in ERRNOS:
            evs.append([[k, "F", e]])
    return evs


def enumerate_events_standalone(case):
    root = core.scratch_root()
    try:
        ctx = core.Ctx(root)
        logging.disable(logging.CRITICAL)
        r = Runner(case, ctx)
        _, _, res, _, _ = r.run([])
        return [[]] + events_from_trace(res["steps"], random.Random(case["seed"]))
    finally:
        shutil.rmtree(root, ignore_errors=True)


# ------------------------------------------------------------------------------------------
# the direct oracle: C11 itself, evaluated on the real tree (no model involved)
# ------------------------------------------------------------------------------------------
def dir_valid(name, d):
    return d["sp"] is not None and d["sp"][0] == "K" and ref_id(d["sp"][1]) == name


def same_dir(a, b):
    return a is not None and b is not None and a["raw"] == b["raw"] and \
        sorted(k for k, v in a["entries"].items() if v is None) == sorted(k for k, v in b["entries"].items() if v is None)


def same_job(a, b):
    """same state-point file, same payload (a stale backup `sp~` or a stray temp file is not data)"""
    def data(d):
        return {n: v for n, v in d["raw"].items() if n != SP + "~" and not n.startswith("._TMP_")}
    return data(a) == data(b) and \
        sorted(k for k, v in a["entries"].items() if v is None) == sorted(k for k, v in b["entries"].items() if v is None)


def s11_event(scn, ev, res):
    """the known class S-11: a clone whose copy was interrupted after the state-point file was
    written, or in which some entry other than the state-point file failed"""
    if scn["op"] != "clone":
        return False
    steps = [tuple(s) for s in res["steps"]]
    if not steps or steps[0][0] != "mkdir":
        return False
    if res["status"] == "crashed":
        done = steps  # performed steps
        return any(s[0] == "write" and s[1].endswith("/" + SP) and s[1].count("/") == 2 for s in done)
    bad = [steps[k] for k in res["faulted"] if k < len(steps)]
    return any(k >= 1 and not (s[1].endswith("/" + SP) and s[1].count("/") == 2) for k, s in zip(res["faulted"], bad))


def oracle(scn, ev, pre, res, post, checks, base_post=None):
    """returns [(message, class-or-None)]; base_post = post-state of the run without events"""
    out = []
    op = scn["op"]
    src, dst = op_keys(scn)
    removal = op in ("remove", "clear", "reset")
    evs = "event=%s" % json.dumps(ev)

    def fail(msg, cls=None):
        out.append(("%s/%s %s: %s" % (op, scn["variant"], evs, msg), cls))

    # (1) every id-named directory validates against its id or is reported by check()
    for (p, name), d in post.items():
        v = dir_valid(name, d)
        rep = name in checks[p]
        if v == rep:
            fail("directory P%d/%s %s and is %sreported by check()" % (
                p, name[:8], "validates" if v else "does not validate", "" if rep else "not "))
    for p in (0, 1):
        for name in checks[p]:
            if (p, name) not in post:
                fail("check() reports %s which is not a directory" % name)
    # (2) every other job is byte-identical
    for k in set(pre) | set(post):
        if k in (src, dst):
            continue
        if not same_dir(pre.get(k), post.get(k)):
            fail("bystander directory P%d/%s changed" % (k[0], k[1][:8]))
    P = pre[src]["raw"] if src in pre else {}
    payload = {k: v for k, v in P.items() if k not in (SP, SP + "~") and not k.startswith("._TMP_")}

    def holds(k):
        d = post.get(k)
        if d is None:
            return False
        have = {n: v for n, v in d["raw"].items() if n not in (SP, SP + "~") and not n.startswith("._TMP_")}
        return have == payload and sorted(x for x, v in d["entries"].items() if v is None) == \
            sorted(x for x, v in pre[src]["entries"].items() if v is None)

    # (3) the affected job's data sits in exactly one id directory (unless a removal)
    if not removal and src in pre:
        if op == "clone":
            if not same_dir(pre[src], post.get(src)):
                fail("the source of the clone changed")
            if dst in pre:
                if not same_dir(pre[dst], post.get(dst)):
                    fail("the pre-existing destination of the clone changed")
            elif dst in post and not holds(dst) and dst[1] not in checks[dst[0]]:
                fail("the destination P1/%s passes check() but lacks data of the source (have %s, want %s)" % (
                    dst[1][:8], sorted(post[dst]["raw"]), sorted(P)),
                    "S-11" if s11_event(scn, ev, res) else None)
        elif op in ("rekey", "move"):
            holders = [k for k in {src, dst} if holds(k)]
            if dst in pre and not pre[dst]["raw"] and not pre[dst]["entries"]:
                pass_empty = True
            else:
                pass_empty = False
            if dst in pre and not pass_empty:
                # colliding destination: it must stay as it was, the data stays at the source
                if not same_dir(pre[dst], post.get(dst)):
                    fail("the colliding destination changed")
                if not holds(src):
                    fail("the data of the affected job left its directory although the destination was taken")
            elif len(holders) != 1 and (payload or pre[src]["entries"]):
                fail("the affected job's data sits in %d id directories %s" % (
                    len(holders), [k[1][:8] for k in holders]))
        elif op == "init":
            if not holds(src):
                fail("init changed the payload of its directory")
    if op == "init" and src not in pre and src in post:
        have = {n for n in post[src]["raw"] if n not in (SP,) and not n.startswith("._TMP_")}
        if have or post[src]["entries"]:
            fail("init of a fresh job produced payload %s" % sorted(have))
    # (4) nothing validates with a state point that job never had
    want_sp = scn["newsp"] if op == "rekey" else scn["sp"]
    for k, d in post.items():
        if not dir_valid(k[1], d):
            continue
        if k in pre and dir_valid(k[1], pre[k]):
            continue                          # validated before
        if k != dst:
            fail("directory P%d/%s validates now but did not before" % (k[0], k[1][:8]))
            continue
        if json.dumps(d["sp"][1], sort_keys=True) != json.dumps(want_sp, sort_keys=True):
            fail("destination validates with a state point nobody asked for")
        if op == "init" and k in pre and pre[k]["sp"] is not None:
            fail("init made a directory validate that held a non-matching state-point file (forged job)")
    # (5) a fault propagates as an exception and leaves the pre-state or a detectable state
    if res["faulted"] and res["status"] == "done":
        if res["exc"] is None:
            # "never a silent partial success": returning normally after a failed file-system call is acceptable
            # only if the outcome is the COMPLETE success (the failed call was redundant, e.g. a mkdir of a
            # directory that exists), i.e. the post-state of the run without any fault
            complete = base_post is not None and set(post) == set(base_post) and all(
                same_job(post[k], base_post[k]) for k in post)
            if not complete:
                fail("injected fault at step(s) %s did not propagate: the operation returned normally and the result "
                     "is not that of the fault-free run (silent partial success)" % res["faulted"])
        elif not removal:
            identical = set(pre) == set(post) and all(same_job(pre[k], post[k]) for k in pre)
            detect = any(k[1] in checks[k[0]] for k in (src, dst))
            if not identical and not detect:
                if op == "clone" and dst not in pre and dst in post:
                    pass   # judged under (3) (S-11)
                else:
                    fail("after the fault the tree is neither the pre-state nor check()-detectable (%s)" % res["exc"])
    # (6) rollback: without any event, or after a single fault on the rename of the job directory, a raising
    #     operation whose data is still in the source directory must leave its state-point file as it was
    def dir_rename(k):
        st = res["steps"][k] if k < len(res["steps"]) else ()
        return len(st) == 3 and st[0] == "replace" and st[1].count("/") == 1 and st[2].count("/") == 1
    single = (not ev) or (len(ev) == 1 and ev[0][1] == "F" and dir_rename(ev[0][0]))
    if single and not removal and res["status"] == "done" and res["exc"] is not None and src in pre and src in post:
        if holds(src) and post[src]["raw"].get(SP) != pre[src]["raw"].get(SP):
            fail("the operation raised %s, the data is still in P%d/%s, but its state-point file changed "
                 "(no rollback)" % (res["exc"], src[0], src[1][:8]))
    if not ev and res["exc"] is not None:
        for k in set(pre) | set(post):
            if k not in post or k not in pre or not same_job(pre[k], post[k]):
                fail("no crash, no fault: the operation raised %s and P%d/%s changed" % (res["exc"], k[0], k[1][:8]))
    # (7) the handle the caller keeps: after an operation that RAISED (and did not die) it still describes one job - its
    #     id is the hash of the state point it reports (a handle with the old id and the rejected state point makes the
    #     'failed' assignment take effect with the next change)
    hv = res.get("after")
    if res["status"] == "done" and res["exc"] is not None and isinstance(hv, dict) and "sp_id" in hv and hv["sp_id"] != hv["id"]:
        fail("the operation raised %s; the handle now has id %s but reports a state point hashing to %s" % (
            res["exc"], hv["id"][:8], hv["sp_id"][:8]))
    if op in ("clear", "reset") and src in pre and dir_valid(src[1], pre[src]):
        # clear() / reset() empty the job, they never remove THE JOB: whatever happens on the way, its directory and
        # its state point file stay (a job that vanished is neither the pre-state nor anything check() could report)
        if src not in post:
            fail("the job directory P%d/%s is gone after %s()" % (src[0], src[1][:8], op))
        elif post[src]["raw"].get(SP) != pre[src]["raw"].get(SP) and src[1] not in checks[src[0]]:
            fail("the state point file of P%d/%s changed or vanished during %s() and check() does not report it" % (
                src[0], src[1][:8], op))
    if removal:
        # removals may stop anywhere between pre and post; nothing may appear except the reset document
        if src in post and src in pre:
            for n, v in post[src]["raw"].items():
                if n in (DOC, "._TMP_" + DOC):
                    continue
                if pre[src]["raw"].get(n) != v:
                    fail("removal created or changed %s" % n)
    return out


# ------------------------------------------------------------------------------------------
# run_case
# ------------------------------------------------------------------------------------------
def run_case(case, ctx):
    logging.disable(logging.CRITICAL)
    rng = random.Random(case["seed"])
    runner = Runner(case, ctx)
    model, impl, orc, classes, tags = [], [], [], [], []
    try:
        evs = case["events"]
        base = None
        if isinstance(evs, str):
            base = runner.run([])
            lst = [[]] + events_from_trace(base[2]["steps"], rng)
            if evs == "all+double":
                # second events inside the error handling of sampled single faults
                singles = [e for e in lst if e and e[0][1] == "F"]
                rng.shuffle(singles)
                for e in singles[:12]:
                    _, _, r1, _, _ = runner.run(e)
                    later = list(range(e[0][0] + 1, len(r1["steps"])))
                    if later:
                        k2 = rng.choice(later)
                        lst.append(e + [[k2, "F", rng.choice(ERRNOS)]])
                        lst.append(e + [[k2, "C"]])
            evs = lst
        nsteps = None
        if base is None and any(evs):
            base = runner.run([])    # the fault-free outcome is the yardstick for "complete success"
        for ev in evs:
            pre, orders, res, post, checks = runner.run(ev) if (ev or base is None) else base
            if not ev:
                nsteps = len(res["steps"])
            r = "crashed" if res["status"] == "crashed" else ("ok" if res["exc"] is None else "exc:" + res["exc"])
            # A mkdir that finds its directory in place and is followed by further work is REDUNDANT (the code asks
            # by trying instead of looking first): it is not a step of the protocol.  Such steps are dropped from the
            # recorded trace and the event positions are shifted accordingly; an event AT such a step has no
            # counterpart in the model and is judged by the oracle alone.  (The failing mkdir that ends a clone onto
            # an existing destination is the last step of a failed run: it stays.)
            def redundant(rs, rr):
                n = len(rs["steps"])
                own_failure = any(w in rr for w in ("DestinationExists", "FileExists", "EEXIST"))
                return sorted(k for k in rs.get("noeffect", []) if not (k == n - 1 and own_failure))
            base_r = "ok" if (base is None or base[2]["exc"] is None) else "exc:" + str(base[2]["exc"])
            base_red = redundant(base[2], base_r) if base is not None else []
            # (a step that is redundant in the fault-free run is redundant in a run that shares that prefix)
            red = sorted(set(redundant(res, r)) | (set(res.get("noeffect", [])) & set(base_red)))
            with_model = True
            ev_m = ev
            if base_red or red:
                if len(ev) > 1 or any(e[0] in base_red for e in ev):
                    with_model = False
                else:
                    ev_m = [[e[0] - sum(1 for j in base_red if j < e[0])] + list(e[1:]) for e in ev]
            if case["op"] in NO_MODEL_OPS or case["variant"] == "dirlink":
                with_model = False
            if with_model:
                model.append("exec %s %s %s" % (world_wire(pre), op_wire(case, orders), ev_wire(ev_m)))
                kept = [s_ for i_, s_ in enumerate(res["steps"]) if i_ not in red]
                impl.append("|".join(["ev " + ev_wire(ev_m), r, ",".join(faultfs.step_str(s_) for s_ in kept), world_render(post),
                                      ",".join(checks[0]), ",".join(checks[1])]))
            else:
                tags.append("event-at-redundant-step")
            for msg, cls in oracle(case, ev, pre, res, post, checks, base[3] if base is not None else None):
                orc.append(msg)
                classes.append(cls)
            kind = "none" if not ev else "+".join(e[1] for e in ev)
            tags.append("ev=" + kind)
            tags.append("res=%s" % (r if not r.startswith("exc:OSError") else "exc:OSError"))
    finally:
        ctx.cleanup(runner.base)
    tags.append("op=%s/%s" % (case["op"], case["variant"]))
    tags.append("cache=%s" % bool(case.get("cache")))
    key = None
    if nsteps is None or nsteps > 0:
        key = [case["op"], case["variant"], case["sp"], case["newsp"],
               [(j["proj"], j["sp"], j["damage"], sorted(j["files"]), j["dirs"]) for j in case["jobs"]]]
    return {"model": model, "impl": impl, "oracle": orc, "classes": classes, "tags": tags, "key": key}


def known_class(case, result):
    cl = result.get("classes") or []
    if result.get("oracle") and cl and all(c == "S-11" for c in cl):
        return "S-11"
    return None


LEVEL_TEXT = ("Proved in Lean for all pre-states, payloads and ALL event schedules (process death before any step, torn "
              "write inside any write, any number of injected errnos other than ENOENT, also inside the error handling): "
              "every directory outside the operation's own ones is untouched (all six operations; for clone this includes "
              "the source); init keeps payload and backup and never makes a directory validate that held a non-matching "
              "state-point file; the re-key protocol (park sp, rename, rollback + reload, drop backup, init) keeps the data in "
              "exactly one of the two directories, never touches a taken destination, and the new directory validates only "
              "with the complete new state point; move is all-or-nothing; remove/clear never make a directory validate that "
              "did not before and remove only shrinks the payload; a consumed fault always ends in an exception and leaves "
              "the old job or a state check() reports (crash_safe, any_schedule_safe, fault_safe). Job.reset() is the composite program "
              "clear-then-init (Prog.seq, run_seq): under EVERY schedule clear() and reset() keep the job's directory and state point file "
              "(clear_keeps_job, reset_keeps_job, reset_keeps_dir), touch no other job (reset_others_untouched), a consumed fault other than "
              "ENOENT never ends in a normal return and a normal return is the event-free run (reset_fault_raises, reset_ok_means_done); "
              "an implementation as remove-then-init is separated by a concrete schedule (remove_then_init_loses_job). For clone only "
              "clone_safe_partial is proved (source and taken destination untouched, error propagates, destination's "
              "state-point file is absent / junk / the source's, absent-or-reported until that file is completely copied); the "
              "full statement is proved FALSE of the model (S-11) and confirmed on the real code. The model is tied to the code "
              "by exact comparison of result, step trace, resulting tree and check() output for every generated event.")
LEVEL_NOTE = ("Refinement layer (Signac/Properties/Refinement.lean, audited with this check): for every clean world an EVENT-FREE run of "
              "the file-system step program of init / re-key / move / clone / remove / clear ends in a clean world whose "
              "abstraction is the abstract operation's result (op_refines, history_refines by induction over histories), and "
              "commutes with the step of the abstract workspace model of C03/C04 (init_square ... clear_square): the crash/fault "
              "model of C11 and the in-memory model of C03/C04 describe the same operations. "
              "Not proved / assumed: steps are atomic at the recorded granularity, no power-loss model; reads never fail; "
              "ENOENT is not injected; init with force=True, reset, and a state-point change of a job without state-point "
              "file are outside crash_safe/fault_safe (the latter is modelled and compared, only 'an exception is raised' is "
              "proved); completeness of an UNDISTURBED clone is proved (clone_refines: the event-free copy yields state point and payload of the "
              "source under the scan-order hypothesis); and a run that RETURNS NORMALLY under any schedule is the event-free run, "
              "hence did exactly what the abstract operation says (quiet_run_is_event_free for every program; "
              "ok_means_done_any_schedule for init / move / clone under every schedule, ok_means_done_partial for re-key / "
              "remove / clear when no ENOENT is injected - refuted without that proviso by concrete schedules: an ENOENT at the "
              "first unlink makes remove() return normally with the job still there, remove_ok_but_not_done); 'validates' = "
              "hash equality (MD5 collision-freeness assumed); the oracle rule 'a failed directory rename leaves the source's "
              "state-point file as it was' is stricter than the literal property text (it is what the rollback anchor "
              "exists for). Trusted: Lean kernel, propext/Classical.choice/Quot.sound, harness/faultfs.py, the oracle.")

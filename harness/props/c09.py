"""C09 — state point corruption is always detected, never accepted, and repairable (DESIGN §4 C09)."""
import json
import zlib
import re
import math
import os
import shutil

from harness.core import enc_val, exc_name, hx, tagged
from harness.ws_common import plain, ref_id

ID = "C09"
TITLE = "State point corruption is always detected, never accepted, and repairable"
LEAN_MODULE = "Signac.Properties.C09"
DRIVER = "drv_cache"
DESIGN_REF = "DESIGN.md §4 C09"
RULE = ("projects of 1-4 jobs with state points of assorted shapes (flat, nested, unicode, floats) each carrying a document and "
        "a data file; damage to any subset of <=3 jobs: truncation at every byte offset, single-byte replacement at every "
        "offset x 10 byte classes, deletion, replacement by other valid JSON (another job's state point, a list, a scalar), "
        "cross-job file swaps, directory renames to another valid id / a non-id / a swap; with and without a persistent "
        "cache; quick enumerates all offsets of 5 files and samples the rest, thorough enumerates all offsets x classes of "
        "12 files; damage is classified by an independent canonical hash of json.loads of the damaged bytes; distinct = "
        "distinct (state points, damage list, cache flag); non-trivial = at least one job is damaged by that classification")
MODELLED = ["json.loads (a parameter of the model: the harness reports absent / unparsable / parsed value)",
            "the payload of a job is an opaque identity in the model"]
ASSUMPTIONS = ["MD5 collision-freeness (a changed value has a changed hash)"]
EXHAUSTIVE = {"quick": False, "thorough": False}
TECHNIQUE = ("Lean 4 theorems about load / check / open-by-id / repair of the cache+workspace model + differential run of real "
             "signac on enumerated byte-level damage")
LEVEL_TEXT = ("Proved in Lean for every workspace content (any damage, any number of jobs) and every hash function: a successful "
              "load returns a value hashing to the directory name; check() names exactly the directories whose file is missing, "
              "unparsable or parses to a value with another hash; opening by id in a fresh session yields an error or a state "
              "point hashing to the id whatever the damage (given a sound cache file, which update_cache guarantees, C08); an "
              "intact job always opens; repair() with all listed state points known from the cache reports nothing, makes "
              "check() pass, keeps the listing and every directory's payload; the rename route is proved as well: an intact "
              "state point file in a misnamed directory makes repair() move the directory to the hash of that state point "
              "with its payload (repair_rename_one), unless that name is taken by a non-empty directory (repair_rename_blocked: "
              "reported, nothing changed), and for any mix of cache-known, intact and misnamed-but-intact directories with free "
              "pairwise distinct destinations repair() reports nothing, check() passes and the payloads are a permutation of the "
              "old ones, each under its destination id (repair_restores_renamed); repair keeps the cache sound, so a later "
              "update_cache + fresh open-by-id is still sound (open_by_id_sound_after_repair). The stronger reading (each payload ends under "
              "its own state point) is proved FALSE from the directory-swap witness (known finding F-9b). The model is "
              "compared with the real check / open_job(id) / repair on byte-level damage enumerated over offsets and byte "
              "classes, with the real listing order as an input; an independent oracle classifies damage by a canonical hash "
              "of json.loads of the damaged bytes.")
LEVEL_NOTE = ("Trusted: Lean kernel + 3 standard axioms; harness/oracle; json.loads is a parameter of the model (the harness "
              "reports absent / unparsable / parsed value). Both routes of repair (cache, rename) are proved. The oracle also accesses every damaged job repeatedly "
              "through ONE handle on a copy of the project (each answer: error or a state point hashing to the id). MD5 collision-freeness assumed for 'a changed "
              "value has a changed hash'. Known finding F-9b carved out exactly (directory swap with a cache).")

SPS = [
    {"a": 1}, {"a": 2}, {"b": "x", "a": 0}, {"n": {"k": [1, 2.5, None]}, "s": "é"}, {"f": 0.1, "t": True},
    {"a": 10}, {"a": "1"}, {"long": "abcdefghij" * 3, "z": -3}, {"u": "☃ snow", "e": ""}, {"l": [[1], {"m": 2}]},
    {"a": 1.0}, {"x": 123456789012, "y": 1e-7}, {},
]
BYTE_CLASSES = {
    "digit": b"7", "letter": b"q", "quote": b'"', "brace": b"}", "bracket": b"]", "comma": b",", "colon": b":",
    "space": b" ", "nul": b"\x00", "high": b"\xe9",
}
SP_FILE = "signac_statepoint.json"


def encodable(v):
    try:
        enc_val(v)
        return _finite(v)
    except Exception:  # noqa: BLE001
        return False


def _finite(v):
    if isinstance(v, float):
        return math.isfinite(v)
    if isinstance(v, dict):
        return all(isinstance(k, str) and _finite(x) for k, x in v.items())
    if isinstance(v, list):
        return all(_finite(x) for x in v)
    return True


def sp_text(sp):
    return json.dumps(sp).encode()


def generate(tier, rng):
    kinds = ["delete", "truncate", "replace"]
    for k1 in kinds:
        for k2 in kinds:
            for ids_ in ("default", "all"):
                yield {"kind": "staged", "first": [[0, k1]], "second": [[1, k2]], "ids": ids_}
                yield {"kind": "staged", "first": [[2, k1]], "second": [[0, k2], [3, k1]], "ids": ids_}
    yield {"kind": "staged", "first": [], "second": [[1, "delete"]], "ids": "default"}
    nfiles_exh = 5 if tier == "quick" else 12
    # exhaustive single damages of one job in a 2-job project
    for fi in range(nfiles_exh):
        sp = SPS[fi]
        other = SPS[(fi + 1) % len(SPS)]
        n = len(sp_text(sp))
        for cache in (False, True):
            for off in range(n):
                yield {"sps": [sp, other], "cache": cache, "damages": [{"job": 0, "kind": "truncate", "off": off}]}
            for off in range(n):
                classes = list(BYTE_CLASSES) if (tier == "thorough" or off % 3 == fi % 3) else [rng.choice(list(BYTE_CLASSES))]
                for c in classes:
                    yield {"sps": [sp, other], "cache": cache, "damages": [{"job": 0, "kind": "byte", "off": off, "cls": c}]}
    # structural damages, multi-job
    for i in range(6000 if tier == "quick" else 30000):
        k = rng.choice([1, 2, 2, 3, 4])
        sps = rng.sample(SPS, k)
        ndam = rng.randint(1, min(3, k))
        jobs = rng.sample(range(k), ndam)
        damages = []
        for j in jobs:
            kind = rng.choice(["truncate", "byte", "delete", "replace", "replace", "swapfile", "renamedir", "renamedir", "swapdir"])
            d = {"job": j, "kind": kind}
            n = len(sp_text(sps[j]))
            if kind == "truncate":
                d["off"] = rng.randrange(n)
            elif kind == "byte":
                d["off"] = rng.randrange(n)
                d["cls"] = rng.choice(list(BYTE_CLASSES))
            elif kind == "replace":
                d["with"] = rng.choice([rng.choice(SPS), sps[(j + 1) % k], [1, 2], 5, "str", {}, None, {"a": 1, "extra": 0}])
            elif kind in ("swapfile", "swapdir"):
                if k < 2:
                    d["kind"] = "delete"
                else:
                    d["other"] = rng.choice([x for x in range(k) if x != j])
            elif kind == "renamedir":
                d["to"] = rng.choice(["newid", "newid", "nonid", "otherjob-absent"])
            damages.append(d)
        yield {"sps": sps, "cache": rng.random() < 0.5, "damages": damages}


def search(rng, deadline):
    for c in generate("thorough", rng):
        yield c


def shrink(case):
    if case.get("kind") == "staged":
        return
    d = case["damages"]
    for i in range(len(d)):
        if len(d) > 1:
            yield dict(case, damages=d[:i] + d[i + 1:])
    sps = case["sps"]
    used = {x["job"] for x in d} | {x.get("other") for x in d if "other" in x}
    for i in range(len(sps)):
        if i not in used and len(sps) > 1:
            remap = {j: (j if j < i else j - 1) for j in range(len(sps))}
            nd = []
            for x in d:
                y = dict(x, job=remap[x["job"]])
                if "other" in y:
                    y["other"] = remap[y["other"]]
                nd.append(y)
            yield dict(case, sps=sps[:i] + sps[i + 1:], damages=nd)


def _read_cache_file(path):
    import gzip

    fn = os.path.join(path, ".signac", "statepoint_cache.json.gz")
    if not os.path.exists(fn):
        return None, None
    with open(fn, "rb") as f:
        raw = f.read()
    return json.loads(gzip.decompress(raw).decode()), raw


def classify(ws):
    """Independent classification of every id-named directory: (kind, value, payload id)."""
    out = {}
    for name in sorted(os.listdir(ws)):
        d = os.path.join(ws, name)
        if not (len(name) == 32 and all(c in "0123456789abcdef" for c in name) and os.path.isdir(d)):
            continue
        fn = os.path.join(d, SP_FILE)
        payload = 0
        pf = os.path.join(d, "payload.txt")
        if os.path.exists(pf):
            with open(pf) as f:
                payload = int(f.read())
        if not os.path.exists(fn):
            out[name] = ("absent", None, payload)
            continue
        with open(fn, "rb") as f:
            raw = f.read()
        try:
            v = json.loads(raw.decode())
        except ValueError:
            out[name] = ("garbage", None, payload)
            continue
        try:
            h = ref_id(v)
        except Exception:  # noqa: BLE001
            h = None
        out[name] = ("valid", v, payload) if h is not None else ("garbage", None, payload)
    return out


def damaged_ids(cls):
    return sorted(i for i, (k, v, _) in cls.items() if k != "valid" or ref_id(v) != i)


def ws_token(cls):
    parts = []
    for i, (k, v, p) in sorted(cls.items()):
        parts.append("%s/%s/%d" % (i, k if k != "valid" else "valid=" + ref_id(v), p))
    return ",".join(parts)


def snapshot_payload(ws):
    snap = {}
    for name in os.listdir(ws):
        d = os.path.join(ws, name)
        if not os.path.isdir(d):
            continue
        files = {}
        for dp, _, fns in os.walk(d):
            for fn in fns:
                if fn == SP_FILE:
                    continue
                full = os.path.join(dp, fn)
                with open(full, "rb") as f:
                    files[os.path.relpath(full, d)] = f.read()
        snap[name] = files
    return snap


def run_staged(case, ctx):
    """Damage that arrives in STAGES within one session: damage, check(), more damage (to other jobs), repair().
    Whatever the session learnt from the earlier check(), repair() (with the default selection, or the full id list)
    looks at the workspace as it is NOW: with every state point in the cache it restores all of them.  Oracle only."""
    import signac
    from signac.errors import JobsCorruptedError

    path = ctx.fresh_dir("c09s")
    oracle = []
    try:
        project = signac.init_project(path)
        sps = [{"a": n, "b": {"c": "x%d" % n}} for n in range(4)]
        jobs = [project.open_job(sp).init() for sp in sps]
        for j in jobs:
            j.doc["payload"] = j.id[:6]
        project.update_cache()
        s = signac.Project(path)

        def damage(n, kind):
            fn = os.path.join(s.workspace, jobs[n].id, "signac_statepoint.json")
            if kind == "delete":
                os.remove(fn)
            elif kind == "truncate":
                with open(fn, "r+b") as f:
                    f.truncate(3)
            else:
                with open(fn, "w") as f:
                    json.dump({"zz": "other"}, f)

        def run_check(pr):
            try:
                pr.check()
                return []
            except JobsCorruptedError as e:
                return sorted(e.job_ids)

        first, second = case["first"], case["second"]
        for n, kind in first:
            damage(n, kind)
        rep1 = run_check(s)
        if rep1 != sorted(jobs[n].id for n, _ in first):
            oracle.append("staged: check() after the first damage names %s" % rep1)
        for n, kind in second:
            damage(n, kind)
        try:
            if case["ids"] == "default":
                s.repair()
            else:
                s.repair(job_ids=[j.id for j in jobs])
            rep = []
        except JobsCorruptedError as e:
            rep = sorted(e.job_ids)
        except Exception as e:  # noqa: BLE001
            rep = ["EXC:" + exc_name(e)]
        left_same = run_check(s)
        left_fresh = run_check(signac.Project(path))
        if rep or left_same or left_fresh:
            oracle.append("staged damage (first %s, check(), then %s; every state point is in the cache): repair() reported %s; "
                          "afterwards check() names %s in the same session, %s in a fresh one" % (
                              first, second, rep, left_same, left_fresh))
        for j, sp in zip(jobs, sps):
            fn = os.path.join(s.workspace, j.id, "signac_statepoint.json")
            try:
                with open(fn) as f:
                    now = json.load(f)
            except Exception:  # noqa: BLE001
                now = None
            if now != sp and not oracle:
                oracle.append("staged damage: after repair() the state point file of %s holds %r" % (j.id, now))
    finally:
        ctx.cleanup(path)
    return {"model": [], "impl": [], "oracle": oracle, "tags": ["staged-damage"], "key": "staged" + json.dumps(case, sort_keys=True)}


def run_case(case, ctx):
    if case.get("kind") == "staged":
        return run_staged(case, ctx)
    import signac
    from signac.errors import JobsCorruptedError

    path = ctx.fresh_dir("c09")
    oracle, tags = [], set()
    mops, itoks = [], []
    model_ok = True
    try:
        project = signac.init_project(path)
        ws = project.workspace
        sps = case["sps"]
        ids = [ref_id(sp) for sp in sps]
        for n, sp in enumerate(sps):
            job = project.open_job(sp).init()
            job.doc["owner"] = n + 1
            with open(job.fn("payload.txt"), "w") as f:
                f.write(str(n + 1))
            mops += ["init " + enc_val(sp), "payload S" + hx(ids[n])]
            itoks += ["ok:-:" + ",".join(sorted(ids[: n + 1])), "ok"]
        if case["cache"]:
            r = project.update_cache()
            mops.append("ucache")
            itoks.append("%s:%s:%s" % (r, ",".join(sorted(ids)), ",".join(sorted(ids))))
        orig_payload_owner = {ids[n]: n + 1 for n in range(len(sps))}
        # ---------------- damage ----------------
        for d in case["damages"]:
            j = d["job"]
            jd = os.path.join(ws, ids[j])
            fn = os.path.join(jd, SP_FILE)
            kind = d["kind"]
            tags.add("damage:" + kind)
            if not os.path.isdir(jd):
                continue  # already renamed away by an earlier damage
            if kind in ("truncate", "byte") and os.path.exists(fn):
                with open(fn, "rb") as f:
                    raw = f.read()
                if kind == "truncate":
                    raw = raw[: d["off"]]
                else:
                    off = min(d["off"], len(raw) - 1) if raw else 0
                    raw = raw[:off] + BYTE_CLASSES[d["cls"]] + raw[off + 1:]
                    tags.add("cls:" + d["cls"])
                with open(fn, "wb") as f:
                    f.write(raw)
            elif kind == "delete" and os.path.exists(fn):
                os.remove(fn)
            elif kind == "replace":
                with open(fn, "w") as f:
                    json.dump(d["with"], f)
            elif kind == "swapfile":
                o = os.path.join(ws, ids[d["other"]], SP_FILE)
                if os.path.exists(o) and os.path.exists(fn):
                    os.rename(fn, fn + ".x"); os.rename(o, fn); os.rename(fn + ".x", o)
            elif kind == "swapdir":
                o = os.path.join(ws, ids[d["other"]])
                if os.path.isdir(o):
                    os.rename(jd, jd + ".x"); os.rename(o, jd); os.rename(jd + ".x", o)
            elif kind == "renamedir":
                if d["to"] == "nonid":
                    target = os.path.join(ws, ids[j] + ".bak")
                elif d["to"] == "newid":
                    target = os.path.join(ws, ref_id({"renamed": j}))
                else:
                    target = os.path.join(ws, ref_id({"absent-job": 1}))
                if not os.path.exists(target):
                    os.rename(jd, target)
        cls = classify(ws)
        bad = damaged_ids(cls)
        tags.add("ndamaged=%d" % len(bad))
        # tell the model the resulting abstract state (json.loads is a parameter of the model)
        mops.append("session")
        itoks.append("ok:%s:%s" % (",".join(sorted(ids)) if case["cache"] else "-", ",".join(sorted(ids))))
        model_ok = all(k != "valid" or encodable(v) for (k, v, _) in cls.values())
        before_names = set(ids)
        after_names = set(cls)
        # express the damage to the model as: renames first (old -> new by payload identity), then file states
        by_payload = {p: i for i, (_, _, p) in cls.items()}
        tmpn = 0
        moves = [(ids[n], by_payload.get(n + 1)) for n in range(len(sps))]
        # two-phase rename through temporary names so swaps work
        for old, new in moves:
            if new != old:
                mops.append("rename S%s S%s" % (hx(old), hx("tmp%d" % tmpn)))
                itoks.append("ok")
                tmpn += 1
        tmpn = 0
        for old, new in moves:
            if new != old:
                if new is not None:
                    mops.append("rename S%s S%s" % (hx("tmp%d" % tmpn), hx(new)))
                else:
                    mops.append("forget S%s" % hx("tmp%d" % tmpn))  # renamed to a non-id name: no longer a job directory
                itoks.append("ok")
                tmpn += 1
        for i, (k, v, p) in sorted(cls.items()):
            if k == "valid":
                if not encodable(v):
                    continue
                mops.append("damage S%s valid %s" % (hx(i), enc_val(v)))
            else:
                mops.append("damage S%s %s" % (hx(i), k))
            itoks.append("ok")

        # ---------------- detection ----------------
        fresh = signac.Project(path)
        try:
            fresh.check()
            reported = []
        except JobsCorruptedError as e:
            reported = sorted(e.job_ids)
        except Exception as e:  # noqa: BLE001
            reported = ["EXC:" + exc_name(e)]
        if reported != bad:
            oracle.append("check() names %s, damaged by independent classification: %s" % (reported, bad))
        mops.append("check")
        itoks.append("check=" + ",".join(reported))
        # a session that SEARCHES first (the index builder reads every state point) must not thereby accept a
        # damaged one: afterwards opening by id still raises or yields a state point hashing to the id
        srch = signac.Project(path)
        try:
            sorted(j.id for j in srch.find_jobs({"zz_no_such_key": {"$exists": False}}))   # may raise, may answer from the cache
        except JobsCorruptedError:
            pass
        except Exception as e:  # noqa: BLE001
            if not isinstance(e, (KeyError, ValueError)):
                oracle.append("find_jobs over a damaged workspace raised %s" % exc_name(e))
        for i in sorted(cls):
            for what, fn in (("statepoint()", lambda: srch.open_job(id=i).statepoint()),
                             ("cached_statepoint", lambda: dict(srch.open_job(id=i).cached_statepoint))):
                try:
                    v = plain(fn())
                except Exception:  # noqa: BLE001
                    continue
                if ref_id(v) != i:
                    oracle.append("after a filtered find_jobs in the same session, open_job(id=%s).%s returned %r whose hash is %s"
                                  % (i, what, v, ref_id(v)))
        for i in sorted(cls):
            fresh = signac.Project(path)
            tok = None
            try:
                v = plain(fresh.open_job(id=i).statepoint())
                tok = "ok=" + ref_id(v)
                if ref_id(v) != i:
                    oracle.append("open_job(id=%s).statepoint() in a fresh session returned %r whose hash is %s" % (i, v, ref_id(v)))
            except JobsCorruptedError:
                tok = "JobsCorruptedError=" + i
            except KeyError:
                tok = "KeyError"
            except Exception as e:  # noqa: BLE001
                tok = "JobsCorruptedError=" + i if isinstance(e, ValueError) else "EXC:" + exc_name(e)
            if i not in bad and not tok.startswith("ok="):
                oracle.append("intact job %s cannot be opened by id in a fresh session: %s" % (i, tok))
            mops += ["session", "openid S" + hx(i)]
            itoks += ["ok:%s:%s" % (",".join(sorted(ids)) if case["cache"] else "-", ",".join(sorted(cls))), tok]

        # ---------------- repeated access through ONE handle (on a copy of the project) ----------------
        # "never accepted" must not depend on it being the first attempt: after an access that raised,
        # every later access through the same handle (statepoint again, cached_statepoint, init then
        # statepoint) still raises or yields a state point hashing to the id.
        probe = path + "_probe"
        shutil.copytree(path, probe, symlinks=True)
        try:
            for i in sorted(cls):
                pp = signac.Project(probe)
                try:
                    h = pp.open_job(id=i)
                except Exception:  # noqa: BLE001
                    continue
                for what, fn in (("statepoint()", lambda: h.statepoint()), ("statepoint() again", lambda: h.statepoint()),
                                 ("cached_statepoint", lambda: dict(h.cached_statepoint)),
                                 ("init()", lambda: h.init() and None), ("statepoint() after init()", lambda: h.statepoint()),
                                 ("id", lambda: None if h.id == i else {"__id__": h.id})):
                    try:
                        v = fn()
                    except Exception:  # noqa: BLE001
                        continue
                    if v is None:
                        continue
                    v = plain(v)
                    if ref_id(v) != i:
                        oracle.append("open_job(id=%s): %s through the same handle (after earlier accesses) returned %r "
                                      "whose hash is %s" % (i, what, v, ref_id(v)))
                        break
                # whatever the probes did, a directory named i never ends up VALIDATING with another state point
                spf = os.path.join(probe, "workspace", i, SP_FILE)
                if os.path.isfile(spf):
                    try:
                        with open(spf, "rb") as f:
                            now = json.loads(f.read().decode())
                    except Exception:  # noqa: BLE001
                        now = None
                    k0 = cls[i][0]
                    if i in bad and k0 != "valid" and isinstance(now, dict) and ref_id(now) != i and now != (cls[i][1] if k0 == "valid" else None):
                        oracle.append("accessing damaged job %s wrote the state point file %r (hash %s)" % (i, now, ref_id(now)))
        finally:
            shutil.rmtree(probe, ignore_errors=True)

        # ---------------- repair ----------------
        cache_ids = set(ids) if case["cache"] else set()
        required = set()
        for i in bad:
            k, v, p = cls[i]
            if i in cache_ids:
                required.add(i)
            elif k == "valid" and isinstance(v, dict):
                y = ref_id(v)
                rivals = [x for x in bad if x != i and cls[x][0] == "valid" and isinstance(cls[x][1], dict) and ref_id(cls[x][1]) == y]
                if y not in cls and not rivals:
                    required.add(i)
        before = snapshot_payload(ws)
        listing = os.listdir(ws)  # repair works in listing order; the order is an input of the model
        fresh = signac.Project(path)
        # the ids to repair may be given explicitly, as any iterable (the same ids in the same order as the default)
        all_ids = [n for n in listing if re.fullmatch(r"[a-f0-9]{32}", n)]
        how = zlib.crc32(json.dumps(case, sort_keys=True, default=str).encode()) % 4
        arg = [None, list(all_ids), (i for i in all_ids), iter(tuple(all_ids))][how]
        try:
            if arg is None:
                fresh.repair()
            else:
                fresh.repair(job_ids=arg)
            rep = []
        except JobsCorruptedError as e:
            rep = sorted(e.job_ids)
        except Exception as e:  # noqa: BLE001
            rep = ["EXC:" + exc_name(e)]
            oracle.append("repair() raised %s" % exc_name(e))
        # the session that repaired (or failed to) goes on: update_cache() must not persist anything wrong, and a
        # fresh session must still never hand out a state point whose hash differs from the id
        try:
            uc = fresh.update_cache()
            uc_tok = "none" if uc is None else str(uc)
        except JobsCorruptedError as e:
            uc_tok = "JobsCorruptedError"  # which id the thread pool reports first is not determined
        except Exception as e:  # noqa: BLE001
            uc_tok = "EXC:" + exc_name(e)
        cls2 = classify(ws)
        bad2 = damaged_ids(cls2)
        post_toks = []
        for i in sorted(cls2):
            try:
                v = plain(signac.Project(path).open_job(id=i).statepoint())
                post_toks.append("ok=" + ref_id(v))
                if ref_id(v) != i:
                    oracle.append("after repair() and update_cache() in one session, a fresh open_job(id=%s).statepoint() returned %r "
                                  "whose hash is %s" % (i, v, ref_id(v)))
            except JobsCorruptedError:
                post_toks.append("JobsCorruptedError=" + i)
            except KeyError:
                post_toks.append("KeyError")
            except Exception as e:  # noqa: BLE001
                post_toks.append("JobsCorruptedError=" + i if isinstance(e, ValueError) else "EXC:" + exc_name(e))
        after = snapshot_payload(ws)
        # payload files unchanged (as a collection of directory contents)
        if sorted(map(lambda x: sorted(x.items()), before.values())) != sorted(map(lambda x: sorted(x.items()), after.values())):
            oracle.append("repair() changed document / data files: before %s after %s" % (
                {k: sorted(v) for k, v in before.items()}, {k: sorted(v) for k, v in after.items()}))
        # required jobs are repaired: the directory holding their payload now validates
        for i in required:
            p = cls[i][2]
            now = [x for x, (_, _, pp) in cls2.items() if pp == p]
            if not now or now[0] in bad2:
                oracle.append("repair() did not restore damaged job %s although its state point is known (%s); still damaged: %s, repair reported %s" % (
                    i, "cache" if i in cache_ids else "intact file in a misnamed directory", bad2, rep))
        try:
            signac.Project(path).check()
            rep2 = []
        except JobsCorruptedError as e:
            rep2 = sorted(e.job_ids)
        if rep2 != bad2:
            oracle.append("after repair check() names %s, damaged: %s" % (rep2, bad2))
        # strong reading of "restores" when the state points were known from the cache: a payload must sit under
        # the id of the state point it belonged to (F-9b)
        for i, (k, v, p) in cls2.items():
            if p and i not in bad2 and case["cache"]:
                owner = [o for o, pp in orig_payload_owner.items() if pp == p]
                if owner and owner[0] != i and cls2[i][0] == "valid" and tagged(cls2[i][1]) != tagged(sps[p - 1]):
                    oracle.append("KNOWN[F-9b] after repair job %s validates but holds the document/files of job %s" % (i, owner[0]))
        mops += ["session", "order " + " ".join("S" + hx(n) for n in listing if n in cls), "repair", "ucache"]
        itoks += ["ok:%s:%s" % (",".join(sorted(ids)) if case["cache"] else "-", ",".join(sorted(cls))), "ok",
                  "repair=%s;%s" % (",".join(rep), ws_token(cls2)), None]
        cache_after, _ = _read_cache_file(path)
        itoks[-1] = "%s:%s:%s" % (uc_tok, "-" if cache_after is None else ",".join(sorted(cache_after)), ",".join(sorted(cls2)))
        for i, tok in zip(sorted(cls2), post_toks):
            mops += ["session", "openid S" + hx(i)]
            itoks += ["ok:%s:%s" % ("-" if cache_after is None else ",".join(sorted(cache_after)), ",".join(sorted(cls2))), tok]
    finally:
        ctx.cleanup(path)
    key = json.dumps([case["sps"], case["damages"], case["cache"]], sort_keys=True) if bad else None
    strict = [f for f in oracle if not f.startswith("KNOWN[")]
    return {"model": ["run " + " | ".join(mops)] if model_ok else [], "impl": [" ".join(itoks)] if model_ok else [],
            "oracle": (strict or oracle)[:5], "tags": sorted(tags), "key": key}


def known_class(case, result):
    fs = result.get("oracle") or []
    if fs and all(f.startswith("KNOWN[F-9b]") for f in fs):
        return "F-9b"
    return None

"""C16 — export then import reproduces the project (DESIGN §4 C16).

Every case builds a real project (0-12 jobs, state points from universes that collide textually,
documents, nested files), exports it with the real `Project.export_to` to a directory / zip / tar
(+ compressed) target under a path specification, re-imports it with `Project.import_from` into a
second project (optionally holding some of the jobs already) under an import schema, and

* compares with the Lean model (driver drv_ie): automatic paths per job, the accepted path list or
  the error kind, the two export checks, the member list read back with zipfile / tarfile / os.walk,
  the re-imported project (ids, per file content class), the schema-string parser;
* evaluates the property itself, without the model (`oracle`): round trip exact or nothing copied,
  accepted paths are injective and prefix-free, source snapshot unchanged, nothing written outside
  the target / the job directories, existing jobs never touched.
"""
import hashlib
import itertools
import json
import zlib
import os
import posixpath
import random
import re
import shutil
import tarfile
import warnings
import zipfile

from harness import gen
from harness.core import enc_val, exc_name, hx, tagged, tree_snapshot

ID = "C16"
TITLE = "Export then import reproduces the project; nothing dropped, merged or misplaced"
LEAN_MODULE = "Signac.Properties.C16"
DRIVER = "drv_ie"
DESIGN_REF = "DESIGN.md §4 C16"
RULE = ("real projects of 0-12 jobs over textually colliding universes (1/10/100, 1/1.0/'1', True/'True', "
        "prefix keys a/ab/a_b, nested keys n.x/n.y, heterogeneous key sets, strings with spaces / dots / "
        "separators / empty, lists) with documents and nested files x target in {dir, zip, tar, tar.gz, "
        "tar.bz2, tar.xz} x path in {None, False, format strings incl. {{auto}} / {{auto:sep}} / {job.sp.k} / "
        "{job.id}, tabulated callables chosen to collide} x schema in {None, schema string derived from the "
        "layout, tabulated callable (exact / one wrong / type-confused / partial)} x optional pre-existing jobs "
        "in the importing project (then also user copy functions failing with EXDEV / EIO / ENOSPC) x empty sub-directories in ~10% of the jobs x a few paths that leave the target or "
        "are not in normal form ('../y', 'd/../../y', absolute, 'c//d', 'b/.', ''), in 15% of the directory round trips one data file is a relative symbolic link leaving the job directory, 8% of the exports placed inside the importing project's directory under a name that starts like its workspace; an import under an inexact schema that returns must have filed every job under the hash of the state point it holds; plus direct cases for the schema-string parser and normpath/join; distinct = "
        "distinct (state points, target, path, schema, pre) ; non-trivial = at least one job")
MODELLED = ["zipfile / tarfile / shutil.copytree / os.walk byte level behaviour (only the member list and the "
            "copied file set are compared)",
            "CPython str.format / Formatter.parse (format strings enter the model as resolved field lists)",
            "CPython re (schema regex) for the fragment 'literal or one {key[:type]} field per path component'",
            "float(repr(x)) == x and repr of plain decimals (hypothesis of schema_string_roundtrip)",
            "calc_id (C01) as the map state point -> job id; MD5 collision-freeness"]
ASSUMPTIONS = ["state points are JSON objects; no key contains '.', '/', '{' or '}', no value contains braces; values that are "
               "absolute paths or start with '..' occur only where they START the export path (callable, '{a}', automatic "
               "path of an absolute value); a '..' in the middle of a path is not generated",
               "no float value equals -1.0 or -2.0 (CPython hash(-1) quirk of signac's _float wrapper is not modelled)",
               "schema strings: ASCII, one literal or one {key[:type]} field per '/'-separated component",
               "format-string fields are only used on scalar-valued keys"]
EXHAUSTIVE = {"quick": False, "thorough": False}
TECHNIQUE = ("Lean 4 theorems about an executable model of signac/import_export.py (path functions, export checks, "
             "member lists, the three import analysers, schema strings) + differential correspondence of the "
             "compiled model against real export_to / import_from round trips + a model-independent round-trip oracle")
LEVEL_TEXT = ("Proved in Lean for all projects, all path lists and every hash function (state point -> id): "
              "(1) valid_paths_roundtrip (headline: every project without empty path components, every prefix-free path list, "
              "every target kind - zip under NoEmptyDirs, finding F-16e -: export then import = identity), "
              "valid_paths_roundtrip_dir_anyorder (directory import under ANY duplicate-free parents-first visiting order, which "
              "os.walk(topdown=True) always is), valid_paths_roundtrip_tar (unconditional), valid_paths_roundtrip_multi (two or more jobs, every target), "
              "valid_paths_roundtrip_subdirs, valid_paths_roundtrip_partial and the older _{zip,tar,dir}_partial: if the export "
              "paths are injective and component-wise prefix-free, importing the exported member list into an empty project with the zip, the tar and the "
              "directory analyser (for every admissible os.walk order) raises nothing and gives back exactly the exported "
              "jobs - same ids, same state point, document and file members, no id twice; (2) export_checks_sound / "
              "export_accepts_sound: whatever passes the uniqueness check and the two-pass leaf/node check is injective and "
              "prefix-free; export_under_target / export_complete: members are exactly the jobs' files below their paths; "
              "(3) import_no_overwrite_{zip,tar,dir}: an id the destination already holds gives DestinationExistsError "
              "(zip/tar: destination unchanged, nothing written); raise_before_copy_zip; import_safe_{zip,tar,dir} for EVERY "
              "archive, schema and destination: existing jobs stay as they are, no id is added twice, every write is "
              "workspace/<new id>/<rel> without '..'; (4) schema_string_roundtrip(_flat): a schema of literal and "
              "{key[:type]} components parses the path it lays out back to the addressed values (the state point itself in "
              "the flat case) for ints, word-like strings, bools, and floats under float(repr x) = x; (5) witnesses that the "
              "one-pass leaf/node check and the string-prefix zip test of the pinned tree are wrong. The executable model is "
              "compared with real export_to / import_from on every generated round trip (paths, checks, member lists read "
              "back with zipfile/tarfile/os.walk, re-imported project, schema parser).")
LEVEL_NOTE = ("State-point files nested inside a job (a copied job directory) are covered: the proofs use that every analyser "
              "visits parents first and never looks below a recognised job. Remaining hypotheses: zip needs NoEmptyDirs; a single "
              "job exported to the target root needs TopNamed (no path component '' at the top - the counter-example "
              "valid_paths_roundtrip_nested_false is a directory literally named '', a model artefact); import_no_overwrite_*_nested / "
              "import_no_overwrite (all targets) no longer need NoNestedSp. "
              "The zip theorems additionally need NoEmptyDirs: zip export does not store empty sub-directories (known "
              "finding F-16e, current behaviour modelled, valid_paths_roundtrip_full_false proves the full statement false "
              "from that witness; carve-out = zip target AND a job with an empty sub-directory AND only such directories "
              "missing). The model mirrors the code after the fix commits for F-16a/b/c/d and the fix commit for F-16f "
              "(paths checked after normalisation, nothing may leave the target). 'Export leaves the source "
              "unchanged' is not a theorem (export is a pure function of the project in the model); it is checked by byte "
              "snapshots on every case. schema_string_roundtrip is stated on path components, not on the joined string. "
              "Not proved / trusted: archive byte formats and compression, str.format and Formatter.parse, the regex "
              "engine (hand-written matchers for the four RE_TYPES, pinned to the extracted patterns), os.walk order "
              "(an input of the model), copytree callables other than the default, Windows separators, calc_id = MD5 "
              "collision freeness.")

FN_SP = "signac_statepoint.json"
FN_DOC = "signac_job_document.json"
TARGET_EXT = {"dir": "", "zip": ".zip", "tar": ".tar", "tar.gz": ".tar.gz", "tar.bz2": ".tar.bz2", "tar.xz": ".tar.xz"}
TARGETS = list(TARGET_EXT)


def model_target(t):
    return "dir" if t == "dir" else ("zip" if t == "zip" else "tar")


# ----------------------------------------------------------------------------------------------
# generators
# ----------------------------------------------------------------------------------------------
POOLS = {
    "pow10": [1, 10, 100, 2, 0],
    "one": [1, 1.0, "1", True, "True", "1.0", "10"],
    "bool": [True, False, "True", "False", None, "None", 1, 0],
    "strs": ["x", "x y", "x.y", "x/y", "", ".", "x/y/z", "y", "xy", "x_y", "a"],
    "flt": [0.5, 1.5, 10.0, 0.25, 2, 1e-05, 100.0],
    "list": [[1, 2], [1], [], ["a"], [1.0], [True], [1, [2]], 1],
    "word": ["x", "y", "xy", "x_y", "X1", "True", "1", "a"],
    "int": [1, 10, 100, -3, 7, 0],
}
KEYSETS = [["a"], ["a", "b"], ["a", "ab"], ["a", "a_b", "b"], ["a", "n.x"], ["n.x", "n.y"], ["a", "n.x", "n.y"],
           ["b", "a"], ["ab", "a", "b"]]
CALL_POOL = ["x", "y", "x/y", "x/yy", "xy", "x/y/z", "a/1", "a/10", "a/100", "a/1/b", "p q/r", "a", "a/1.0",
             "x/y/zz", "b/1", "a/2"]
SEPS = ["_", "-", ".", "/", "__", ""]
LITS = ["data", "k", "x_", "pre.v1", "a", "run-1", "p q"]


def _set_dotted(d, key, v):
    toks = key.split(".")
    for t in toks[:-1]:
        nxt = d.get(t)
        if not isinstance(nxt, dict):
            nxt = d[t] = {}
        d = nxt
    d[toks[-1]] = v


def _get_dotted(d, key):
    for t in key.split("."):
        if not isinstance(d, dict) or t not in d:
            return KeyError
        d = d[t]
    return d


def gen_statepoints(rng, n, keys=None, pools=None, hetero=None):
    keys = keys or rng.choice(KEYSETS)
    pools = pools or {k: POOLS[rng.choice(list(POOLS))] for k in keys}
    hetero = rng.random() < 0.2 if hetero is None else hetero
    sps, seen = [], set()
    tries = 0
    while len(sps) < n and tries < 60:
        tries += 1
        sp = {}
        for k in keys:
            if hetero and rng.random() < 0.25:
                continue
            _set_dotted(sp, k, rng.choice(pools[k]))
        if hetero and rng.random() < 0.1 and "n" in sp:
            sp["n"] = rng.choice([1, "x"])      # scalar where other jobs hold a mapping
        if rng.random() < 0.04:
            sp = {}
        t = tagged(sp)
        if t in seen:
            continue
        seen.add(t)
        sps.append(sp)
    return sps


def gen_files(rng, i):
    files = {}
    for _ in range(rng.choice([0, 0, 1, 1, 2, 3])):
        p = rng.choice(["f.txt", "g.dat", "sub/f.txt", "sub/deep/h.bin", "sub2/x", "a/1", "data/out.log", "sub/g"])
        files[p] = "%d:%s:%d" % (i, p, rng.randrange(3))
    if rng.random() < 0.03:
        files["sub/" + FN_SP] = "not json %d" % i
    # a file cannot also be a directory
    for p in list(files):
        if any(q != p and q.startswith(p + "/") for q in files):
            del files[p]
    return files


def gen_dirs(rng, files):
    """empty sub-directories (F-16e): names that are neither files nor ancestors / descendants of files"""
    if rng.random() > 0.1:
        return []
    out = []
    for d in rng.sample(["emptydir", "sub/e", "sub2", "data/tmp"], rng.choice([1, 1, 2])):
        if any(p == d or p.startswith(d + "/") or d.startswith(p + "/") for p in files):
            continue
        if any(o.startswith(d + "/") or d.startswith(o + "/") for o in out):
            continue
        out.append(d)
    return out


ESC_ROOT = "/dev/shm/c16esc_"


def gen_doc(rng, i):
    r = rng.random()
    if r < 0.4:
        return None
    if r < 0.6:
        return {"i": i}
    return {"i": i % 3, "s": rng.choice(["x", "é", "1"]), "n": {"l": [1, 2.5, None]}}


def scalar_ok_for_field(v, strict=True):
    return not isinstance(v, (dict, list)) and (not strict or (v != "" and v != "." and not str(v).startswith(("/", ".."))))


def field_keys(sps, strict=True):
    """dotted keys that may appear as explicit format fields (strict: values keep the path in normal form)"""
    cand = {}
    for sp in sps:
        for k in ["a", "b", "ab", "a_b", "n.x", "n.y"]:
            v = _get_dotted(sp, k)
            if v is KeyError:
                continue
            cand.setdefault(k, []).append(v)
    return [k for k, vs in cand.items() if all(scalar_ok_for_field(v, strict) for v in vs)]


def gen_fmt(rng, sps):
    fk = field_keys(sps, strict=rng.random() < 0.8)
    pieces = []
    style = rng.randrange(8)
    k1 = rng.choice(fk) if fk else None
    k2 = rng.choice(fk) if fk else None
    auto = ["A"] if rng.random() < 0.6 else ["U", rng.choice(SEPS)]
    if style == 0 or k1 is None:
        pieces = [auto] if rng.random() < 0.5 else [["L", rng.choice(LITS) + "/"], auto]
    elif style == 1:
        pieces = [["K", k1], ["L", "/"], auto]
    elif style == 2:
        pieces = [["L", rng.choice(LITS) + "_"], ["K", k1], ["L", "/"], auto]
    elif style == 3:
        pieces = [["K", k1]]
    elif style == 4:
        pieces = [["L", k1.replace(".", "_") + "/"], ["K", k1], ["L", "/" + k2.replace(".", "_") + "/"], ["K", k2]]
    elif style == 5:
        pieces = [["Q", k1], ["L", "/"], auto]
    elif style == 6:
        pieces = [["K", k1], ["L", "/id/"], ["I"]]
    else:
        pieces = [["K", k1], ["L", "_"], ["K", k2]]
    return pieces


def fmt_string(pieces):
    out = []
    for p in pieces:
        if p[0] == "L":
            out.append(p[1])
        elif p[0] == "K":
            out.append("{%s}" % p[1])
        elif p[0] == "Q":
            out.append("{job.sp.%s}" % p[1])
        elif p[0] == "I":
            out.append("{job.id}")
        elif p[0] == "A":
            out.append("{{auto}}")
        elif p[0] == "U":
            out.append("{{auto:%s}}" % p[1])
    return "".join(out)


def py_type_tag(v):
    if isinstance(v, bool):
        return "bool"
    if isinstance(v, int):
        return "int"
    if isinstance(v, float):
        return "float"
    if isinstance(v, str):
        return "str"
    return None


RE_WORD = re.compile(r"[A-Za-z0-9_]+\Z")
RE_DEC = re.compile(r"[+-]?([0-9]*[\.])?[0-9]+\Z")


def representable(v, ty):
    if ty == "int":
        return type(v) is int
    if ty == "bool":
        return type(v) is bool
    if ty == "str":
        return type(v) is str and bool(RE_WORD.match(v))
    if ty == "float":
        return type(v) is float and bool(RE_DEC.match(repr(v))) and v not in (-1.0, -2.0)
    return False


def gen_layout_case(rng, n):
    """homogeneous project + layout 'lit/{key}/...' + the schema string that describes it"""
    keys = rng.choice([["a"], ["a", "b"], ["a", "n.x"], ["ab", "a"], ["n.x", "n.y"]])
    mixed = rng.random() < 0.25
    pools = {}
    types = {}
    for k in keys:
        ty = rng.choice(["int", "str", "float", "bool"])
        types[k] = ty
        pool = {"int": POOLS["int"], "str": POOLS["word"], "float": [0.5, 1.5, 10.0, 0.25, 100.0, 3.0],
                "bool": [True, False]}[ty]
        if mixed and rng.random() < 0.5:
            pool = pool + rng.choice([["x y"], [1, "1"], [1.0, 1], ["True", True], [1e-05]])
        pools[k] = pool
    sps = gen_statepoints(rng, n, keys=keys, pools=pools, hetero=False)
    layout = []
    for k in keys:
        if rng.random() < 0.7:
            layout.append(["L", k.replace(".", "_")])
        layout.append(["F", k, types[k] if rng.random() < 0.85 else rng.choice(["int", "str", "float", "bool", ""])])
    if rng.random() < 0.3:
        layout.insert(0, ["L", rng.choice(["data", "pre.v1", "run-1"])])
    pieces = []
    for i, c in enumerate(layout):
        if i:
            pieces.append(["L", "/"])
        pieces.append(["L", c[1]] if c[0] == "L" else ["K", c[1]])
    schema = "/".join(c[1] if c[0] == "L" else ("{%s:%s}" % (c[1], c[2]) if c[2] else "{%s}" % c[1]) for c in layout)
    return sps, pieces, schema, layout


def make_case(rng, n=None, target=None):
    n = rng.choice([0, 1, 1, 2, 2, 3, 3, 4, 5, 6, 8, 10, 12]) if n is None else n
    target = target or rng.choice(TARGETS)
    r = rng.random()
    schema = {"kind": "none"}
    if r < 0.18 and n >= 1:
        sps, pieces, sstr, layout = gen_layout_case(rng, n)
        path = {"kind": "fmt", "pieces": pieces}
        schema = {"kind": "str", "s": sstr, "layout": layout}
    else:
        sps = gen_statepoints(rng, n)
        q = rng.random()
        if q < 0.42:
            path = {"kind": "none"}
        elif q < 0.5:
            path = {"kind": "id"}
        elif q < 0.85:
            path = {"kind": "fmt", "pieces": gen_fmt(rng, sps)}
        else:
            path = {"kind": "call", "table": [rng.choice(CALL_POOL) for _ in sps]}
        if rng.random() < 0.22:
            schema = {"kind": "call", "mode": rng.choice(["exact", "exact", "wrong", "typeconf", "partial"])}
    if sps and schema["kind"] != "str" and rng.random() < 0.05:
        # F-16f: a path that leads out of the target ('..', absolute) — a few only, and only where the
        # offending text starts the path or climbs out from the middle ('d/../../y')
        i = rng.randrange(len(sps))
        mode = rng.choice(["call", "abs-auto", "field"])
        if mode == "call":
            esc = rng.choice(["../y", "..", ESC_ROOT + "%d/x" % rng.randrange(10 ** 9), "../../z", "d/../../y", "p/q/../../../w/x"])
            table = [rng.choice(CALL_POOL) for _ in sps]
            table[i] = esc
            path = {"kind": "call", "table": table}
        else:
            esc = ESC_ROOT + "%d/x" % rng.randrange(10 ** 9) if mode == "abs-auto" else rng.choice(["../y", "..", "../../z", "d/../../y", "p/q/../../../w/x"])
            sp = dict(sps[i])
            sp["a"] = esc
            if tagged(sp) not in [tagged(o) for o in sps]:
                sps[i] = sp
            if all(scalar_ok_for_field(o.get("a", 0), strict=False) for o in sps):
                path = {"kind": "none"} if mode == "abs-auto" else {"kind": "fmt", "pieces": [["K", "a"]]}
            else:
                sps[i] = {k: v for k, v in sp.items() if k != "a"} if tagged({k: v for k, v in sp.items() if k != "a"}) not in [tagged(o) for o in sps] else sps[i]
                if any(o.get("a") == esc for o in sps):
                    path = {"kind": "id"}
        if schema["kind"] == "call":
            schema = {"kind": "none"}
    jobs = [{"sp": sp, "doc": gen_doc(rng, i), "files": gen_files(rng, i)} for i, sp in enumerate(sps)]
    for j in jobs:
        d = gen_dirs(rng, j["files"])
        if d:
            j["dirs"] = d
    pre = []
    if jobs and schema["kind"] in ("none",) and rng.random() < 0.15:
        pre = sorted(rng.sample(range(len(jobs)), min(len(jobs), rng.choice([1, 1, 2]))))
    case = {"k": "rt", "jobs": jobs, "target": target, "path": path, "schema": schema, "pre": pre}
    if rng.random() < 0.08:
        case["where"] = "beside-ws"
    if target == "dir" and path["kind"] != "none" or target == "dir" and rng.random() < 0.5:
        if rng.random() < 0.15 and any(j["files"] for j in jobs):
            case["link"] = True
    return case


# hand-picked cases: the shapes DESIGN §5 lists, and their harmless neighbours
def fixed_cases():
    J = lambda *sps: [{"sp": sp, "doc": {"i": i}, "files": {"sub/f.txt": "f%d" % i, "g": "g%d" % i}} for i, sp in enumerate(sps)]
    for t in TARGETS:
        yield {"k": "rt", "jobs": J({"a": 1}, {"a": 10}, {"a": 100}), "target": t, "path": {"kind": "none"},
               "schema": {"kind": "none"}, "pre": []}
        yield {"k": "rt", "jobs": J({"a": 1}), "target": t, "path": {"kind": "none"}, "schema": {"kind": "none"}, "pre": []}
        yield {"k": "rt", "jobs": J({"a": 1}, {"a": 2}), "target": t, "path": {"kind": "none"}, "schema": {"kind": "none"},
               "pre": [], "where": "beside-ws"}
        if t == "dir":
            yield {"k": "rt", "jobs": [{"sp": {"a": 1}, "doc": None, "files": {"ref.dat": "r"}},
                                       {"sp": {"a": 2}, "doc": None, "files": {"sub/x.txt": "x"}}],
                   "target": t, "path": {"kind": "none"}, "schema": {"kind": "none"}, "pre": [], "link": True}
        yield {"k": "rt", "jobs": J(), "target": t, "path": {"kind": "none"}, "schema": {"kind": "none"}, "pre": []}
    for t in ["dir", "zip", "tar"]:
        yield {"k": "rt", "jobs": J({"a": 1}, {"a": "1"}, {"a": 2}), "target": t, "path": {"kind": "none"},
               "schema": {"kind": "none"}, "pre": []}
        yield {"k": "rt", "jobs": J({"a": True}, {"a": "True"}), "target": t, "path": {"kind": "none"},
               "schema": {"kind": "none"}, "pre": []}
        for tab in (["x", "x/y"], ["x/y", "x"], ["x", "x"], ["x", "xy"], ["a/1", "a/10"]):
            yield {"k": "rt", "jobs": J({"a": 1}, {"a": 2}), "target": t, "path": {"kind": "call", "table": tab},
                   "schema": {"kind": "none"}, "pre": []}
        yield {"k": "rt", "jobs": J({"a": ""}, {"a": "x"}), "target": t, "path": {"kind": "none"},
               "schema": {"kind": "none"}, "pre": []}
        yield {"k": "rt", "jobs": J({"a": 1}, {"a": 2}), "target": t, "path": {"kind": "none"},
               "schema": {"kind": "none"}, "pre": [1]}
        yield {"k": "rt", "jobs": J({"a": 1, "b": "x"}, {"a": 2, "b": "y"}), "target": t,
               "path": {"kind": "fmt", "pieces": [["L", "a"], ["L", "/"], ["K", "a"], ["L", "/"], ["L", "b"], ["L", "/"], ["K", "b"]]},
               "schema": {"kind": "str", "s": "a/{a:int}/b/{b}", "layout": [["L", "a"], ["F", "a", "int"], ["L", "b"], ["F", "b", ""]]},
               "pre": []}


def fixed_cases_ef():
    J = lambda *sps: [{"sp": sp, "doc": None, "files": {"g": "g%d" % i}} for i, sp in enumerate(sps)]
    for t in ["dir", "zip", "tar", "tar.gz"]:
        jobs = J({"a": 1}, {"a": 2})
        jobs[0]["dirs"] = ["emptydir"]
        yield {"k": "rt", "jobs": jobs, "target": t, "path": {"kind": "none"}, "schema": {"kind": "none"}, "pre": []}
        for tab in (["../y", "z"], ["b", "b/."], ["b/", "b"], ["", "z"], [ESC_ROOT + "fixed%s/x" % t.replace(".", ""), "z"], ["c//d", "c/e/"], ["c//d", "c/d"], ["c/./d", "c/d"]):
            yield {"k": "rt", "jobs": J({"a": 1}, {"a": 2}), "target": t, "path": {"kind": "call", "table": tab},
                   "schema": {"kind": "none"}, "pre": []}
        yield {"k": "rt", "jobs": J({"a": "../y"}, {"a": "z"}), "target": t,
               "path": {"kind": "fmt", "pieces": [["K", "a"]]}, "schema": {"kind": "none"}, "pre": []}
        yield {"k": "rt", "jobs": J({"a": ""}, {"a": "."}), "target": t,
               "path": {"kind": "fmt", "pieces": [["L", "k/"], ["K", "a"]]}, "schema": {"kind": "none"}, "pre": []}


PARSE_SCHEMAS = ["a/{a:int}", "{a:float}", "a/{a}/b/{b:bool}", "{n.x:int}/{n.y:str}", "pre.v1/{a:str}", "{a:int}/x",
                 "k/{a:bool}", "{a:float}/{b:int}"]
PARSE_ATOMS = ["1", "+5", "-3", "007", "1.5", ".5", "1.", "-0.0", "1.50", "0.1", "10.0", "100", "1e5", "True", "true",
               "FALSE", "0", "abc_1", "a b", "x.y", "", "3.14159", "123456.789", "0.000125", "+.25", "x"]


def gen_parse_case(rng):
    schema = rng.choice(PARSE_SCHEMAS)
    paths = []
    for _ in range(6):
        comps = []
        for c in schema.split("/"):
            if c.startswith("{"):
                comps.append(rng.choice(PARSE_ATOMS))
            else:
                comps.append(c if rng.random() < 0.9 else rng.choice(["x", c + "x"]))
        if rng.random() < 0.1:
            comps.append(rng.choice(PARSE_ATOMS))
        if rng.random() < 0.1 and comps:
            comps.pop()
        paths.append("/".join(comps))
    return {"k": "parse", "schema": schema, "paths": paths}


PATH_ATOMS = ["a", "b", "", ".", "..", "x y", "a.b", "/", "//", "a/", "/a", "a//b", "c/./d", "e/../f"]


def gen_str_case(rng):
    norms = ["/".join(rng.choice(PATH_ATOMS) for _ in range(rng.randint(1, 4))) for _ in range(4)]
    joins = [[rng.choice(PATH_ATOMS) for _ in range(rng.randint(1, 4))] for _ in range(4)]
    lists = [[rng.choice(CALL_POOL + ["", "x/", "x//y"]) for _ in range(rng.randint(0, 5))] for _ in range(4)]
    return {"k": "str", "norm": norms, "join": joins, "lists": lists}


def generate(tier, rng):
    n_rt = 6000 if tier == "quick" else 30000
    n_parse = 400 if tier == "quick" else 3000
    n_str = 150 if tier == "quick" else 1500
    for c in fixed_cases():
        yield c
    for c in fixed_cases_ef():
        yield c
    for _ in range(n_rt):
        yield make_case(rng)
    for _ in range(n_parse):
        yield gen_parse_case(rng)
    for _ in range(n_str):
        yield gen_str_case(rng)


def search(rng, deadline):
    while True:
        yield make_case(rng)


def shrink(case):
    if case.get("k") != "rt":
        return
    jobs = case["jobs"]
    for i in range(len(jobs)):
        c = dict(case, jobs=jobs[:i] + jobs[i + 1:], pre=[])
        if c["path"]["kind"] == "call":
            t = c["path"]["table"]
            c["path"] = dict(c["path"], table=t[:i] + t[i + 1:])
        yield c
    if case["pre"]:
        yield dict(case, pre=[])
    if case["schema"]["kind"] != "none":
        yield dict(case, schema={"kind": "none"})
    if case["path"]["kind"] not in ("none",) and case["schema"]["kind"] == "none":
        yield dict(case, path={"kind": "none"})
    for i, j in enumerate(jobs):
        if j["files"]:
            yield dict(case, jobs=jobs[:i] + [dict(j, files={})] + jobs[i + 1:])
        if j["doc"] is not None:
            yield dict(case, jobs=jobs[:i] + [dict(j, doc=None)] + jobs[i + 1:])
        if j.get("dirs"):
            yield dict(case, jobs=jobs[:i] + [{k: v for k, v in j.items() if k != "dirs"}] + jobs[i + 1:])
    for i, j in enumerate(jobs):
        for k in list(j["sp"]):
            sp = dict(j["sp"])
            del sp[k]
            others = [tagged(o["sp"]) for o in jobs[:i] + jobs[i + 1:]]
            if tagged(sp) not in others:
                yield dict(case, jobs=jobs[:i] + [dict(j, sp=sp)] + jobs[i + 1:])


# ----------------------------------------------------------------------------------------------
# helpers for run_case
# ----------------------------------------------------------------------------------------------
def kind_of(e):
    """exception kind as the model names it"""
    import signac.errors as E

    if isinstance(e, E.DestinationExistsError):
        return "DestinationExistsError"
    if isinstance(e, E.StatepointParsingError):
        return "StatepointParsingError"
    if isinstance(e, E.JobsCorruptedError):
        return "JobsCorruptedError"
    if isinstance(e, RuntimeError):
        return "RuntimeError"
    if isinstance(e, ValueError):
        return "ValueError"
    return exc_name(e)


def files_of_dir(root):
    """relative paths (posix) -> bytes for every file below root, -> None for every EMPTY sub-directory"""
    out = {}
    for dp, dns, fns in os.walk(root):
        if not dns and not fns and dp != root:
            out[os.path.relpath(dp, root).replace(os.sep, "/")] = None
        for fn in fns:
            full = os.path.join(dp, fn)
            rel = os.path.relpath(full, root).replace(os.sep, "/")
            with open(full, "rb") as f:
                out[rel] = f.read()
    return out


def empty_dirs(root):
    out = []
    for dp, dns, fns in os.walk(root):
        if not dns and not fns and dp != root:
            out.append(os.path.relpath(dp, root))
    return out


def norm_rel(p):
    n = posixpath.normpath(p) if p != "" else "."
    return "" if n == "." else n


def comps_of(p):
    n = norm_rel(p)
    return [] if n == "" else n.split("/")


def is_prefix(a, b):
    return len(a) <= len(b) and b[:len(a)] == a


def paths_conflict(dsts):
    """pairs of accepted export paths that denote the same place or nest"""
    cs = [comps_of(d) for d in dsts]
    bad = []
    for i in range(len(cs)):
        for j in range(i + 1, len(cs)):
            if is_prefix(cs[i], cs[j]) or is_prefix(cs[j], cs[i]):
                bad.append((dsts[i], dsts[j]))
    return bad


def paths_conflict_raw(ps):
    """(leaf, longer path) pairs on the raw '/'-split tokens, as the check itself sees them"""
    toks = [p.split("/") for p in ps]
    return [(ps[i], ps[j]) for i in range(len(ps)) for j in range(len(ps))
            if i != j and len(toks[i]) < len(toks[j]) and toks[j][: len(toks[i])] == toks[i]]


def onepass_ok(paths):
    check = set()
    for dst in paths:
        if dst in check:
            return False
        toks = dst.split("/")
        for i in range(1, len(toks)):
            check.add("/".join(toks[:i]))
    return True




def norm_checks_ok(paths):
    """the checks on the normalised paths (below the target, distinct places, root only alone, no leaf/node)"""
    ns = [posixpath.normpath(p) if p != "" else "." for p in paths]
    if any(n.startswith("/") or n.split("/")[0] == ".." for n in ns):
        return False
    if len(set(ns)) < len(ns) or ("." in ns and len(ns) > 1):
        return False
    return not paths_conflict_raw(ns)


def escape_roots(case):
    """absolute places a generated value points to (must never come into existence)"""
    out = set()

    def walk(v):
        if isinstance(v, str) and v.startswith(ESC_ROOT):
            out.add("/".join(v.split("/")[:4]))
        elif isinstance(v, dict):
            for x in v.values():
                walk(x)
        elif isinstance(v, list):
            for x in v:
                walk(x)

    for j in case["jobs"]:
        walk(j["sp"])
    if case["path"]["kind"] == "call":
        walk(case["path"]["table"])
    return sorted(out)


class Labels:
    """bytes -> content class shared with the model: 's' = a job's own state point file, b<n> = other bytes"""

    def __init__(self):
        self.blob = {}

    def add(self, data):
        if data is not None and data not in self.blob:
            self.blob[data] = len(self.blob) + 1

    def of(self, data):
        return "b%d" % self.blob[data] if data in self.blob else "b0"


def sp_label(data, job_id):
    from signac.job import calc_id

    try:
        v = json.loads(data.decode())
        return "s" if isinstance(v, dict) and calc_id(v) == job_id else "x"
    except Exception:
        return "x"


def enc_project_line(jobs):
    """jobs: list of (id, sp, [(relpath, label)])"""
    parts = ["P%d" % len(jobs)]
    for jid, sp, files in jobs:
        parts += ["J", "S" + hx(jid), enc_val(sp), "F%d" % len(files)]
        for p, lab in files:
            parts += ["S" + hx(p), lab]
    return " ".join(parts)


def enc_spec(path, table_by_listing=None):
    k = path["kind"]
    if k == "none":
        return "none"
    if k == "id":
        return "id"
    if k == "fmt":
        ps = path["pieces"]
        toks = []
        for p in ps:
            if p[0] in ("L", "K", "Q", "U"):
                toks.append(p[0] + hx(p[1]))
            else:
                toks.append(p[0])
        return " ".join(["fmt", "N%d" % len(ps)] + toks)
    if k == "call":
        return " ".join(["call", "N%d" % len(table_by_listing)] + ["S" + hx(p) for p in table_by_listing])
    raise ValueError(k)


def render_files(job_id, files, labels):
    items = []
    for p, data in files.items():
        lab = "d" if data is None else (sp_label(data, job_id) if p == FN_SP else labels.of(data))
        items.append((p, lab))
    items.sort()
    return items


def render_project(dirs, labels):
    """dirs: name -> {relpath: bytes}; rendering shared with the driver's showProject"""
    out = []
    for name in sorted(dirs):
        items = render_files(name, dirs[name], labels)
        out += ["J", hx(name), str(len(items))] + ["%s:%s" % (hx(p), lab) for p, lab in items]
    return " ".join(out)


def workspace_dirs(project):
    ws = project.workspace
    out = {}
    if os.path.isdir(ws):
        for name in os.listdir(ws):
            full = os.path.join(ws, name)
            if os.path.isdir(full):
                out[name] = files_of_dir(full)
    return out


def read_members(target, kind):
    """[(name, 'd' | bytes)] as the archive / directory holds them (names normalised)"""
    out = []
    if kind == "dir":
        if os.path.isdir(target):
            for p, data in files_of_dir(target).items():
                out.append((p, "e" if data is None else data))
    elif kind == "zip":
        if os.path.isfile(target):
            with zipfile.ZipFile(target) as z:
                for info in z.infolist():
                    if info.is_dir():
                        out.append((norm_rel(info.filename), "d"))
                    else:
                        out.append((norm_rel(info.filename), z.read(info)))
    else:
        if os.path.isfile(target) and os.path.getsize(target) > 0:
            try:
                t = tarfile.open(target)
            except tarfile.ReadError:      # a failed export leaves a truncated archive behind
                return out
            with t:
                for m in t.getmembers():
                    if m.isdir():
                        out.append((norm_rel(m.name), "d"))
                    elif m.isfile():
                        out.append((norm_rel(m.name), t.extractfile(m).read()))
                    else:
                        out.append((norm_rel(m.name), "?"))
    return out


def snapshot_diff(before, after):
    b = {(p, k): h for p, k, h in before}
    a = {(p, k): h for p, k, h in after}
    changed = sorted(p for (p, k), h in a.items() if b.get((p, k)) != h)
    removed = sorted(p for (p, k) in b if (p, k) not in a)
    return changed, removed


# ----------------------------------------------------------------------------------------------
# run_case
# ----------------------------------------------------------------------------------------------
def run_case(case, ctx):
    k = case.get("k", "rt")
    if k == "parse":
        return run_parse(case)
    if k == "str":
        return run_str(case)
    with warnings.catch_warnings():
        warnings.simplefilter("ignore")
        return run_rt(case, ctx)


def _priv(name):
    """private helper of signac.import_export, or None when a refactoring removed / renamed it
    (the lines that need it are then left out; the round trip itself only uses the public API)"""
    import signac.import_export as ie

    return getattr(ie, name, None)


def run_parse(case):
    _make_path_based_schema_function = _priv("_make_path_based_schema_function")
    if _make_path_based_schema_function is None:
        return {"model": [], "impl": [], "oracle": [], "tags": ["parse-skipped"], "key": None}
    model, impl = [], []
    fn = _make_path_based_schema_function(case["schema"])
    for p in case["paths"]:
        model.append("parse S%s S%s" % (hx(case["schema"]), hx(p)))
        try:
            v = fn(p)
            impl.append("none" if v is None else enc_val(v))
        except Exception as e:
            impl.append("EXC:" + kind_of(e))
    return {"model": model, "impl": impl, "oracle": [], "tags": ["parse"], "key": None}


def run_str(case):
    _check_directory_structure_validity = _priv("_check_directory_structure_validity")

    model, impl, oracle = [], [], []
    for p in case["norm"]:
        model.append("norm S" + hx(p))
        impl.append("S" + hx(posixpath.normpath(p)))
    for toks in case["join"]:
        model.append(" ".join(["join", "N%d" % len(toks)] + ["S" + hx(t) for t in toks]))
        impl.append("S" + hx(posixpath.join(*toks)))
    for ps in (case["lists"] if _check_directory_structure_validity is not None else []):
        model.append(" ".join(["checks", "N%d" % len(ps)] + ["S" + hx(p) for p in ps]))
        try:
            _check_directory_structure_validity(ps)
            real = True
        except RuntimeError:
            real = False
        if real and len(set(ps)) == len(ps) and paths_conflict_raw(ps):
            oracle.append("_check_directory_structure_validity accepted %r although %r is both a leaf and a node" % (
                ps, paths_conflict_raw(ps)[0][0]))
        impl.append("u%d l%d c%d" % (len(set(ps)) == len(ps), real, onepass_ok(ps)))
    return {"model": model, "impl": impl, "oracle": oracle, "tags": ["str"], "key": None}


def run_rt(case, ctx):
    import signac

    _check_directory_structure_validity = _priv("_check_directory_structure_validity")
    _make_path_based_schema_function = _priv("_make_path_based_schema_function")
    _make_schema_based_path_function = _priv("_make_schema_based_path_function")

    S = ctx.fresh_dir("c16")
    model, impl, oracle, tags = [], [], [], []
    info = {}
    try:
        src = signac.init_project(os.path.join(S, "src"))
        dst = signac.init_project(os.path.join(S, "dst"))
        os.makedirs(os.path.join(S, "out"))
        os.makedirs(os.path.join(S, "cwd"))
        kind = case["target"]
        mkind = model_target(kind)
        target = os.path.join(S, "out", "exp" + TARGET_EXT[kind])
        if case.get("where") == "beside-ws":
            # the export lies inside the importing project's directory, next to its workspace, under a name that
            # starts like the workspace's (F-16h: the "already in the workspace" test was a string prefix test)
            target = os.path.join(S, "dst", "workspace_exp" + TARGET_EXT[kind])

        # ---------------- build the source project ----------------
        by_index = {}
        for i, j in enumerate(case["jobs"]):
            job = src.open_job(j["sp"]).init()
            if j["doc"] is not None:
                job.document.update(j["doc"])
            for p, content in j["files"].items():
                full = job.fn(p)
                os.makedirs(os.path.dirname(full), exist_ok=True)
                with open(full, "w") as f:
                    f.write(content)
            for dname in j.get("dirs", []):
                os.makedirs(job.fn(dname), exist_ok=True)
            if case.get("link") and j["files"]:
                # one data file of the job is a relative symbolic link that leaves the job directory (a shared
                # reference file): every reader sees the same bytes, and so must the exported / re-imported job
                p0 = sorted(j["files"])[0]
                shared = os.path.join(src.path, "shared", "ref%d.dat" % i)
                os.makedirs(os.path.dirname(shared), exist_ok=True)
                os.replace(job.fn(p0), shared)
                os.symlink(os.path.relpath(shared, os.path.dirname(job.fn(p0))), job.fn(p0))
            by_index[i] = job.id
        src = signac.Project(src.path)           # fresh handle: no warm caches
        jobs = list(src)                          # listing order = what export sees
        order = [j.id for j in jobs]
        labels = Labels()
        src_files = {}
        for job in jobs:
            fs = files_of_dir(job.path)
            src_files[job.id] = fs
            for p, data in sorted(fs.items()):
                if p != FN_SP:
                    labels.add(data)
        sps = {job.id: job.statepoint() for job in jobs}
        docs = {job.id: tagged(job.document()) if os.path.exists(job.fn(FN_DOC)) else None for job in jobs}

        def proj_line(ids, files_by_id):
            return enc_project_line([(jid, sps[jid], render_files(jid, files_by_id[jid], labels)) for jid in ids])

        P_line = proj_line(order, src_files)

        # ---------------- pre-existing jobs in the importing project ----------------
        pre_ids = []
        for i in case.get("pre", []):
            jid = by_index[i]
            pj = dst.open_job(case["jobs"][i]["sp"]).init()
            with open(pj.fn("keep.txt"), "w") as f:
                f.write("keep %d" % i)
            pre_ids.append(jid)
        dst = signac.Project(dst.path)
        pre_files = {jid: files_of_dir(dst.open_job(id=jid).path) for jid in pre_ids}
        for jid in pre_ids:
            for p, data in pre_files[jid].items():
                if p != FN_SP:
                    labels.add(data)
        D_line = proj_line(sorted(pre_ids), pre_files)

        # ---------------- path specification ----------------
        path = case["path"]
        table_listing = None
        if path["kind"] == "none":
            path_arg = None
        elif path["kind"] == "id":
            path_arg = False
        elif path["kind"] == "fmt":
            path_arg = fmt_string(path["pieces"])
        else:
            tab = {by_index[i]: p for i, p in enumerate(path["table"])}
            table_listing = [tab[jid] for jid in order]
            path_arg = lambda job: tab[job.id]
        spec_line = enc_spec(path, table_listing)

        # ---------------- automatic paths, job by job ----------------
        seps = [None] if path["kind"] != "fmt" else [None] + [p[1] for p in path["pieces"] if p[0] == "U"]
        for sep in (seps if _make_schema_based_path_function is not None else []):
            fn = _make_schema_based_path_function(jobs)
            got = []
            for job in jobs:
                try:
                    got.append("S" + hx(fn(job, sep) if sep is not None else fn(job)))
                except RuntimeError:
                    got.append("!")
            model.append("auto %s %s" % ("A" if sep is None else "U" + hx(sep), P_line))
            impl.append(" ".join(got))
            if sep is None:
                plain = [g for g in got if g != "!"]
                info["auto_dup"] = len(set(plain)) != len(plain)
                info["auto_ok"] = "!" not in got

        # ---------------- export ----------------
        snap_src0 = tree_snapshot(src.path)
        snap_all0 = tree_snapshot(S)
        exp_exc = None
        mapping = None
        try:
            mapping = src.export_to(target, path=path_arg)
        except Exception as e:
            exp_exc = e
        dsts = None
        if mapping is not None:
            dsts = [mapping[job.path] for job in jobs]
        info["dsts"] = dsts
        info["export_exc"] = kind_of(exp_exc) if exp_exc else None
        members = read_members(target, mkind)
        file_members = [(n, d) for n, d in members if d not in ("d", "e")]
        dir_members = sorted(n for n, d in members if d in ("d", "e"))
        esc_roots = escape_roots(case)
        tags.append("target=" + kind)
        if case.get("where"):
            tags.append("target-place=" + case["where"])
        if case.get("link"):
            tags.append("job-file-is-a-link-leaving-the-job")
        tags.append("path=" + path["kind"])
        tags.append("schema=" + case["schema"]["kind"])
        tags.append("njobs=%d" % min(len(jobs), 6))

        model.append("paths %s %s" % (spec_line, P_line))
        impl.append("ok " + " ".join("S" + hx(d) for d in dsts) if dsts is not None else "err " + kind_of(exp_exc))
        impl[-1] = impl[-1].strip()
        if dsts is not None:
            tags.append("export=ok")
        if dsts is not None and _check_directory_structure_validity is not None:
            model.append(" ".join(["checks", "N%d" % len(dsts)] + ["S" + hx(d) for d in dsts]))
            try:
                _check_directory_structure_validity(dsts)
                real_ln = True
            except RuntimeError:
                real_ln = False
            impl.append("u%d l%d c%d" % (len(set(dsts)) == len(dsts), real_ln, onepass_ok(dsts)))
        if dsts is None:
            tags.append("export=" + kind_of(exp_exc))

        in_domain = True
        # the paths, for the classification of known findings only
        class_paths = dsts
        if class_paths is None and _priv("_make_path_function") is not None:
            try:
                pf = path_arg if callable(path_arg) else _priv("_make_path_function")(jobs, path_arg)
                class_paths = [pf(job) for job in jobs]
            except Exception:
                class_paths = None
        info["class_paths"] = class_paths
        info["empty_dirs"] = any(j.get("dirs") for j in case["jobs"])
        model.append("members %s %s %s" % (mkind, spec_line, P_line))
        if dsts is None:
            impl.append("err " + kind_of(exp_exc))
        else:
            src_ids = set(order)
            items = []
            for name, data in members:
                if data in ("d", "e"):
                    items.append((name, data))
                elif name.rsplit("/", 1)[-1] == FN_SP and data not in labels.blob:
                    items.append((name, "s" if any(sp_label(data, jid) == "s" for jid in src_ids) else "x"))
                else:
                    items.append((name, labels.of(data)))
            items.sort()
            impl.append(("ok " + " ".join("%s:%s" % (hx(n), lab) for n, lab in items)).strip())

        # ---- oracle: export ----
        snap_src1 = tree_snapshot(src.path)
        if snap_src1 != snap_src0:
            oracle.append("export changed the source project: %r" % (snapshot_diff(snap_src0, snap_src1),))
        snap_all1 = tree_snapshot(S)
        ch, rm = snapshot_diff(snap_all0, snap_all1)
        tgt_rel = os.path.relpath(target, S)
        outside = [p for p in ch + rm if not (p == tgt_rel or p.startswith(tgt_rel + os.sep))]
        if outside:
            oracle.append("export wrote outside its target %s: %r" % (tgt_rel, outside[:4]))
        for er in esc_roots:
            if os.path.lexists(er):
                oracle.append("export created %s, outside its target" % er)
                shutil.rmtree(er, ignore_errors=True)
        if dsts is not None:
            bad = paths_conflict(dsts) if len(dsts) > 1 else []
            if bad:
                oracle.append("export accepted non-unique or leaf/node-conflicting paths %r (all: %r)" % (bad[:2], dsts))
            want_all = sorted(((posixpath.join(norm_rel(d), p) if norm_rel(d) else p, data)
                               for jid, d in zip(order, dsts) for p, data in src_files[jid].items()),
                              key=lambda t: (t[0], t[1] or b""))
            want = [(n, data) for n, data in want_all if data is not None]
            want_dirs = sorted(n for n, data in want_all if data is None)
            got = sorted(file_members)
            if not bad and got != want:
                oracle.append("exported members differ from the source files: missing %r unexpected %r" % (
                    [n for n, _ in want if n not in dict(got)][:3], [n for n, _ in got if n not in dict(want)][:3]))
            lost = [n for n in want_dirs if n not in dir_members]
            if not bad and lost:
                oracle.append("exported %s lacks the empty director%s %r of the source" % (
                    "tree" if mkind == "dir" else "archive", "y" if len(lost) == 1 else "ies", lost[:3]))
        elif file_members:
            oracle.append("export raised %s after writing %d file(s), e.g. %r" % (
                kind_of(exp_exc), len(file_members), file_members[0][0]))

        # ---------------- import ----------------
        schema = case["schema"]
        schema_arg = None
        schema_line = "none"
        exact_schema = True
        if dsts is not None:
            if schema["kind"] == "str":
                schema_arg = schema["s"]
                schema_line = "str S" + hx(schema["s"])
                lay = [c for c in schema["layout"] if c[0] == "F"]
                for c in lay:
                    ty = c[2] or "str"
                    for sp in sps.values():
                        v = _get_dotted(sp, c[1])
                        if v is KeyError or not representable(v, ty):
                            exact_schema = False
                # the parser, path by path
                pfn = _make_path_based_schema_function(schema["s"]) if _make_path_based_schema_function else None
                for jid, d in (zip(order, dsts) if pfn is not None else []):
                    model.append("parse S%s S%s" % (hx(schema["s"]), hx(d)))
                    v = None
                    try:
                        v = pfn(d)
                        impl.append("none" if v is None else enc_val(v))
                    except Exception as e:
                        impl.append("EXC:" + kind_of(e))
                    if exact_schema:
                        if v is None or tagged(v) != tagged(sps[jid]):
                            oracle.append("schema %r parses the path %r of %r to %r" % (schema["s"], d, sps[jid], v))
                        model.append("render S%s %s" % (hx(schema["s"]), enc_val(sps[jid])))
                        impl.append("S" + hx(d))
            elif schema["kind"] == "call":
                tab = {norm_rel(d): json.loads(json.dumps(sps[jid])) for jid, d in zip(order, dsts)}
                mode = schema["mode"]
                keys = sorted(tab)
                if mode == "wrong" and keys:
                    tab[keys[0]] = {"zz": 1}
                    exact_schema = False
                elif mode == "typeconf" and keys:
                    changed = False
                    for kk in keys:
                        for a, v in list(tab[kk].items()):
                            if type(v) is int and not changed:
                                tab[kk][a] = float(v)
                                changed = True
                    exact_schema = not changed
                elif mode == "partial" and keys:
                    del tab[keys[-1]]
                    exact_schema = False
                origin_real = os.path.realpath(target)

                def schema_arg(p, _tab=tab, _root=target):
                    q = p
                    if os.path.isabs(q):
                        q = os.path.relpath(q, _root)
                    return _tab.get(norm_rel(q.replace(os.sep, "/")))

                ent = sorted(tab.items())
                schema_line = " ".join(["tab", "N%d" % len(ent)] + ["S" + hx(p) + " " + enc_val(v) for p, v in ent])

            walk_line = ""
            if mkind == "dir" and os.path.isdir(target):
                worder = [norm_rel(os.path.relpath(dp, target).replace(os.sep, "/")) for dp, _, _ in os.walk(target)]
                walk_line = " " + " ".join(["W%d" % len(worder)] + ["S" + hx(p) for p in worder])
            snap_all2 = tree_snapshot(S)
            imp_exc = None
            origin = target
            if mkind == "dir" and os.path.isdir(target):
                # the origin directory spelled in a form that is not normalised (same directory)
                tdir, tbase = os.path.split(target)
                variant = zlib.crc32(json.dumps(case, sort_keys=True, default=str).encode()) % 6
                origin = [target, target + os.sep + ".", target + os.sep + os.sep, tdir + os.sep + "." + os.sep + tbase,
                          os.path.join(target, os.pardir, tbase), target][variant]
                tags.append("origin-spelling=%d" % variant)
            try:
                dst.import_from(origin, schema=schema_arg)
            except Exception as e:
                imp_exc = e
            info["import_exc"] = kind_of(imp_exc) if imp_exc else None
            tags.append("import=" + (kind_of(imp_exc) if imp_exc else "ok"))
            after = workspace_dirs(signac.Project(dst.path))
            after = {n: f for n, f in after.items() if f or n in pre_ids}
            shown = after
            model.append("rt %s %s %s %s %s%s" % (mkind, spec_line, schema_line, D_line, P_line, walk_line))
            if True:
                impl.append((("ok " if imp_exc is None else "err %s " % kind_of(imp_exc)) + render_project(shown, labels)).strip())

            # ---- oracle: import ----
            snap_all3 = tree_snapshot(S)
            ch, rm = snapshot_diff(snap_all2, snap_all3)
            ws_rel = os.path.relpath(dst.workspace, S)
            allowed_ids = set(order)
            bad_w = []
            for p in ch + rm:
                parts = p.split(os.sep)
                wparts = ws_rel.split(os.sep)
                if p == ws_rel:
                    continue
                if parts[: len(wparts)] == wparts and len(parts) > len(wparts) and parts[len(wparts)] not in pre_ids \
                        and (parts[len(wparts)] in allowed_ids if exact_schema else re.fullmatch(r"[0-9a-f]{32}", parts[len(wparts)])):
                    continue
                bad_w.append(p)
            if bad_w:
                oracle.append("import wrote outside the job directories of the imported jobs: %r" % (bad_w[:4],))
            for jid in pre_ids:
                if after.get(jid) != pre_files[jid]:
                    oracle.append("import modified the existing job %s" % jid)
            if pre_ids and mkind == "dir" and os.path.isdir(target):
                # a user-supplied copy function (documented: copytree=os.replace / shutil.move) that fails for a
                # reason of its own - other file system, I/O error, disk full - before it looks at the destination:
                # the jobs the project already holds stay as they are
                import errno as _errno
                for eno in (_errno.EXDEV, _errno.EIO, _errno.ENOSPC):
                    def failing_copy(src_, dst_, _e=eno):
                        raise OSError(_e, os.strerror(_e), src_)
                    try:
                        dst.import_from(origin, schema=schema_arg, copytree=failing_copy)
                        r2 = "no error"
                    except Exception as e:  # noqa: BLE001
                        r2 = kind_of(e)
                    after2 = workspace_dirs(signac.Project(dst.path))
                    for jid in pre_ids:
                        if after2.get(jid) != pre_files[jid]:
                            oracle.append("import whose copy function failed with %s (%s) %s the existing job %s" % (
                                _errno.errorcode[eno], r2, "removed" if jid not in after2 else "modified", jid))
                    tags.append("failing-copytree=" + r2)
            if pre_ids:
                if imp_exc is None or kind_of(imp_exc) != "DestinationExistsError":
                    oracle.append("import into a project that already holds %r: %s instead of DestinationExistsError" % (
                        pre_ids, kind_of(imp_exc) if imp_exc else "no error"))
                if mkind != "dir" and set(after) != set(pre_ids):
                    oracle.append("import raised DestinationExistsError after copying %r" % sorted(set(after) - set(pre_ids)))
            elif exact_schema:
                if imp_exc is not None:
                    if after and schema["kind"] == "none":
                        oracle.append("import raised %s after copying %d job dir(s)" % (kind_of(imp_exc), len(after)))
                    elif len(jobs) > 0 and not (mkind == "dir" and len(jobs) == 0):
                        oracle.append("import of an accepted export raised %s: %s" % (kind_of(imp_exc), str(imp_exc)[:120]))
                else:
                    if sorted(after) != sorted(order):
                        oracle.append("re-imported ids %r differ from source ids %r (paths %r)" % (
                            sorted(after), sorted(order), dsts))
                    else:
                        dproj = signac.Project(dst.path)
                        for jid in order:
                            if after[jid] != src_files[jid]:
                                a, b = after[jid], src_files[jid]
                                oracle.append("job %s: files differ after the round trip: missing %r extra %r changed %r" % (
                                    jid, sorted(set(b) - set(a))[:3], sorted(set(a) - set(b))[:3],
                                    sorted(p for p in a if p in b and a[p] != b[p])[:3]))
                                continue
                            dj = dproj.open_job(id=jid)
                            if tagged(dj.statepoint()) != tagged(sps[jid]):
                                oracle.append("job %s: state point %r became %r" % (jid, sps[jid], dj.statepoint()))
                            dd = tagged(dj.document()) if os.path.exists(dj.fn(FN_DOC)) else None
                            if dd != docs[jid]:
                                oracle.append("job %s: document differs after the round trip" % jid)
            elif imp_exc is None:
                # the schema does not describe the export (a table with a wrong / re-typed / missing entry).  Which
                # jobs such an import yields is not judged, but one that RETURNS must not have filed a job under an
                # id that is not the hash of the state point it holds (F-16g: 1 vs 1.0 compare equal)
                import hashlib
                for jid in sorted(after):
                    fn_sp = os.path.join(dst.workspace, jid, "signac_statepoint.json")
                    try:
                        with open(fn_sp) as f:
                            held = json.load(f)
                        hid = hashlib.md5(json.dumps(held, sort_keys=True).encode()).hexdigest()
                    except (OSError, ValueError):
                        held, hid = None, None
                    if hid != jid:
                        oracle.append("import with a schema that does not describe the export returned normally and filed "
                                      "a job under id %s that holds the state point %r (id %s)" % (jid, held, hid))
                tags.append("inexact-schema-import-ok")
            snap_src2 = tree_snapshot(src.path)
            if snap_src2 != snap_src0:
                oracle.append("import changed the source project")
            for er in esc_roots:
                if os.path.lexists(er):
                    oracle.append("import created %s, outside the importing project" % er)
                    shutil.rmtree(er, ignore_errors=True)
        else:
            model.append("rt %s %s %s %s %s" % (mkind, spec_line, "none", D_line, P_line))
            impl.append("export-err " + kind_of(exp_exc))
        if empty_dirs(src.workspace):
            tags.append("empty-dirs")
        keyv = None
        if jobs:
            keyv = [sorted(tagged(sp) for sp in sps.values()), kind, json.dumps(case["path"], sort_keys=True),
                    json.dumps({k: v for k, v in case["schema"].items() if k != "layout"}, sort_keys=True), case.get("pre", []),
                    case.get("where"), case.get("link")]
        if oracle:
            tags.append("oracle-fail")
        return {"model": model, "impl": impl, "oracle": oracle, "tags": tags, "key": keyv, "info": info}
    finally:
        ctx.cleanup(S)


# ----------------------------------------------------------------------------------------------
# known findings — as narrow as the defect
# ----------------------------------------------------------------------------------------------
def known_class(case, r):
    if case.get("k") != "rt":
        return None
    info = r.get("info") or {}
    paths = info.get("class_paths")
    # (F-16f is fixed in /repo: paths are checked after normalisation; no carve-out)
    # F-16e: zip export stores files only; empty sub-directories of a job are lost
    if case["target"] == "zip" and info.get("empty_dirs") and all(
            "empty director" in m or ("files differ after the round trip: missing" in m and m.endswith("extra [] changed []"))
            for m in r.get("oracle", [])):
        return "F-16e"
    return None

"""C20 — incompatible schema versions are refused; migration preserves every job (DESIGN §4 C20).

A case is one legacy / current project configuration out of the product
    layout {signac.rc, .signac/config} x schema_version {absent, 0, 1, 2, 3, 10}
    x project name x workspace_dir flavour x v1 cache x v1 shell history,
with 0-5 jobs (state point, document, nested files), an optional pre-existing project document
and unrelated files.  The project is written by hand (legacy config through the vendored
configobj, so quoting is legitimate), then

  * Project(), get_project(), get_project(search=False), init_project() are called with byte
    snapshots around each            -> `gate` line of the Lean driver;
  * apply_migrations() is called, the resulting root directory is observed token by token
                                      -> `mig` line of the Lean driver (result + final state);
  * after a successful migration it is run again (must be a no-op)     -> second `mig` line.

oracle (no Lean): refusal leaves the tree byte-identical; after a migration that must succeed
the project opens with the real signac and ids / state points / documents / files equal what
the builder wrote; cache / history bytes arrive at their new places; nothing else changes.
"""
import gzip
import hashlib
import io
import itertools
import json
import os
import random
import re
import shutil
from contextlib import redirect_stderr

from harness import core
from harness.core import enc_val, exc_name, hx, tagged, tree_snapshot

ID = "C20"
TITLE = "Incompatible schema versions are refused, and migration preserves every job"
LEAN_MODULE = "Signac.Properties.C20"
DRIVER = "drv_mig"
DESIGN_REF = "DESIGN.md §4 C20"
RULE = ("37 spellings of schema_version (integers with sign / zeros / underscores, decimals, pre-release tags, words) x "
        "layout, each through Project / get_project / init_project / apply_migrations; random ASCII strings against "
        "Python's int(); a legacy project 1-2 levels below a current / legacy / newer project; and the "
        "product of layout {signac.rc, .signac/config} x schema_version {absent,0,1,2,3,10} x 9 project names "
        "(None, plain, spaces, quotes of both kinds, punctuation incl. ',', '#', '=', '[', padded, empty) x "
        "workspace_dir {default, explicit 'workspace', custom, nested custom, custom colliding with an empty / "
        "populated / file 'workspace', custom but missing} x v1 cache x v1 history; 0-5 jobs with documents and "
        "nested files, optional existing project document, unrelated files; quick = the full product six times (6 x 1992 "
        "configurations), thorough = thirty times, with different job sets; distinct = distinct configuration; "
        "non-trivial = at least one job")
MODELLED = ["configobj reading/writing of config files (the harness reads the keys back with the vendored configobj)",
            "os.replace / os.mkdir / BufferedJSONAttrDict save as atomic steps on tokens (no crash points: C11)",
            "filelock: the lock file is created before and removed after, whatever happens"]
ASSUMPTIONS = ["no ~/.signacrc user configuration overriding schema_version",
               "legacy projects are not nested inside an initialised project (get_project would then find that one)",
               "well-formed legacy project = loadable signac.rc with `project`, version 0/1, no .signac directory, "
               "configured workspace directory present if it is not the default",
               "project names are ASCII without line breaks"]
EXHAUSTIVE = {"quick": True, "thorough": True}

VERSIONS = [None, 0, 1, 2, 3, 10]
NAMES = ["None", "plain", "my project", "it's", 'say "hi"', "a, b; c=d #x [s]", "  padded  ", "both ' and \"", ""]
WS_RC = ["default", "explicit", "custom", "nested", "collide-empty", "collide-jobs", "collide-file", "missing",
         "dot-exists", "dotted", "dotdot", "prefixed"]
WS_V2 = ["default", "absent"]
WS_NAME = {"default": None, "explicit": "workspace", "custom": "my_ws", "nested": "data/ws",
           "collide-empty": "my_ws", "collide-jobs": "my_ws", "collide-file": "my_ws", "missing": "my_ws",
           "dot-exists": "my_ws",
           # custom names that merely LOOK like the default one
           "dotted": ".workspace", "dotdot": "..workspace", "prefixed": "workspace.old"}
LOCK = ".SIGNAC_PROJECT_MIGRATION_LOCK"


# ----------------------------------------------------------------------------
# generation
# ----------------------------------------------------------------------------
def all_configs():
    for ver, name, ws, cache, hist in itertools.product(VERSIONS, NAMES, WS_RC, [False, True], [False, True]):
        yield {"layout": "rc", "ver": ver, "name": name, "ws": ws, "cache": cache, "hist": hist}
    for ver, ws, cache, hist in itertools.product(VERSIONS, WS_V2, [False, True], [False, True]):
        yield {"layout": "v2", "ver": ver, "name": "None", "ws": ws, "cache": cache, "hist": hist}


def _finish(cfg, rng):
    c = dict(cfg)
    c["njobs"] = rng.choice([0, 1, 2, 3, 5])
    c["doc"] = rng.random() < 0.5
    c["seed"] = rng.randrange(1 << 30)
    return c


# schema versions as they can be SPELLED in a config file (the value is a string; the code applies int())
VER_SPELLINGS = ["2", "02", "+2", "002", "2.0", "2.1", "2.10", "2.0.1", "2rc1", "2a", "two", "2_0", "2_", "_2", "1_0",
                 "-2", "+-2", "2 0", "1e1", "0x2", "2e0", ".2", "2.", "1.0", "3.0", "1", "01", "+1", "0", "00", "-0",
                 "3", "20", "200", "9999", "18446744073709551618", "-1"]
_PYINT = re.compile(r"^[+-]?[0-9]+(_[0-9]+)*$")


def ref_pyint(s):
    """Independent reading of an ASCII decimal integer literal as Python's int() accepts it (None: ValueError)."""
    t = s.strip(" \t\n\r\x0b\x0c")
    if not _PYINT.match(t):
        return None
    sign = -1 if t[0] == "-" else 1
    n = 0
    for ch in t.lstrip("+-"):
        if ch != "_":
            n = n * 10 + (ord(ch) - 48)
    return sign * n


def generate(tier, rng):
    for layout in ("v2", "rc"):
        for vs in VER_SPELLINGS:
            yield {"kind": "verstr", "layout": layout, "ver_s": vs, "njobs": 2, "seed": 7}
    for _ in range(20 if tier == "quick" else 400):
        alpha = rng.choice(["02_+- \n.", "0123456789_+- \t\n\r\x0b\x0c.ex\x1c\x00", "0129_", "2 +-"])
        yield {"kind": "pyint", "strings": ["".join(rng.choice(alpha) for _ in range(rng.choice([0, 1, 2, 3, 4, 5, 8])))
                                            for _ in range(100)]}
    for ver in (None, 0, 1, 3):
        for probe in ("get_project", "init_project-below", "Project", "get_project-below"):
            yield {"kind": "appear", "ver": ver, "probe": probe, "njobs": 2, "seed": 13}
    for ver in (None, 0, 1):
        for depth in (1, 2):
            for outer in ("current", "legacy", "newer"):
                yield {"kind": "nest", "ver": ver, "depth": depth, "outer": outer, "njobs": 2, "seed": 11}
    cfgs = list(all_configs())
    for rep in range(6 if tier == "quick" else 30):
        for c in cfgs:
            yield _finish(c, rng)


def search(rng, deadline):
    cfgs = list(all_configs())
    while True:
        yield _finish(rng.choice(cfgs), rng)


def shrink(case):
    if case.get("kind") in ("verstr", "nest", "pyint", "appear"):
        return
    if case["njobs"] > 0:
        yield dict(case, njobs=case["njobs"] - 1)
        yield dict(case, njobs=0)
    for k in ("cache", "hist", "doc"):
        if case[k]:
            yield dict(case, **{k: False})
    if case["name"] not in ("plain", "None"):
        yield dict(case, name="plain")
    if case["layout"] == "rc" and case["ws"] not in ("default",):
        yield dict(case, ws="default")


# ----------------------------------------------------------------------------
# building a project by hand
# ----------------------------------------------------------------------------
def job_data(case):
    rng = random.Random(case["seed"])
    jobs = {}
    for i in range(case["njobs"]):
        sp = {"a": i, "b": {"c": "x%d" % rng.randrange(100), "d": [i, 1.5, None, True]}}
        jid = hashlib.md5(json.dumps(sp, sort_keys=True).encode()).hexdigest()
        doc = {"k": i, "nested": {"l": [1, 2, {"m": "é"}]}} if i % 3 != 2 else None
        files = {"out.txt": b"result %d\n" % i}
        if i % 2 == 0:
            files["sub/deep/data.bin"] = bytes(rng.randrange(256) for _ in range(64))
        jobs[jid] = {"sp": sp, "doc": doc, "files": files}
    return jobs


def write_jobs(wsdir, jobs):
    os.makedirs(wsdir, exist_ok=True)
    for jid, j in jobs.items():
        jd = os.path.join(wsdir, jid)
        os.mkdir(jd)
        with open(os.path.join(jd, "signac_statepoint.json"), "w") as f:
            json.dump(j["sp"], f)
        if j["doc"] is not None:
            with open(os.path.join(jd, "signac_job_document.json"), "w") as f:
                json.dump(j["doc"], f)
        for rel, data in j["files"].items():
            fn = os.path.join(jd, rel)
            os.makedirs(os.path.dirname(fn), exist_ok=True)
            with open(fn, "wb") as f:
                f.write(data)


def build(case, d):
    """-> (jobs, name of the configured workspace entry, other jobs sitting in a colliding `workspace`)"""
    from signac._vendor import configobj

    jobs = job_data(case)
    with open(os.path.join(d, "README.txt"), "w") as f:
        f.write("unrelated\n")
    os.makedirs(os.path.join(d, "scripts"))
    with open(os.path.join(d, "scripts", "run.py"), "w") as f:
        f.write("print('hi')\n")
    if case["doc"]:
        with open(os.path.join(d, "signac_project_document.json"), "w") as f:
            json.dump({"existing": {"x": 1}, "n": 5}, f)
    cache_bytes = gzip.compress(json.dumps({jid: j["sp"] for jid, j in jobs.items()}).encode(), mtime=0)
    if case["layout"] == "rc":
        wsname = WS_NAME[case["ws"]] or "workspace"
        if case["ws"] != "missing":
            write_jobs(os.path.join(d, wsname), jobs)
        if case["ws"] == "collide-empty":
            os.mkdir(os.path.join(d, "workspace"))
        elif case["ws"] == "collide-jobs":
            other = dict(case, seed=case["seed"] + 1, njobs=2)
            write_jobs(os.path.join(d, "workspace"), job_data(other))
        elif case["ws"] == "collide-file":
            with open(os.path.join(d, "workspace"), "w") as f:
                f.write("a file called workspace\n")
        elif case["ws"] == "dot-exists":  # not a legacy artefact: the chain breaks half way (no rollback)
            os.mkdir(os.path.join(d, ".signac"))
            with open(os.path.join(d, ".signac", "notes.txt"), "w") as f:
                f.write("something of the user's\n")
        c = configobj.ConfigObj()
        c.filename = os.path.join(d, "signac.rc")
        c["project"] = case["name"]
        if WS_NAME[case["ws"]] is not None:
            c["workspace_dir"] = WS_NAME[case["ws"]]
        if case["ver"] is not None:
            c["schema_version"] = str(case["ver"])
        c.write()
        if case["cache"]:
            with open(os.path.join(d, ".signac_sp_cache.json.gz"), "wb") as f:
                f.write(cache_bytes)
        if case["hist"]:
            with open(os.path.join(d, ".signac_shell_history"), "w") as f:
                f.write("print(project)\nproject.find_jobs()\n")
    else:
        wsname = "workspace"
        os.mkdir(os.path.join(d, ".signac"))
        with open(os.path.join(d, ".signac", "config"), "w") as f:
            if case["ver"] is not None:
                f.write("schema_version = %d\n" % case["ver"])
        if case["ws"] != "absent":
            write_jobs(os.path.join(d, "workspace"), jobs)
        else:
            jobs = {}
        if case["cache"]:
            with open(os.path.join(d, ".signac", "statepoint_cache.json.gz"), "wb") as f:
                f.write(cache_bytes)
        if case["hist"]:
            with open(os.path.join(d, ".signac", "shell_history"), "w") as f:
                f.write("print(project)\n")
    return jobs, wsname


# ----------------------------------------------------------------------------
# observing a project root as the tokens of the Lean state
# ----------------------------------------------------------------------------
def sha(b):
    return hashlib.sha1(b).hexdigest()


def blob_of(path):
    if os.path.isdir(path) and not os.path.islink(path):
        return "dir:" + sha(json.dumps(tree_snapshot(path)).encode())
    with open(path, "rb") as f:
        return "file:" + sha(f.read())


def conf_tokens(fn):
    from signac._vendor import configobj

    if not os.path.isfile(fn):
        return "-"
    c = configobj.ConfigObj(fn)

    def s(k):
        return "s" + hx(c[k]) if k in c and isinstance(c[k], str) else "-"
    v = c.get("schema_version")
    return "C %s %s %s" % ("-" if v is None else int(v), s("project"), s("workspace_dir"))


def fblob(fn):
    if not os.path.isfile(fn):
        return "-"
    with open(fn, "rb") as f:
        return "b" + hx(sha(f.read()))


SPECIAL = ["signac.rc", ".signac", "signac_project_document.json", ".signac_sp_cache.json.gz",
           ".signac_shell_history", LOCK]


def observe(d, tracked):
    ents = [(k, blob_of(os.path.join(d, k))) for k in tracked if os.path.lexists(os.path.join(d, k))]
    docfn = os.path.join(d, "signac_project_document.json")
    if os.path.isfile(docfn):
        with open(docfn) as f:
            doc = "D " + enc_val(json.load(f))
    else:
        doc = "-"
    skip = tuple(tracked) + tuple(SPECIAL)
    rest = [e for e in tree_snapshot(d)
            if not any(e[0] == s or e[0].startswith(s + "/") for s in skip)]
    extra_dot = [e for e in tree_snapshot(d) if e[0].startswith(".signac/")
                 and e[0] not in (".signac/config", ".signac/statepoint_cache.json.gz", ".signac/shell_history")]
    rest_blob = sha(json.dumps(rest + extra_dot).encode())
    toks = [conf_tokens(os.path.join(d, "signac.rc")), conf_tokens(os.path.join(d, ".signac", "config")),
            "1" if os.path.isdir(os.path.join(d, ".signac")) else "0",
            "E", str(len(ents))] + ["%s %s" % (hx(k), hx(b)) for k, b in ents] + [
        doc, fblob(os.path.join(d, ".signac_sp_cache.json.gz")), fblob(os.path.join(d, ".signac_shell_history")),
        fblob(os.path.join(d, ".signac", "statepoint_cache.json.gz")), fblob(os.path.join(d, ".signac", "shell_history")),
        "1" if os.path.lexists(os.path.join(d, LOCK)) else "0", "b" + hx(rest_blob)]
    return " ".join(toks)


def ents_of(state):
    toks = state.split()
    i = toks.index("E")
    n = int(toks[i + 1])
    return [(bytes.fromhex(toks[i + 2 + 2 * j]).decode(), toks[i + 3 + 2 * j]) for j in range(n)]


def classify(e):
    if e is None:
        return "ok"
    msg = str(e)
    if type(e).__name__ != "RuntimeError":
        return "EXC:" + exc_name(e)
    if "Unable to load config file" in msg:
        return "unableToLoad"
    if "only supports up to" in msg:
        return "tooNew"
    if "Failed to apply migration" in msg:
        return "failed" + msg.split("Failed to apply migration")[1].strip(" .")
    if "does not contain a config file" in msg or "not compatible with" in msg:
        return "noConfig"
    if "does not know how to migrate" in msg:
        return "noPath"
    return "EXC:RuntimeError"


def migrate(d):
    from signac.migration import apply_migrations

    try:
        with redirect_stderr(io.StringIO()):
            apply_migrations(d)
        return None
    except Exception as e:
        return e


def diff_tokens(d, before, after):
    b = {e[0]: e for e in before}
    a = {e[0]: e for e in after}
    toks = []
    for rel in sorted(set(a) | set(b)):
        p = "/p/" + rel
        if rel not in b:
            if a[rel][1] == "d":
                toks.append("+d" + p)
            elif rel == ".signac/config":
                toks.append("+c/p")
            else:
                toks.append("+?" + p)
        elif rel not in a:
            toks.append("-?" + p)
        elif a[rel] != b[rel]:
            toks.append("~?" + p)
    return toks


def undo(d, before, after):
    b = {e[0] for e in before}
    for e in sorted(after, key=lambda e: -len(e[0])):
        if e[0] not in b:
            full = os.path.join(d, e[0])
            os.rmdir(full) if e[1] == "d" else os.unlink(full)


def read_project(d):
    """ids / state points / documents / files through the real signac."""
    import signac

    project = signac.get_project(d)
    out = {}
    for job in signac.Project(d):
        files = {}
        for dp, dns, fns in os.walk(job.path):
            for fn in fns:
                rel = os.path.relpath(os.path.join(dp, fn), job.path)
                if rel in ("signac_statepoint.json", "signac_job_document.json"):
                    continue
                with open(os.path.join(dp, fn), "rb") as f:
                    files[rel] = f.read()
        docfn = os.path.join(job.path, "signac_job_document.json")
        out[job.id] = {"sp": tagged(job.statepoint()), "doc": tagged(job.document()) if os.path.isfile(docfn) else None,
                       "files": files}
    if project.path != d:
        raise AssertionError("get_project(%s) returned %s" % (d, project.path))
    return out


def expected_content(jobs):
    return {jid: {"sp": tagged(j["sp"]), "doc": tagged(j["doc"]) if j["doc"] is not None else None,
                  "files": dict(j["files"])} for jid, j in jobs.items()}


# ----------------------------------------------------------------------------
# the case
# ----------------------------------------------------------------------------
def run_verstr(case, ctx):
    """A config file spelling the version as an arbitrary token: opened iff the token is an integer literal equal to
    the supported version; refused (any exception), tree untouched, otherwise - also by the migration."""
    import signac
    from signac.version import SCHEMA_VERSION

    schema = int(SCHEMA_VERSION)
    base = ctx.fresh_dir("c20v")
    oracle, answers = [], []
    vs = case["ver_s"]
    rc = case["layout"] == "rc"
    val = ref_pyint(vs)
    jobs = job_data(case)

    def mk(n):
        d = os.path.join(base, "p%d" % n)
        os.mkdir(d)
        with open(os.path.join(d, "README.txt"), "w") as f:
            f.write("unrelated\n")
        if rc:
            with open(os.path.join(d, "signac.rc"), "w") as f:
                f.write("project = p\nschema_version = %s\n" % vs)
        else:
            os.mkdir(os.path.join(d, ".signac"))
            with open(os.path.join(d, ".signac", "config"), "w") as f:
                f.write("schema_version = %s\n" % vs)
        write_jobs(os.path.join(d, "workspace"), jobs)
        return d

    try:
        calls = [("Project", lambda d: signac.Project(d)), ("get_project", lambda d: signac.get_project(d)),
                 ("get_project(search=False)", lambda d: signac.get_project(d, search=False)),
                 ("init_project", lambda d: signac.init_project(d)), ("apply_migrations", migrate_raise)]
        for n, (name, fn) in enumerate(calls):
            d = mk(n)
            s0 = tree_snapshot(d)
            try:
                r = fn(d)
                res = "ok"
                if name != "apply_migrations" and r.path != d:
                    res = "ok-elsewhere"
            except Exception as e:
                res = exc_name(e)
            s1 = tree_snapshot(d)
            answers.append(res)
            if name == "apply_migrations" and rc and val in (0, 1):
                continue     # a well-formed legacy project is migrated (covered by the main family)
            if s1 != s0:
                oracle.append("%s on a %s declaring schema_version = %s changed the tree: %s" % (
                    name, "signac.rc" if rc else ".signac/config", vs, diff_tokens(d, s0, s1)))
            if val != schema:
                try:
                    same_number = "_" not in vs and float(vs) == schema   # "2.0", "2e0": the supported number, oddly spelled
                except ValueError:
                    same_number = False
                if res.startswith("ok") and not same_number:
                    oracle.append("%s accepted a %s declaring schema_version = %s (supported: %d)" % (
                        name, "signac.rc" if rc else ".signac/config", vs, schema))
            elif not rc and name != "apply_migrations" and res != "ok" and vs == str(schema):
                # only the spelling signac writes itself must open; other spellings of the same integer may be refused
                oracle.append("%s refused an up-to-date project (schema_version = %s): %s" % (name, vs, res))
    finally:
        ctx.cleanup(base)
    tags = ["verstr:" + ("int-current" if val == schema else "int-other" if val is not None else "not-an-int"),
            "layout=" + case["layout"]] + ["verstr-answer:" + a for a in sorted(set(answers))]
    model, impl = [], []
    if not rc:
        # the Lean model of int() on the config value and of the gate (Signac/PyInt.lean) against Project(path)
        model = ["vgate " + hx(vs), "pyint " + hx(vs)]
        impl = [{"ok": "ok", "IncompatibleSchemaVersion": "incompatible", "ValueError": "valueError"}.get(answers[0], answers[0])]
        try:
            impl.append(str(int(vs)))
        except ValueError:
            impl.append("none")
    return {"model": model, "impl": impl, "oracle": oracle, "tags": tags, "key": json.dumps(["verstr", case["layout"], vs])}


def run_nest(case, ctx):
    """A legacy (signac.rc) project sitting BELOW another project: the enclosing project must not switch the
    refusal off.  Project(inner), get_project(inner, search=False) and init_project(inner) refuse and leave the tree
    alone; the migration of the inner project still works and keeps every job."""
    import signac

    base = ctx.fresh_dir("c20n")
    oracle, answers = [], []
    jobs = job_data(case)

    def mk(n):
        root = os.path.join(base, "p%d" % n)
        os.makedirs(os.path.join(root, ".signac") if case["outer"] != "legacy" else root)
        if case["outer"] == "legacy":
            with open(os.path.join(root, "signac.rc"), "w") as f:
                f.write("project = outer\n")
        else:
            with open(os.path.join(root, ".signac", "config"), "w") as f:
                f.write("schema_version = %d\n" % (2 if case["outer"] == "current" else 3))
        os.makedirs(os.path.join(root, "workspace"), exist_ok=True)
        inner = os.path.join(root, *(["sub", "more"][:case["depth"]]), "legacy")
        os.makedirs(inner)
        with open(os.path.join(inner, "signac.rc"), "w") as f:
            f.write("project = inner\nworkspace_dir = my_ws\n")
            if case["ver"] is not None:
                f.write("schema_version = %d\n" % case["ver"])
        write_jobs(os.path.join(inner, "my_ws"), jobs)
        return root, inner

    try:
        calls = [("Project", lambda d: signac.Project(d)), ("get_project(search=False)", lambda d: signac.get_project(d, search=False)),
                 ("init_project", lambda d: signac.init_project(d))]
        for n, (name, fn) in enumerate(calls):
            root, inner = mk(n)
            s0 = tree_snapshot(root)
            try:
                r = fn(inner)
                res = "ok:" + os.path.relpath(r.path, root)
            except Exception as e:
                res = exc_name(e)
            s1 = tree_snapshot(root)
            answers.append(res)
            if res.startswith("ok"):
                oracle.append("%s(<legacy project below a %s project>) returned a project (%s) instead of refusing "
                              "(signac.rc declaring schema_version %r)" % (name, case["outer"], res[3:], case["ver"]))
            if s1 != s0:
                oracle.append("%s(<legacy project below a %s project>) changed the tree: %s" % (
                    name, case["outer"], diff_tokens(root, s0, s1)))
        root, inner = mk(len(calls))
        outer0 = [e for e in tree_snapshot(root) if not e[0].startswith(os.path.relpath(inner, root))]
        err = migrate(inner)
        if err is not None:
            oracle.append("apply_migrations failed on a well-formed legacy project below a %s project: %s: %s" % (
                case["outer"], exc_name(err), err))
        else:
            try:
                got = read_project(inner)
            except Exception as e:  # noqa: BLE001
                got = None
                oracle.append("migrated inner project does not open: %s: %s" % (exc_name(e), e))
            if got is not None and got != expected_content(jobs):
                oracle.append("jobs of the inner project after the migration: %s, expected %s" % (
                    sorted(got), sorted(expected_content(jobs))))
        outer1 = [e for e in tree_snapshot(root) if not e[0].startswith(os.path.relpath(inner, root))]
        if outer1 != outer0:
            oracle.append("migrating the inner project changed the enclosing one")
    finally:
        ctx.cleanup(base)
    tags = ["nest:outer=" + case["outer"], "nest:depth=%d" % case["depth"]] + ["nest-answer:" + a.split(":")[0] for a in answers]
    return {"model": [], "impl": [], "oracle": oracle, "tags": tags,
            "key": json.dumps(["nest", case["ver"], case["depth"], case["outer"]])}


def run_appear(case, ctx):
    """One process looks for a project in a directory (nothing there), THEN an incompatible project appears in it
    (restored from an archive, checked out, copied): the refusal does not depend on what the process saw before."""
    import signac

    base = ctx.fresh_dir("c20a")
    oracle, answers = [], []
    jobs = job_data(case)
    try:
        d = os.path.join(base, "D")
        os.makedirs(os.path.join(d, "sub"))
        probe = case["probe"]
        try:
            if probe == "get_project":
                signac.get_project(d)
            elif probe == "get_project-below":
                signac.get_project(os.path.join(d, "sub"))
            elif probe == "Project":
                signac.Project(d)
            else:
                signac.init_project(os.path.join(d, "sub", "inner"))
                shutil.rmtree(os.path.join(d, "sub", "inner"))
        except Exception as e:  # noqa: BLE001
            answers.append("probe:" + exc_name(e))
        # the project arrives
        if case["ver"] == 3:
            os.makedirs(os.path.join(d, ".signac"))
            with open(os.path.join(d, ".signac", "config"), "w") as f:
                f.write("schema_version = 3\n")
            write_jobs(os.path.join(d, "workspace"), jobs)
        else:
            with open(os.path.join(d, "signac.rc"), "w") as f:
                f.write("project = late\nworkspace_dir = my_ws\n")
                if case["ver"] is not None:
                    f.write("schema_version = %d\n" % case["ver"])
            write_jobs(os.path.join(d, "my_ws"), jobs)
        s0 = tree_snapshot(d)
        for name, fn in (("init_project", lambda: signac.init_project(d)), ("Project", lambda: signac.Project(d)),
                         ("get_project(search=False)", lambda: signac.get_project(d, search=False)),
                         ("get_project", lambda: signac.get_project(d))):
            try:
                r = fn()
                res = "ok:" + os.path.relpath(r.path, base)
            except Exception as e:  # noqa: BLE001
                res = exc_name(e)
            answers.append(res)
            s1 = tree_snapshot(d)
            if res.startswith("ok"):
                oracle.append("after a failed lookup (%s) an incompatible project (version %r) appeared in the directory; "
                              "%s then returned a project (%s) instead of refusing" % (probe, case["ver"], name, res[3:]))
            if s1 != s0:
                oracle.append("... and %s changed the tree: %s" % (name, diff_tokens(d, s0, s1)))
                break
    finally:
        ctx.cleanup(base)
    return {"model": [], "impl": [], "oracle": oracle, "tags": ["appear:" + case["probe"]],
            "key": json.dumps(["appear", case["ver"], case["probe"]])}


def migrate_raise(d):
    err = migrate(d)
    if err is not None:
        raise err


def run_case(case, ctx):
    if case.get("kind") == "verstr":
        return run_verstr(case, ctx)
    if case.get("kind") == "nest":
        return run_nest(case, ctx)
    if case.get("kind") == "appear":
        return run_appear(case, ctx)
    if case.get("kind") == "pyint":
        # Python's int() on ASCII strings against the Lean model `pyInt` (the conversion the version gate applies)
        model, impl, oracle = [], [], []
        for t in case["strings"]:
            model.append("pyint " + hx(t))
            try:
                got = int(t)
            except ValueError:
                got = None
            impl.append("none" if got is None else str(got))
            if got != ref_pyint(t):
                oracle.append("int(%r) = %r, the reference reading gives %r" % (t, got, ref_pyint(t)))
        return {"model": model, "impl": impl, "oracle": oracle, "tags": ["pyint-batch"], "key": json.dumps(case["strings"])}
    import signac
    from signac.version import SCHEMA_VERSION

    schema = int(SCHEMA_VERSION)
    d = ctx.fresh_dir("c20")
    model, impl, oracle = [], [], []
    try:
        jobs, wsname = build(case, d)
        tracked = sorted({"workspace", wsname})
        rc = case["layout"] == "rc"
        declared = (0 if case["ver"] is None else case["ver"]) if rc else (1 if case["ver"] is None else case["ver"])
        s0 = tree_snapshot(d)

        # ---- the gate -------------------------------------------------------------------
        calls = [("Project", lambda: signac.Project(d)), ("get_project", lambda: signac.get_project(d)),
                 ("get_project(search=False)", lambda: signac.get_project(d, search=False)),
                 ("init_project", lambda: signac.init_project(d))]
        answers = []
        for name, fn in calls:
            try:
                res = "ok:" + ("/p" if fn().path == d else "/?")
            except Exception as e:
                res = exc_name(e)
            s1 = tree_snapshot(d)
            steps = diff_tokens(d, s0, s1)
            answers.append(res + "".join(":" + s for s in steps))
            if declared != schema:
                allowed = {"IncompatibleSchemaVersion"}
                if rc and name == "get_project(search=False)":
                    allowed = {"LookupError"}
                if res not in allowed:
                    oracle.append("%s on a project declaring schema version %r (%s) gave %s, expected %s" % (
                        name, case["ver"], "signac.rc" if rc else ".signac/config", res, "/".join(allowed)))
                if s1 != s0:
                    oracle.append("%s on a project declaring schema version %r changed the tree: %s" % (
                        name, case["ver"], steps))
            elif not rc:
                if res != "ok:/p" or [s for s in steps if s != "+d/p/workspace"]:
                    oracle.append("%s on an up-to-date project gave %s %s" % (name, res, steps))
            else:  # signac.rc declaring the current version: no claim beyond "not modified"
                if s1 != s0:
                    oracle.append("%s changed a directory holding only a signac.rc: %s" % (name, steps))
            undo(d, s0, s1)
        cfg_tok = "-" if rc else ("n" if case["ver"] is None else str(case["ver"]))
        rc_tok = str(declared) if rc else "-"
        model.append("gate %s %s %d" % (cfg_tok, rc_tok, 1 if os.path.isdir(os.path.join(d, "workspace")) else 0))
        impl.append(" ".join(answers))

        # ---- the migration ---------------------------------------------------------------
        state0 = observe(d, tracked)
        err = migrate(d)
        state1 = observe(d, tracked)
        s1 = tree_snapshot(d)
        model.append("mig " + state0)
        impl.append(classify(err) + " " + state1)

        must_succeed = rc and declared in (0, 1) and case["ws"] in ("default", "explicit", "custom", "nested", "dotted", "dotdot", "prefixed")
        collision = rc and declared in (0, 1) and case["ws"].startswith("collide")
        if must_succeed:
            if err is not None:
                oracle.append("apply_migrations failed on a well-formed version-%d project: %s: %s" % (
                    declared, exc_name(err), err))
            else:
                try:
                    got = read_project(d)
                except Exception as e:
                    got = None
                    oracle.append("migrated project does not open: %s: %s" % (exc_name(e), e))
                want = expected_content(jobs)
                if got is not None and got != want:
                    oracle.append("job content changed by the migration: ids before %s, after %s; differing %s" % (
                        sorted(want), sorted(got), sorted(k for k in set(want) | set(got) if want.get(k) != got.get(k))))
                after = {e[0]: e for e in s1}
                before = {e[0]: e for e in s0}
                for old, new, flag in ((".signac_sp_cache.json.gz", ".signac/statepoint_cache.json.gz", "cache"),
                                       (".signac_shell_history", ".signac/shell_history", "hist")):
                    if case[flag] and (new not in after or after[new][2] != before[old][2] or old in after):
                        oracle.append("%s was not moved byte-identically to %s" % (old, new))
                if "signac.rc" in after or LOCK in after:
                    oracle.append("signac.rc or the lock file is still there after the migration")
                docfn = os.path.join(d, "signac_project_document.json")
                pdoc = json.load(open(docfn)) if os.path.isfile(docfn) else {}
                want_doc = {"existing": {"x": 1}, "n": 5} if case["doc"] else {}
                if {k: v for k, v in pdoc.items() if k != "signac_project_name"} != want_doc:
                    oracle.append("project document changed: %r -> %r" % (want_doc, pdoc))
                # the project name moves from the configuration into the document, exactly (default name: not at all)
                want_name = None if case["name"] == "None" else case["name"]
                if pdoc.get("signac_project_name") != want_name:
                    oracle.append("project name %r arrived in the project document as %r" % (
                        want_name, pdoc.get("signac_project_name")))
                for rel in ("README.txt", "scripts/run.py"):
                    if after.get(rel) != before.get(rel):
                        oracle.append("unrelated file %s changed" % rel)
                # migrating again is a no-op
                state2 = observe(d, tracked)
                err2 = migrate(d)
                model.append("mig " + state2)
                impl.append(classify(err2) + " " + observe(d, tracked))
                if err2 is not None or tree_snapshot(d) != s1:
                    oracle.append("migrating the migrated project again raised %r or changed the tree" % (err2,))
        elif collision or (rc and declared in (0, 1) and case["ws"] == "missing"):
            if err is None:
                oracle.append("apply_migrations succeeded although %s" % (
                    "`workspace` already exists and would be overwritten" if collision else
                    "the configured workspace directory does not exist"))
            changed = [a[0] for a in set(s0) ^ set(s1)]
            if [c for c in changed if c != "signac.rc"]:
                oracle.append("refused migration moved / changed: %s" % sorted(set(changed)))
            if "signac.rc" in changed:
                from signac._vendor import configobj
                c1 = configobj.ConfigObj(os.path.join(d, "signac.rc"))
                if c1.get("project") != case["name"] or c1.get("workspace_dir") != WS_NAME[case["ws"]]:
                    oracle.append("refused migration rewrote signac.rc beyond the version: %r" % dict(c1))
        elif rc and declared in (0, 1) and case["ws"] == "dot-exists":
            # outside the well-formed class: only "no job data lost" is demanded
            src0 = [b for k, b in ents_of(state0) if k == wsname]
            if src0 and src0[0] not in [b for _, b in ents_of(state1)]:
                oracle.append("the job subtree is gone after a failed migration")
        else:
            # unsupported / current / newer version, or current layout with an old version
            if s1 != s0:
                oracle.append("apply_migrations changed a project it cannot or need not migrate (version %r, %s): %s" % (
                    case["ver"], case["layout"], sorted(a[0] for a in set(s0) ^ set(s1))))
            if declared > schema and err is None:
                oracle.append("apply_migrations accepted a project with the newer schema version %d" % declared)
            if declared == schema and not rc:
                if err is not None:
                    oracle.append("apply_migrations on an up-to-date project raised %s" % exc_name(err))
                else:
                    try:
                        got = read_project(d)
                        if got != expected_content(jobs):
                            oracle.append("up-to-date project content changed")
                    except Exception as e:
                        oracle.append("up-to-date project does not open: %s" % exc_name(e))
        tags = ["layout=" + case["layout"], "ver=%s" % case["ver"], "ws=" + case["ws"], "njobs=%d" % case["njobs"],
                "mig=" + classify(err), "name=" + ("None" if case["name"] == "None" else "custom")]
        if case["cache"]:
            tags.append("cache")
        if case["hist"]:
            tags.append("hist")
        key = json.dumps({k: case[k] for k in ("layout", "ver", "name", "ws", "cache", "hist")}, sort_keys=True) \
            if case["njobs"] > 0 else None
        return {"model": model, "impl": impl, "oracle": oracle, "tags": tags, "key": key}
    finally:
        ctx.cleanup(d)


TECHNIQUE = ("Lean 4 theorems about an executable model of the version gate (through Project / get_project / "
             "init_project) and of apply_migrations as a chain of steps on a token model of the project root + "
             "differential correspondence of the compiled model against the real signac over the full product of "
             "legacy configurations, with a before/after content oracle and byte snapshots")
LEVEL_TEXT = ("Proved in Lean: the gate lets exactly SCHEMA_VERSION (regenerated from the package) through; for every other "
              "version number, in the current and in the legacy layout, Project(), get_project and init_project raise "
              "IncompatibleSchemaVersion (LookupError for search=False on a legacy directory) and perform no mutating step "
              "(gate_refuses, gate_refuses_legacy; all trees); migrating any well-formed version-0/1 project — any name, "
              "default / custom / nested workspace directory, with or without cache and history — succeeds, passes the "
              "gate, shows a reader exactly the same job subtree, moves cache and history unchanged, leaves every other "
              "entry alone and keeps all project-document keys (migrate_preserves); a workspace that would be overwritten "
              "makes it fail with nothing moved (migrate_refuses_collision); up-to-date and migrated projects are fixed "
              "points (migrate_uptodate_noop, migrate_idempotent); newer projects are refused untouched "
              "(migrate_refuses_newer). The config value is a STRING: Python's int() on it is modelled (Signac/PyInt.lean, "
              "pyInt) and the gate on strings is proved to accept exactly the spellings of SCHEMA_VERSION as an integer "
              "literal (gateStr_exact), never a string containing a character outside digits/_/+/-/blanks (pyInt_rejects; "
              "'2.1', '2rc1' raise ValueError: gateStr_no_dot), to agree with the numeric gate on every number signac itself "
              "writes (pyInt_repr, gateStr_nat, gateStr_declared). String-typed layers of the discovery and migration models "
              "(Signac/DiscoveryS.lean, MigrationS.lean: the raw config value, int() on it, ValueError as a result) refine the numeric "
              "models wherever every declared version is an integer literal (stringLayer_refines, migrationLayer_refines), and for ANY "
              "tree a config whose value is not a spelling of SCHEMA_VERSION makes Project / get_project / init_project / get_job fail "
              "with an empty step list, the upward search stopping there (gate_refuses_strings, gate_refuses_absent_key); whatever is "
              "returned declares a spelling of SCHEMA_VERSION (accepts_only_schema); the migration of '1.0' raises ValueError with the "
              "project untouched (migrate_valueError). The compiled model is compared with the real functions on every configuration "
              "(result class and the complete observed final state of the project root).")
LEVEL_NOTE = ("Trusted: Lean kernel; axioms propext/Classical.choice/Quot.sound; the harness (hand-written project builder, "
              "observer that digests sub-trees into tokens, content oracle). Job data is an opaque token in the model: "
              "'same ids, state points, documents, files' is 'the same subtree, under the name a reader looks for', and the "
              "oracle re-reads it through the real signac. configobj quoting, os.replace and the JSON save are modelled, "
              "not verified. Crash points inside the chain are not covered here (C11). A configured but missing workspace "
              "directory makes the real migration fail after the 0->1 bump; the model reproduces it, the theorems exclude "
              "it by the well-formedness hypothesis. pyInt is ASCII only (CPython also accepts Unicode digits and blanks: "
              "pyInt_non_ascii states the boundary) and ignores the 4300-digit limit (pyIntLim_sound: irrelevant below 640 "
              "digits); both are compared with the real int() on generated strings. A legacy project nested below another "
              "project and 37 spellings of the version are judged by the direct oracle (spellings that denote the supported "
              "number in another way, '2.0', '+2', are don't-care).")

"""C03 — the workspace equals a simple model after any history of API operations (DESIGN §4 C03)."""
import json

from harness import ws_common as W
from harness.core import enc_val

ID = "C03"
TITLE = "The workspace equals a simple model after any history of API operations"
LEAN_MODULE = "Signac.Properties.C03"
DRIVER = "drv_ws"
DESIGN_REF = "DESIGN.md §4 C03"
RULE = ("operation sequences over <=4 state point keys x {0,1,'x'} (every 3rd sequence: rich values incl. 1.0/True/None/"
        "lists/sub-mappings), 5 file names (one nested, two that look like temp / backup files: `._run_0.log`, `sub/notes.txt~`), 2 projects, several live handles per job (fresh, by id / prefix, "
        "copy.copy, deepcopy, pickle round trip in-process and via a freshly started interpreter), foreign directories "
        "planted in the workspace; quick: exhaustive sequences of length<=3 over a reduced alphabet + random length 25; "
        "after EVERY step a fresh Project is compared with the plain reference model (ids, state points, documents, file "
        "trees), check(), len/iter/contains, raw-tree scan for '~' / '._' leftovers, and every live handle's id / "
        "statepoint / cached_statepoint / path; distinct = distinct op sequence; non-trivial = at least one job exists "
        "at some step")
MODELLED = ["h5py stores (job.data / job.stores) are outside the model", "synced_collections JSON backend (load-before-access, save-after-mutation, temp+replace)"]
ASSUMPTIONS = ["a handle whose job was removed / moved / re-keyed through another, unrelated handle may refuse to act "
               "(exception, nothing changed on disk); the documented session cache may still resolve the id of a removed job"]
EXHAUSTIVE = {"quick": False, "thorough": False}
TECHNIQUE = "Lean 4 refinement proof (workspace model -> id-keyed map) + per-step differential run of real signac against the Lean model and a plain reference model"
LEVEL_TEXT = ("Proved in Lean for every finite history of public operations (incl. failing ones), every payload and every "
              "hash function: the workspace invariant (each job stored under the hash of its state point, ids unique) holds "
              "after every step, hence check() passes, len/iteration/membership agree, and handle creation / copies / "
              "pickling / cache maintenance / session restarts / foreign directories never change a job. The Lean model is "
              "the 'simple in-memory model' of the property; it is run in lock step with the real signac on generated "
              "histories (result kind, digest of both workspaces as seen by a FRESH session, ids of all live handles, after "
              "every step), and an independent plain Python reference model judges the real code directly, including a raw "
              "tree scan for leftovers and foreign directories.")
LEVEL_NOTE = ("Trusted: Lean kernel + 3 standard axioms; correspondence harness and plain reference model "
              "(harness/ws_common.py). The model is at whole-operation granularity (crash points: C11; caches: C08). A "
              "refusal of a stale handle (job removed/moved/re-keyed through an unrelated handle) is resolved by the harness "
              "and not sent to the model. Known findings carved out exactly: F-4b, F-3c, F-3d, F-5c (all rooted in the "
              "synced_collections dependency).")

REDUCED = None


def reduced_alphabet():
    ops = []
    sps = [{"a": 0}, {"a": 1}]
    for h, sp in (("h1", sps[0]), ("h2", sps[1]), ("h3", sps[0])):
        ops.append(["open", h, 0, sp])
    for h in ("h1", "h2"):
        ops += [["init", h], ["remove", h], ["dset", h, "k", 0], ["put", h, "f.txt", "A"],
                ["spset", h, "a", 1], ["spset", h, "b", 0], ["spdel", h, "a"], ["clear", h], ["reset", h],
                ["move", h, 1], ["update", h, {"a": 1}, False], ["update", h, {"a": 1}, True],
                ["spassign", h, {"a": 1}]]
    ops += [["badjob", "h1", {"a.b": 1}, "init"], ["badjob", "h2", {"a": 0, "n": {"b.c": 1}}, "dset"]]
    ops += [["copy", "h1", "h4"], ["deepcopy", "h1", "h4"], ["pickle", "h1", "h4"], ["clone", "h1", 1, "h4"],
            ["init", "h4"], ["spset", "h4", "b", 0], ["ucache", 0], ["session", 0],
            ["openid", "h5", 0, W.ref_id(sps[0])], ["openid", "h5", 0, W.ref_id(sps[1])[:2]]]
    return ops


def generate(tier, rng):
    n_random = 3500 if tier == "quick" else 12000
    length = 25 if tier == "quick" else 60
    alpha = reduced_alphabet()
    opens = alpha[:3]
    rest = alpha[3:]
    # bounded-exhaustive: both handles opened, then every sequence of k ops of the reduced alphabet
    depth = 2 if tier == "quick" else 3
    import itertools
    count = 0
    for k in range(1, depth + 1):
        for seq in itertools.product(rest, repeat=k):
            if tier == "quick" and k == 2 and (count % 3):
                count += 1
                continue
            count += 1
            yield {"ops": opens + [list(o) for o in seq], "nproj": 2}
    # remove / re-create with document objects that outlive the job: the same handle, a shallow copy made after
    # the document was first used (shares the document object), a copy made before
    sp = {"a": 0}
    for variant in range(6):
        ops = [["open", "h1", 0, sp]]
        if variant in (3, 4):
            ops.append(["copy", "h1", "h2"])
        ops += [["dset", "h1", "x", 1], ["put", "h1", "f.txt", "A"]]
        if variant in (1, 2, 5):
            ops.append(["copy", "h1", "h2"])
        ops.append(["remove", "h1"])
        w = "h1" if variant in (0, 5) else "h2"
        ops += [["dset", w, "y", 2]] if variant != 2 else [["init", "h2"], ["dset", "h2", "y", 2]]
        ops += [["dset", "h1", "z", 3], ["spset", w, "b", 1]]
        yield {"ops": ops, "nproj": 2}
    # clear / reset through an INDEPENDENT handle while another handle holds document data: the other handle
    # reads the emptied document from the file (no stale data), links in the job directory are gone as well
    for op2 in ("reset", "clear"):
        for how in ("open", "openid", "pickle"):
            ops = [["open", "h1", 0, sp], ["dset", "h1", "x", 1], ["put", "h1", "f.txt", "A"],
                   ["putlink", "h1", "latest", "f.txt", "A"]]
            ops.append({"open": ["open", "h2", 0, sp], "openid": ["openid", "h2", 0, W.ref_id(sp)],
                        "pickle": ["pickle", "h1", "h2"]}[how])
            ops += [[op2, "h2"], ["dset", "h1", "z", 3], ["dset", "h2", "y", 2], [op2, "h1"], ["dset", "h2", "w", 4]]
            yield {"ops": ops, "nproj": 2}
    for i in range(n_random):
        yield {"ops": W.gen_ops(rng, length, rich=(i % 3 == 0), allow_plant=(i % 4 == 0)), "nproj": 2}


def search(rng, deadline):
    while True:
        yield {"ops": W.gen_ops(rng, 30, rich=rng.random() < 0.3, allow_plant=rng.random() < 0.3), "nproj": 2}


def shrink(case):
    ops = case["ops"]
    for i in range(len(ops)):
        yield dict(case, ops=ops[:i] + ops[i + 1:])
    n = len(ops)
    if n > 4:
        yield dict(case, ops=ops[: n // 2])


def run_case(case, ctx):
    records, failures = W.lockstep(case["ops"], ctx, case.get("nproj", 2))
    tags = sorted({"op:" + r["op"][0] for r in records if "real" in r})
    tags += ["fail:" + r["real"] for r in records if "real" in r and not r["real"].startswith("ok")][:5]
    nontrivial = any(any(o["jobs"] for o in r.get("obs", [])) for r in records)
    executed = [r for r in records if "mop" in r]
    model = ["run " + " | ".join(r["mop"] for r in executed)] if executed else []
    impl = [" ".join(r["itok"] for r in executed)] if executed else []
    return {"model": model, "impl": impl, "oracle": ([f for f in failures if not f.startswith("KNOWN[")] or failures)[:5], "tags": tags,
            "key": json.dumps(case["ops"]) if nontrivial else None}


def known_class(case, result):
    """Every oracle failure of the case must belong to a recorded class (F-4b, F-3c)."""
    fs = result.get("oracle") or []
    ids = []
    for f in fs:
        if not f.startswith("KNOWN["):
            return None
        ids.append(f[6:f.index("]")])
    return ids[0] if ids else None

"""C05 — job and project documents are faithful persistent dicts; buffering is transparent
(DESIGN §4 C05).

A case is a literal program over a fresh project:

    {"files": ["J0", "J1", "P"],            # document files: job documents / the project document
     "objs":  [0, 0, 1, 2],                 # handle object i points at file objs[i]
                                            #   (separate open_job / Project instances)
     "cmds":  [ {"c":"E","cap":null|int} | {"c":"X"} | {"c":"F","f":file} | {"c":"R","f":file,"o":obj}
              | {"o":obj,"op":"set","p":[path],"k":key,"v":value,"st":spelling} | ... ]}

Every program is run on the real signac as written and, when it contains buffered blocks,
a second time with the blocks stripped (unbuffered).  Both runs are predicted by the Lean
driver (one model line each) and judged by a plain-`dict` oracle that knows nothing of Lean.
"""
import copy
import itertools
import json
import os
import random

from harness import core, gen
from harness.core import enc_val, exc_name, hx

ID = "C05"
TITLE = "Job and project documents are faithful persistent dicts; buffering transparent"
LEAN_MODULE = "Signac.Properties.C05"
DRIVER = "drv_doc"
DESIGN_REF = "DESIGN.md §4 C05"
RULE = ("programs of document operations (item/attribute set, del, update, setdefault, pop, clear, "
        "reset / `document =`, nested dict and list mutation through paths, get, read, plus remove() and re-keying "
        "of the job outside blocks) on 1-3 job documents "
        "+ the project document through 1-3 separately obtained handle objects each, with nested "
        "signac.buffered() blocks at capacities {0, 1, 64, default}; bounded-exhaustive over a reduced "
        "alphabet (two handles of one job) to length 3 (quick) / 4 (thorough) in three block layouts, plus "
        "seeded random programs up to 40 operations; every program with a block is also run unbuffered; "
        "distinct = distinct program text; non-trivial = at least one mutating operation")
MODELLED = ["synced_collections (SyncedDict/SyncedList `_update` merge, JSONCollection load/save, "
            "SerializedFileBufferedCollection buffer, LIFO flush, capacity-forced flush): contract stated in "
            "lean/Signac/Doc.lean, exercised on every case",
            "md5-of-text comparison at flush = identity of values incl. key order and number types",
            "CPython json text length of buffered values (capacity accounting) via the model's JSON encoder"]
ASSUMPTIONS = ["one process, one thread; document values are JSON values with str keys without dots",
               "handles of a removed job are re-opened (stale Job objects are C03/C04's subject)"]
EXHAUSTIVE = {"quick": True, "thorough": True}

DEFAULT_CAP = 32 * 2**20
CAPS = [0, 1, 64, None]
MUTATING = {"set", "del", "app", "ext", "idx", "pop", "sdf", "upd", "clr", "rst", "live"}
ATTR_KEYS = {"a", "b", "c", "k", "x", "y", "z", "q"}
KEYS = ["a", "b", "x", "y", "k", "é", "a b", ""]
PYEQ_VALUES = [1, 1.0, True, 0, 0.0, False, "1", None, [1], [1.0], [True, 0], {"a": 1}, {"a": 1.0},
               {"a": True}, {"b": [1, {"c": 0}]}, {"b": [1.0, {"c": False}]}, [], {}, "s", 2, 2.5, -1]


# ----------------------------------------------------------------------------
# plain-dict reference (the oracle's notion of "the same operations on a plain dict")
# ----------------------------------------------------------------------------
def null_hit(old, new):
    """`None` arrives (by update / reset / a load) where the handle remembers a dict or list — the slot
    the dependency's `_update(None)` leaves untouched (finding F-5d)."""
    if isinstance(old, (dict, list)) and new is None:
        return True
    if isinstance(old, dict) and isinstance(new, dict):
        return any(k in new and old[k] != new[k] and null_hit(old[k], new[k]) for k in old)
    if isinstance(old, list) and isinstance(new, list):
        return any(a != b and null_hit(a, b) for a, b in zip(old, new))
    return False


def _ref_walk(d, path):
    cur = d
    for seg in path:
        if isinstance(cur, dict):
            if not isinstance(seg, str):
                raise KeyError(seg)
            cur = cur[seg]
        elif isinstance(cur, list):
            cur = cur[seg]  # TypeError for a str index, IndexError out of range
        else:
            cur = cur[seg]  # what Python does with a scalar: TypeError, or a character of a str
    return cur


def ref_apply(doc, op):
    """Apply op to the plain dict `doc` in place.  Returns ("ok", value|None) or ("err", name)."""
    kind = op["op"]
    if kind in ("live", "bad"):
        return ("ok", None)  # self-assignment / refused assignment: the plain dict stays as it is
    try:
        if kind in ("set", "del", "app", "ext", "idx"):
            tgt = _ref_walk(doc, op["p"])
            if kind == "set":
                if isinstance(tgt, dict):
                    tgt[op["k"]] = copy.deepcopy(op["v"])
                else:
                    raise TypeError("item assignment")
            elif kind == "del":
                if isinstance(tgt, dict):
                    del tgt[op["k"]]
                else:
                    raise TypeError("item deletion")
            elif kind == "app":
                if not isinstance(tgt, list):
                    raise AttributeError("append")
                tgt.append(copy.deepcopy(op["v"]))
            elif kind == "ext":
                if not isinstance(tgt, list):
                    raise AttributeError("extend")
                tgt.extend(copy.deepcopy(op["v"]))
            elif kind == "idx":
                if isinstance(tgt, dict):
                    return ("err", "KeyTypeError")  # JSON documents have str keys only
                if not isinstance(tgt, list):
                    raise TypeError("item assignment")
                tgt[op["i"]] = copy.deepcopy(op["v"])
            return ("ok", None)
        if kind == "pop":
            return ("ok", doc.pop(op["k"], copy.deepcopy(op["v"])))
        if kind == "sdf":
            return ("ok", doc.setdefault(op["k"], copy.deepcopy(op["v"])))
        if kind == "upd":
            doc.update(copy.deepcopy(op["v"]))
            return ("ok", None)
        if kind == "clr":
            doc.clear()
            return ("ok", None)
        if kind == "rst":
            doc.clear()
            doc.update(copy.deepcopy(op["v"]))
            return ("ok", None)
        if kind == "get":
            return ("ok", doc.get(op["k"]))
        if kind == "read":
            return ("ok", copy.deepcopy(doc))
    except (KeyError, IndexError, TypeError, AttributeError) as e:
        return ("err", type(e).__name__)
    raise ValueError(kind)


# ----------------------------------------------------------------------------
# wire encoding of a program (one model line)
# ----------------------------------------------------------------------------
def enc_path(p):
    return " ".join(["P%d" % len(p)] + [("k" + hx(s)) if isinstance(s, str) else ("i%d" % s) for s in p])


def enc_cmd(c):
    if "c" in c:
        if c["c"] == "E":
            return "E " + ("-" if c.get("cap") is None else str(c["cap"]))
        if c["c"] == "X":
            return "X"
        if c["c"] == "F":
            return "F %d" % c["f"]
        if c["c"] == "R":
            return "R %d" % c["f"]
        if c["c"] == "H":
            return "H"
        if c["c"] in ("K", "N"):  # for the model both mean: every handle object of the document is a new one
            return "K %d" % c["f"]
        raise ValueError(c)
    k = c["op"]
    head = "O %d " % c["o"]
    if k == "set":
        return head + "set %s S%s %s" % (enc_path(c["p"]), hx(c["k"]), enc_val(c["v"]))
    if k == "del":
        return head + "del %s S%s" % (enc_path(c["p"]), hx(c["k"]))
    if k == "app":
        return head + "app %s %s" % (enc_path(c["p"]), enc_val(c["v"]))
    if k == "ext":
        return head + "ext %s %s" % (enc_path(c["p"]), enc_val(list(c["v"])))
    if k == "idx":
        return head + "idx %s I%d %s" % (enc_path(c["p"]), c["i"], enc_val(c["v"]))
    if k == "pop":
        return head + "pop S%s %s" % (hx(c["k"]), enc_val(c["v"]))
    if k == "sdf":
        return head + "sdf S%s %s" % (hx(c["k"]), enc_val(c["v"]))
    if k == "upd":
        return head + "upd " + enc_val(c["v"])
    if k == "clr":
        return head + "clr"
    if k == "rst":
        return head + "rst " + enc_val(c["v"])
    if k == "get":
        return head + "get S" + hx(c["k"])
    if k == "read":
        return head + "read"
    raise ValueError(k)


def enc_program(case, cmds):
    return "run %d %d %s %s" % (len(case["files"]), len(case["objs"]),
                                " ".join(str(f) for f in case["objs"]),
                                " ".join(enc_cmd(c) for c in cmds))


def strip_blocks(cmds):
    return [c for c in cmds if c.get("c") not in ("E", "X")]


# ----------------------------------------------------------------------------
# running the real signac
# ----------------------------------------------------------------------------
def _plain(x):
    return x._to_base() if hasattr(x, "_to_base") else x


def _reset_buffer_state():
    import signac

    JD = signac.JSONDict
    ctx = JD._buffer_context
    ctx._count = 0
    ctx._original_buffer_capacitys = []
    ctx._buffer_capacity = None
    JD._buffer.clear()
    JD._buffered_collections = {}
    JD._CURRENT_BUFFER_SIZE = 0
    JD._BUFFER_CAPACITY = DEFAULT_CAP


def _attr_ok(cur, seg, st):
    from collections.abc import Mapping

    return st == 1 and isinstance(seg, str) and seg in ATTR_KEYS and isinstance(cur, Mapping)


BAD_TEXT = {"dot": "a mapping with a dotted key", "list": "a list", "int": "an int", "set": "a mapping holding a set"}


def _bad_value(kind):
    return {"dot": {"a.b": 1}, "list": [1], "int": 5, "set": {"a": {1, 2}}}[kind]


def _impl_bad(owner, nth, op):
    st = op.get("st", 1)
    try:
        if st == 1:
            owner.document = _bad_value(op["kind"])
        elif st == 2:
            owner.doc = _bad_value(op["kind"])
        else:
            (owner.doc if nth % 2 else owner.document).reset(_bad_value(op["kind"]))
        return ("ok", None)
    except Exception as e:  # noqa: BLE001
        return ("err", exc_name(e))


def _impl_op(owner, nth, op, owners=None):
    """Run one document operation on the real object; returns ("ok", value|None) / ("err", name)."""
    st = op.get("st", 0)
    kind = op["op"]
    try:
        if not (kind == "rst" and st in (1, 2)):  # the setter spelling must not touch the handle before
            h = owner.doc if nth % 2 else owner.document
        if kind in ("set", "del", "app", "ext", "idx"):
            cur = h
            for seg in op["p"]:
                if _attr_ok(cur, seg, st):
                    try:
                        cur = getattr(cur, seg)
                    except AttributeError:
                        raise KeyError(seg)  # attribute spelling of a missing key
                else:
                    cur = cur[seg]
            if kind == "set":
                if _attr_ok(cur, op["k"], st):
                    setattr(cur, op["k"], copy.deepcopy(op["v"]))
                else:
                    cur[op["k"]] = copy.deepcopy(op["v"])
            elif kind == "del":
                if _attr_ok(cur, op["k"], st):
                    delattr(cur, op["k"])
                else:
                    del cur[op["k"]]
            elif kind == "app":
                cur.append(copy.deepcopy(op["v"]))
            elif kind == "ext":
                cur.extend(copy.deepcopy(op["v"]))
            else:
                cur[op["i"]] = copy.deepcopy(op["v"])
            return ("ok", None)
        if kind == "pop":
            return ("ok", _plain(h.pop(op["k"], copy.deepcopy(op["v"]))))
        if kind == "sdf":
            return ("ok", _plain(h.setdefault(op["k"], copy.deepcopy(op["v"]))))
        if kind == "upd":
            v = copy.deepcopy(op["v"])
            if st == 1 and all(k in ATTR_KEYS for k in v):
                h.update(**v)
            else:
                h.update(v)
            return ("ok", None)
        if kind == "clr":
            h.clear()
            return ("ok", None)
        if kind == "rst":
            v = copy.deepcopy(op["v"])
            if "src" in op:  # the LIVE document view of (another handle of) the same document
                src = owners[op["src"]]
                v = src.document if nth % 3 else src.doc
            if st == 1:
                owner.document = v
            elif st == 2:
                owner.doc = v
            else:
                h.reset(v)
            return ("ok", None)
        if kind == "get":
            return ("ok", _plain(h.get(op["k"])))
        if kind == "read":
            return ("ok", h())
    except Exception as e:  # noqa: BLE001 - every exception is an observation
        return ("err", exc_name(e))
    raise ValueError(kind)


def _listing(root):
    out = []
    for dp, dns, fns in os.walk(root):
        dns.sort()
        if os.path.relpath(dp, root).split(os.sep)[0] == ".signac":
            continue
        for fn in fns:
            out.append(os.path.normpath(os.path.join(os.path.relpath(dp, root), fn)))
    return sorted(out)


class Run:
    """One execution of a program on a fresh project, with the plain-dict oracle alongside."""

    def __init__(self, case, cmds, ctx, label):
        self.case, self.cmds, self.ctx, self.label = case, cmds, ctx, label
        self.outs = []
        self.mtoks = []       # the commands as the model sees them (one token group per output)
        self.fails = []       # (kind, file, cmd index, message)
        self.null_hits = {}   # file -> index of the first command at which `None` met a remembered dict/list
        self.blocks = []      # per outermost block: facts for the known-finding classes
        self.errors = set()

    def fail(self, kind, f, i, msg):
        self.fails.append((kind, f, i, "[%s] cmd %d: %s" % (self.label, i, msg)))

    def doc_path(self, f):
        kind = self.case["files"][f]
        if kind == "P":
            return os.path.join(self.root, self.P0.FN_DOCUMENT)
        return os.path.join(self.job0[f].path, self.job0[f].FN_DOCUMENT)

    def owner_for(self, o, fresh=False):
        import signac

        f = self.case["objs"][o]
        kind = self.case["files"][f]
        if kind == "P":
            return self.P0 if (o == self.first_obj[f] and not fresh) else signac.Project(self.root)
        return self.P0.open_job(dict(self.cur_sp[f]))

    def execute(self):
        import signac

        case, cmds = self.case, self.cmds
        _reset_buffer_state()
        self.root = self.ctx.fresh_dir("c05")
        try:
            self.P0 = signac.init_project(self.root)
            nfiles = len(case["files"])
            self.first_obj = {}
            for o, f in enumerate(case["objs"]):
                self.first_obj.setdefault(f, o)
            self.cur_sp = {f: {"j": int(k[1:])} for f, k in enumerate(case["files"]) if k != "P"}
            self.job0 = {f: self.P0.open_job(dict(sp)) for f, sp in self.cur_sp.items()}
            owners = [self.owner_for(o) for o in range(len(case["objs"]))]
            ref = [dict() for _ in range(nfiles)]
            mem = [dict() for _ in case["objs"]]  # what each handle saw at its last access (plain-dict picture)
            depth = 0
            stack = []
            block = None
            aborted = False
            nth = 0
            for i, c in enumerate(cmds):
                if aborted:
                    break
                if "c" in c:
                    self.mtoks.append(enc_cmd(c))
                    if c["c"] == "E":
                        if depth == 0:
                            block = {"start": i, "objs": {}, "mut": set(), "writers": {},
                                     "absent": [f for f in range(nfiles) if not self._exists(f)]}
                        cm = signac.buffered() if c.get("cap") is None else signac.buffered(buffer_capacity=c["cap"])
                        try:
                            cm.__enter__()
                            self.outs.append("-")
                        except Exception as e:  # noqa: BLE001
                            self.outs.append("E:" + exc_name(e))
                            self.fail("exc", None, i, "entering signac.buffered raised %s" % exc_name(e))
                            aborted = True
                            continue
                        stack.append(cm)
                        depth += 1
                    elif c["c"] == "X":
                        if depth == 0:
                            self.outs.append("-")
                            continue
                        cm = stack.pop()
                        depth -= 1
                        try:
                            cm.__exit__(None, None, None)
                            self.outs.append("-")
                        except Exception as e:  # noqa: BLE001
                            self.outs.append("E:" + exc_name(e))
                            self.fail("exc", None, i, "leaving signac.buffered raised %s: %s" % (exc_name(e), e))
                            aborted = True
                        if depth == 0 and block is not None:
                            block["end"] = i
                            block["empty_at_exit"] = [f for f in range(nfiles) if ref[f] == {}]
                            self.blocks.append(block)
                            block = None
                    elif c["c"] == "F":
                        f = c["f"]
                        fn = self.doc_path(f)
                        if os.path.exists(fn):
                            with open(fn) as fh:
                                on_disk = json.load(fh)
                            self.outs.append("V " + enc_val(on_disk))
                            if depth == 0 and on_disk != ref[f]:
                                self.fail("file", f, i, "document file %s holds %r, the same operations on a plain "
                                          "dict give %r" % (case["files"][f], on_disk, ref[f]))
                        else:
                            self.outs.append("-")
                            if depth == 0 and ref[f] != {}:
                                self.fail("file", f, i, "document file %s does not exist, the same operations on a "
                                          "plain dict give %r" % (case["files"][f], ref[f]))
                    elif c["c"] == "R":
                        f = c["f"]
                        try:
                            owners[c["o"]].remove()
                            self.outs.append("-")
                        except Exception as e:  # noqa: BLE001
                            self.outs.append("E:" + exc_name(e))
                            self.fail("exc", f, i, "remove() raised %s" % exc_name(e))
                        ref[f] = {}
                        for o2, f2 in enumerate(case["objs"]):
                            if f2 == f:
                                mem[o2] = {}
                                if o2 != c["o"]:
                                    owners[o2] = self.owner_for(o2, fresh=True)
                    elif c["c"] == "K":
                        f = c["f"]
                        nth += 1
                        new_sp = dict(self.cur_sp[f], r=nth)
                        try:
                            owners[c["o"]].update_statepoint({"r": nth}, overwrite=True)
                            self.outs.append("-")
                        except Exception as e:  # noqa: BLE001
                            self.outs.append("E:" + exc_name(e))
                            self.fail("exc", f, i, "update_statepoint raised %s" % exc_name(e))
                        self.cur_sp[f] = new_sp
                        self.job0[f] = self.P0.open_job(dict(new_sp))
                        for o2, f2 in enumerate(case["objs"]):
                            if f2 == f:
                                mem[o2] = {}
                                if o2 != c["o"]:
                                    owners[o2] = self.owner_for(o2, fresh=True)
                    elif c["c"] == "N":
                        f = c["f"]
                        self.outs.append("-")
                        for o2, f2 in enumerate(case["objs"]):
                            if f2 == f:
                                mem[o2] = {}
                                owners[o2] = self.owner_for(o2, fresh=True)
                    elif c["c"] == "H":
                        self.outs.append("V T" if self.null_hits else "V F")
                    continue
                # document operation(s)
                if c["op"] == "bad":
                    # an assignment the library must refuse: raises, and the document stays as it is
                    nth += 1
                    got = _impl_bad(owners[c["o"]], nth, c)
                    if got[0] != "err":
                        self.fail("exc", case["objs"][c["o"]], i, "assigning %s through handle %d was accepted "
                                  "(must raise and leave the document unchanged)" % (BAD_TEXT[c["kind"]], c["o"]))
                    else:
                        self.errors.add(got[1])
                    continue
                steps = [c]
                if c["op"] == "live":
                    # `owner.doc = other.doc`: a read through the source handle, then a whole assignment of
                    # that value; for a plain dict, assigning the dict to itself changes nothing
                    steps = [{"o": c["src"], "op": "read"}, dict(c, op="rst", v=None)]
                live_val = None
                for c in steps:
                  if c["op"] == "rst" and c.get("v") is None:
                      if live_val is None:
                          break
                      c = dict(c, v=live_val)
                  self.mtoks.append(enc_cmd(c))
                  o = c["o"]
                  f = case["objs"][o]
                  nth += 1
                  got = _impl_op(owners[o], nth, c, owners)
                  if c["op"] == "read" and got[0] == "ok":
                      live_val = got[1]
                  self._judge(i, c, o, f, got, ref, mem, block)
            # leave blocks that the program left open (never generated; keeps the process clean)
            while stack:
                try:
                    stack.pop().__exit__(None, None, None)
                except Exception:  # noqa: BLE001
                    pass
            self.final_ref = ref
            self.final_docs = []
            for f in range(nfiles):
                fn = self.doc_path(f)
                if os.path.exists(fn):
                    with open(fn) as fh:
                        self.final_docs.append(json.load(fh))
                else:
                    self.final_docs.append(None)
            self.final_listing = _listing(self.root)
        finally:
            _reset_buffer_state()
            self.ctx.cleanup(self.root)
        return self

    def _judge(self, i, c, o, f, got, ref, mem, block):
        case = self.case
        hz = False
        if c["op"] == "rst":
            hz = null_hit(mem[o], c["v"])
        elif c["op"] != "clr":
            hz = null_hit(mem[o], ref[f])
            if c["op"] == "upd":
                hz = hz or null_hit(ref[f], {**ref[f], **c["v"]})
        if hz:
            self.null_hits.setdefault(f, i)
        if "src" in c:
            want = ("ok", None)  # a plain dict assigned to itself is unchanged
        else:
            want = ref_apply(ref[f], c)
        mem[o] = copy.deepcopy(ref[f])
        if block is not None:
            block["objs"].setdefault(f, set()).add(o)
            if c["op"] in MUTATING:
                block["mut"].add(f)
        if got[0] == "err":
            self.outs.append("E:" + got[1])
            self.errors.add(got[1])
        elif got[1] is None and c["op"] not in ("get", "pop", "sdf", "read"):
            self.outs.append("-")
        else:
            self.outs.append("V " + enc_val(got[1]))
        # oracle: same outcome as the plain dict
        own_block = block is None or block["writers"].get(f, {o}) <= {o}
        if got[0] != want[0] or (got[0] == "err" and got[1] != want[1]):
            if own_block:
                self.fail("exc" if "err" in (got[0], want[0]) else "ret", f, i,
                          "%s through handle %d: real %r, plain dict %r" % (c["op"], o, got, want))
        elif got[0] == "ok" and c["op"] in ("get", "pop", "sdf", "read") and got[1] != want[1]:
            if own_block:
                self.fail("read" if c["op"] in ("get", "read") else "ret", f, i,
                          "%s through handle %d of %s returns %r, plain dict gives %r"
                          % (c["op"], o, case["files"][f], got[1], want[1]))
        if block is not None and c["op"] in MUTATING:
            block["writers"].setdefault(f, set()).add(o)

    def _exists(self, f):
        try:
            return os.path.exists(self.doc_path(f))
        except Exception:  # noqa: BLE001
            return False


def canon_listing(listing):
    """temp files `._<uuid>_name` -> `._TMP_name` so that leftovers are visible but comparable"""
    import re

    return sorted(re.sub(r"\._[0-9a-f-]{36}_", "._TMP_", p) for p in listing)


def run_rmblock(case, ctx):
    """Oracle-only family: a job created, written and REMOVED inside a buffered block (its document file
    never existed before the block, the handles are made inside it), optionally re-used afterwards.  The
    files left on exit must be those of the unbuffered run.  (Removal with a pre-existing document file or
    through a handle made before the block raises BufferedError on the pinned tree - outside C05, which
    quantifies over mapping operations - and is not generated.)"""
    import contextlib
    import signac

    def one(buffered):
        d = ctx.fresh_dir("c05rm")
        try:
            _reset_buffer_state()
            p = signac.init_project(d)
            res = "ok"
            try:
                with contextlib.ExitStack() as st:
                    if buffered:
                        for cap in case["caps"]:
                            st.enter_context(signac.buffered(cap) if cap is not None else signac.buffered())
                    for n, ent in enumerate(case["jobs"]):
                        wf, reuse = ent[0], ent[1]
                        act = ent[2] if len(ent) > 2 else "remove"
                        j = p.open_job({"n": n})
                        for k, v in wf:
                            j.doc[k] = v
                        if act == "remove":
                            j.remove()
                        elif act == "clear":     # Job.clear(): document and files go, the job stays
                            j.clear()
                        else:                    # Job.reset()
                            j.reset()
                        if act != "remove" and dict(j.doc()) != {}:     # read back through the handle, in both runs
                            res = "read after %s: %r" % (act, j.doc())
                        if reuse:
                            j2 = j if act != "remove" and n % 2 else p.open_job({"n": n})
                            for k, v in reuse:
                                j2.doc[k] = v
                            if buffered and dict(j2.doc()) != dict(reuse):
                                res = "read-in-block:%r" % (j2.doc(),)
            except Exception as e:  # noqa: BLE001
                res = exc_name(e)
            files = {}
            for rel in _listing(d):
                with open(os.path.join(d, rel)) as f:
                    files[rel] = f.read()
                if os.path.basename(rel) == "signac_job_document.json" and files[rel].strip() == "{}":
                    del files[rel]   # an empty document and no document file are the same document
            return res, files
        finally:
            _reset_buffer_state()
            ctx.cleanup(d)

    u, b = one(False), one(True)
    oracle = []
    if u != b:
        oracle.append("Job.remove() / clear() / reset() inside a buffered block: the buffered run ends with %s and leaves %s, the unbuffered run "
                      "ends with %s and leaves %s" % (b[0], json.dumps(b[1])[:300], u[0], json.dumps(u[1])[:300]))
    return {"model": [], "impl": [], "oracle": oracle, "tags": ["rmblock"], "key": "rmblock" + json.dumps(case, sort_keys=True)}


def run_apiblock(case, ctx):
    """Oracle-only family: inside a buffered block the program mixes document reads / writes through ONE handle per
    job (made before the block) with library calls that look at job documents on their own (find_jobs with a document
    filter, groupby on a document key, a state point search, len).  Whatever those calls do internally, the reads
    through the user's handles and the files left on exit are those of the unbuffered run."""
    import contextlib
    import signac

    def one(buffered):
        d = ctx.fresh_dir("c05api")
        try:
            _reset_buffer_state()
            p = signac.init_project(d)
            jobs = []
            for n in range(3):
                j = p.open_job({"n": n}).init()
                if n != 2:
                    j.doc.update({"k": n, "cfg": {"q": [n]}})
                jobs.append(j)
            trace = []
            res = "ok"
            try:
                with contextlib.ExitStack() as st:
                    if buffered:
                        st.enter_context(signac.buffered(case["cap"]) if case["cap"] is not None else signac.buffered())
                    for stp in case["steps"]:
                        if stp[0] == "read":
                            trace.append(enc_val(plain_doc(jobs[stp[1]].doc())))
                        elif stp[0] == "write":
                            jobs[stp[1]].doc[stp[2]] = copy.deepcopy(stp[3])
                        elif stp[0] == "search":
                            kind = stp[1]
                            if kind == "find-doc":
                                list(p.find_jobs({"doc.k": {"$exists": True}}))
                            elif kind == "find-doc-value":
                                list(p.find_jobs({"doc.k": 1}))
                            elif kind == "find-sp":
                                list(p.find_jobs({"n": {"$gte": 1}}))
                            elif kind == "groupby-doc":
                                [(k, [x.id for x in g]) for k, g in p.groupby("doc.k", default=-1)]
                            else:
                                len(p)
            except Exception as e:  # noqa: BLE001
                res = exc_name(e)
            files = {}
            for rel in _listing(d):
                with open(os.path.join(d, rel)) as f:
                    files[rel] = f.read()
            return res, trace, {k: (json.loads(v) if k.endswith(".json") else v) for k, v in files.items()}
        finally:
            _reset_buffer_state()
            ctx.cleanup(d)

    u, b = one(False), one(True)
    oracle = []
    if u != b:
        what = "result" if u[0] != b[0] else "reads through the handles" if u[1] != b[1] else "files left on exit"
        oracle.append("library calls inside a buffered block: the %s differ - buffered run: %s %s %s; unbuffered run: %s %s %s" % (
            what, b[0], b[1], json.dumps(b[2], sort_keys=True)[:300], u[0], u[1], json.dumps(u[2], sort_keys=True)[:300]))
    return {"model": [], "impl": [], "oracle": oracle, "tags": ["apiblock"], "key": "apiblock" + json.dumps(case, sort_keys=True)}


def plain_doc(x):
    if hasattr(x, "items"):
        return {k: plain_doc(v) for k, v in x.items()}
    if isinstance(x, (list, tuple)):
        return [plain_doc(v) for v in x]
    return x


def run_case(case, ctx):
    if "rmblock" in case:
        return run_rmblock(case, ctx)
    if "apiblock" in case:
        return run_apiblock(case, ctx)
    cmds = case["cmds"]
    has_block = any(c.get("c") == "E" for c in cmds)
    runs = [Run(case, cmds, ctx, "as written").execute()]
    if has_block:
        runs.append(Run(case, strip_blocks(cmds), ctx, "unbuffered").execute())
    model = ["run %d %d %s %s" % (len(case["files"]), len(case["objs"]), " ".join(str(f) for f in case["objs"]),
                                  " ".join(r.mtoks)) for r in runs]
    impl = [" ; ".join(r.outs) for r in runs]
    fails = []
    for ri, r in enumerate(runs):
        fails.extend((k, f, i, m, ri) for k, f, i, m in r.fails)
    if has_block:
        b, u = runs
        lb, lu = canon_listing(b.final_listing), canon_listing(u.final_listing)
        end = len(cmds)
        for f, kind in enumerate(case["files"]):
            db, du = b.final_docs[f], u.final_docs[f]
            if (db or {}) != (du or {}):
                fails.append(("final", f, end, "document %s after the buffered program is %r, after the same "
                              "operations unbuffered %r" % (kind, db, du), 0))
            elif (db is None) != (du is None):
                fails.append(("fileset", f, end, "document file of %s: buffered run leaves %s, unbuffered run leaves %s"
                              % (kind, "no file" if db is None else repr(db), "no file" if du is None else repr(du)), 0))
        docs = {os.path.basename(p) for p in lb + lu if p.endswith("_document.json")}
        rest_b = [p for p in lb if os.path.basename(p) not in docs]
        rest_u = [p for p in lu if os.path.basename(p) not in docs]
        if rest_b != rest_u:
            fails.append(("listing", None, end, "files left behind differ: buffered %r, unbuffered %r" % (lb, lu), 0))
    for r in runs:
        left = [p for p in canon_listing(r.final_listing) if "._TMP_" in p]
        if left:
            fails.append(("listing", None, len(cmds), "[%s] temporary files left behind: %r" % (r.label, left), 0))
    ops = [c for c in cmds if "op" in c]
    nmut = sum(1 for c in ops if c["op"] in MUTATING)
    tags = ["ops=%s" % ("0" if not ops else "1-4" if len(ops) <= 4 else "5-12" if len(ops) <= 12 else "13+"),
            "files=%d" % len(case["files"]), "objs=%d" % len(case["objs"]),
            "block" if has_block else "unbuffered"]
    tags += sorted({"cap=%s" % ("default" if c.get("cap") is None else c["cap"]) for c in cmds if c.get("c") == "E"})
    tags += sorted({"op=" + c["op"] for c in ops})
    tags += sorted({"err=" + e for r in runs for e in r.errors})
    if multi_object_files(case):
        tags.append("multi-object-block")
    if any(c.get("c") == "R" for c in cmds):
        tags.append("remove")
    if any(c.get("c") == "K" for c in cmds):
        tags.append("re-key")
    if any(c.get("st") for c in ops):
        tags.append("attr-spelling")
    blocks = runs[0].blocks
    facts = {"noop_absent": sorted({f for bl in blocks for f in bl["absent"]
                                    if f in bl["mut"] and f in bl.get("empty_at_exit", [])}),
             "null_hits": [{str(f): i for f, i in r.null_hits.items()} for r in runs]}
    if any(r.null_hits for r in runs):
        tags.append("none-over-collection")
    return {"model": model, "impl": impl, "oracle": [m for _, _, _, m, _ in fails],
            "fails": [[k, f, i, ri] for k, f, i, _, ri in fails], "facts": facts, "tags": tags,
            "key": json.dumps(cmds, sort_keys=True) if nmut else None}


# ----------------------------------------------------------------------------
# known-finding classes (DESIGN §5): exactly the predicates the `_partial` theorems assume away
# ----------------------------------------------------------------------------
def multi_object_files(case):
    """{file: index of the first command of the first outermost buffered block in which two or more
    distinct handle objects of that file are used}  —  `multi_object_buffered(block)`"""
    out, depth, used, start = {}, 0, {}, 0
    for i, c in enumerate(case["cmds"]):
        if c.get("c") == "E":
            if depth == 0:
                used, start = {}, i
            depth += 1
        elif c.get("c") == "X":
            depth = max(0, depth - 1)
        elif "op" in c and depth > 0:
            f = case["objs"][c["o"]]
            used.setdefault(f, set()).add(c["o"])
            if "src" in c:
                used[f].add(c["src"])
            if len(used[f]) >= 2:
                out.setdefault(f, start)
    return out


def noop_on_absent_doc(case, result):
    """files whose document did not exist when an outermost block was entered, that received at least one
    mutating operation inside it and whose value (plain dict) is `{}` when the block is left"""
    return set(result.get("facts", {}).get("noop_absent", []))


def none_over_collection(case, result):
    """per run: {file: index of the first command at which an update / reset / load brings `None` to a
    place where the acting handle remembers a dict or list}"""
    return [{int(f): i for f, i in d.items()} for d in result.get("facts", {}).get("null_hits", [])]


def known_class(case, result):
    if "rmblock" in case or "apiblock" in case:
        return None
    multi = multi_object_files(case)
    noop = noop_on_absent_doc(case, result)
    nulls = none_over_collection(case, result)
    fails = result.get("fails")
    if not fails:  # asked about a model/implementation disagreement
        return "F-5b" if multi else ("F-5a" if noop else ("F-5d" if any(nulls) else None))
    hit = set()
    for kind, f, i, ri in fails:
        if ri == 0 and f is not None and f in multi and i >= multi[f]:
            hit.add("F-5b")
        elif kind == "fileset" and f in noop:
            hit.add("F-5a")
        elif f is not None and ((ri < len(nulls) and f in nulls[ri] and i >= nulls[ri][f])
                                or (kind in ("final", "fileset") and any(f in d for d in nulls))):
            hit.add("F-5d")
        else:
            return None
    for fid in ("F-5b", "F-5d", "F-5a"):
        if fid in hit:
            return fid
    return None


# ----------------------------------------------------------------------------
# generators
# ----------------------------------------------------------------------------
def _obs_after(case, o, mode):
    """observation commands after an operation through handle o, outside blocks"""
    f = case["objs"][o]
    out = []
    if mode == "all":
        out += [{"o": o2, "op": "read"} for o2, f2 in enumerate(case["objs"]) if f2 == f]
    elif mode == "self":
        out.append({"o": o, "op": "read"})
    if mode in ("all", "self"):
        out.append({"c": "F", "f": f})
    return out


def _obs_all(case, files=None):
    out = []
    for f in range(len(case["files"])):
        if files is not None and f not in files:
            continue
        out += [{"o": o, "op": "read"} for o, f2 in enumerate(case["objs"]) if f2 == f]
        out.append({"c": "F", "f": f})
    return out


def with_observations(case, body, mode):
    """insert reads / file observations: after every operation outside blocks (mode), at every exit of an
    outermost block (all handles of the documents used in it) and at the end (everything)."""
    cmds, depth, used = [], 0, set()
    for c in body:
        cmds.append(c)
        if c.get("c") == "E":
            if depth == 0:
                used = set()
            depth += 1
        elif c.get("c") == "X":
            depth -= 1
            if depth == 0:
                cmds += _obs_all(case, used)
        elif "op" in c:
            if depth > 0:
                used.add(case["objs"][c["o"]])
            else:
                cmds += _obs_after(case, c["o"], mode)
    cmds += _obs_all(case)
    if not multi_object_files(dict(case, cmds=cmds)):
        cmds.append({"c": "H"})  # the model's ghost flag of F-5d against the oracle's own bookkeeping
    return cmds


REDUCED_OPS = [
    {"op": "get", "k": "y"},
    {"op": "set", "p": [], "k": "x", "v": "s"},
    {"op": "set", "p": [], "k": "x", "v": 1.0},
    {"op": "pop", "k": "x", "v": None},
    {"op": "del", "p": [], "k": "x"},
    {"op": "clr"},
    {"op": "rst", "v": {"x": 1}},
    {"op": "upd", "v": {"x": True, "l": [1]}},
    {"op": "app", "p": ["l"], "v": 0},
    {"op": "sdf", "k": "x", "v": {"n": 1}},
    {"op": "set", "p": ["x"], "k": "n", "v": 2},
    {"op": "rst", "v": {}, "st": 1},
    {"op": "live", "src": 0, "st": 2},
]
QUICK_ALPHABET = [(0, 0), (0, 1), (0, 3), (0, 5), (0, 6), (1, 0), (1, 1), (1, 2), (1, 4), (1, 7), (1, 11), (1, 12)]


def exhaustive(tier):
    """all sequences over (handle, op) symbols up to length 3 / 4 on one job document with two handles,
    each unbuffered, inside one default-capacity block, and inside one capacity-0 block"""
    if tier == "quick":
        alphabet, maxlen = QUICK_ALPHABET, 3
    else:
        alphabet, maxlen = QUICK_ALPHABET + [(0, 8)], 4
    base = {"files": ["J0"], "objs": [0, 0]}
    for n in range(1, maxlen + 1):
        for seq in itertools.product(alphabet, repeat=n):
            ops = [dict(REDUCED_OPS[k], o=o) for o, k in seq]
            for layout in (0, 1, 2):
                if layout == 0:
                    body = ops
                elif layout == 1:
                    body = [{"c": "E", "cap": None}] + ops + [{"c": "X"}]
                else:
                    if n > 3:
                        continue
                    body = [{"c": "E", "cap": 0}] + ops + [{"c": "X"}]
                yield dict(base, cmds=with_observations(base, body, "end"))


class RefState:
    """the generator's own plain-dict picture, used to aim operations at existing keys and paths"""

    def __init__(self, nfiles):
        self.docs = [dict() for _ in range(nfiles)]

    def containers(self, f):
        out = []

        def rec(v, path):
            if isinstance(v, (dict, list)):
                out.append((path, v))
                for k, x in (v.items() if isinstance(v, dict) else enumerate(v)):
                    if len(path) < 3:
                        rec(x, path + [k])
        rec(self.docs[f], [])
        return out


def rand_doc_value(rng, depth=2):
    r = rng.random()
    if r < 0.45:
        return copy.deepcopy(rng.choice(PYEQ_VALUES))
    if r < 0.6:
        return {rng.choice(KEYS): rand_doc_value(rng, depth - 1) for _ in range(rng.randint(0, 3))} if depth > 0 else 1
    if r < 0.7:
        return [rand_doc_value(rng, depth - 1) for _ in range(rng.randint(0, 3))] if depth > 0 else [1]
    v = gen.rand_value(rng, depth)
    return _no_dots(v)


def _no_dots(v):
    if isinstance(v, dict):
        return {k.replace(".", "_"): _no_dots(x) for k, x in v.items()}
    if isinstance(v, list):
        return [_no_dots(x) for x in v]
    return v


def rand_key(rng, d=None):
    if isinstance(d, dict) and d and rng.random() < 0.6:
        return rng.choice(sorted(d))
    return rng.choice(KEYS)


def rand_op(rng, st, f):
    conts = st.containers(f)
    doc = st.docs[f]
    r = rng.random()
    spelling = 1 if rng.random() < 0.3 else 0
    if r < 0.22:
        if rng.random() < 0.6 or len(conts) == 1:
            path, tgt = [], doc
        else:
            path, tgt = rng.choice(conts)
        if isinstance(tgt, list):
            if rng.random() < 0.7:
                return {"op": "idx", "p": path, "i": rng.randint(-len(tgt) - 1, len(tgt)), "v": rand_doc_value(rng, 1)}
            return {"op": "set", "p": path, "k": rand_key(rng), "v": 1}
        return {"op": "set", "p": path, "k": rand_key(rng, tgt), "v": rand_doc_value(rng), "st": spelling}
    if r < 0.32:
        path, tgt = rng.choice(conts)
        if isinstance(tgt, list):
            return {"op": "del", "p": path, "k": rand_key(rng)}
        return {"op": "del", "p": path, "k": rand_key(rng, tgt), "st": spelling}
    if r < 0.42:
        lists = [(p, t) for p, t in conts if isinstance(t, list)]
        if lists and rng.random() < 0.85:
            path, _ = rng.choice(lists)
        else:
            path, _ = rng.choice(conts)
        if rng.random() < 0.5:
            return {"op": "app", "p": path, "v": rand_doc_value(rng, 1), "st": spelling}
        return {"op": "ext", "p": path, "v": [rand_doc_value(rng, 1) for _ in range(rng.randint(0, 3))]}
    if r < 0.47:  # a path that does not exist / runs into a scalar
        path = [rng.choice(KEYS + [0, 5]) for _ in range(rng.randint(1, 2))]
        return {"op": rng.choice(["set", "del"]), "p": path, "k": rand_key(rng), "v": 1}
    if r < 0.55:
        return {"op": "pop", "k": rand_key(rng, doc), "v": rng.choice([None, 0, "d"])}
    if r < 0.62:
        return {"op": "sdf", "k": rand_key(rng, doc), "v": rand_doc_value(rng)}
    if r < 0.72:
        d = {rand_key(rng, doc): rand_doc_value(rng) for _ in range(rng.randint(0, 3))}
        return {"op": "upd", "v": d, "st": spelling}
    if r < 0.75:
        return {"op": "clr"}
    if r < 0.76:
        return {"op": "bad", "kind": rng.choice(["dot", "list", "int", "set"]), "st": rng.choice([0, 1, 2])}
    if r < 0.775:
        return {"op": "live", "src": None, "st": rng.choice([0, 1, 2])}  # source handle chosen by the caller
    if r < 0.86:
        if rng.random() < 0.15:
            return {"op": "rst", "v": {}, "st": rng.choice([1, 2])}
        if doc and rng.random() < 0.5:  # a re-typed / re-ordered copy of the current value
            items = [(k, _retype(v, rng)) for k, v in doc.items()]
            rng.shuffle(items)
            d = dict(items[: rng.randint(0, len(items))] if rng.random() < 0.4 else items)
        else:
            d = {rand_key(rng, doc): rand_doc_value(rng) for _ in range(rng.randint(0, 3))}
        return {"op": "rst", "v": d, "st": rng.choice([0, 0, 1, 2])}
    if r < 0.93:
        return {"op": "get", "k": rand_key(rng, doc)}
    return {"op": "read"}


def _retype(v, rng):
    if isinstance(v, bool):
        return rng.choice([v, int(v), float(v)])
    if isinstance(v, int) and abs(v) < 2**50:
        return rng.choice([v, float(v)] + ([bool(v)] if v in (0, 1) else []))
    if isinstance(v, float) and v.is_integer() and abs(v) < 2**50:
        return rng.choice([v, int(v)])
    if isinstance(v, dict):
        return {k: _retype(x, rng) for k, x in v.items()}
    if isinstance(v, list):
        return [_retype(x, rng) for x in v]
    return v


def rand_layout(rng):
    njobs = rng.choice([1, 1, 2, 3])
    files = ["J%d" % i for i in range(njobs)] + (["P"] if rng.random() < 0.7 else [])
    objs = []
    for f in range(len(files)):
        objs += [f] * rng.choice([1, 1, 2, 3])
    return {"files": files, "objs": objs}


def rand_ops(rng, layout, n, allow_rm=True):
    """a block-free operation sequence (with occasional remove())"""
    st = RefState(len(layout["files"]))
    body = []
    for _ in range(n):
        o = rng.randrange(len(layout["objs"]))
        f = layout["objs"][o]
        if allow_rm and layout["files"][f] != "P" and rng.random() < 0.03:
            body.append({"c": "R", "f": f, "o": o})
            st.docs[f] = {}
            continue
        if allow_rm and layout["files"][f] != "P" and rng.random() < 0.03:
            body.append({"c": "K", "f": f, "o": o})  # re-key: the document moves with the job
            continue
        if allow_rm and rng.random() < 0.04:
            body.append({"c": "N", "f": f})  # every handle of the document is obtained afresh
            continue
        op = dict(rand_op(rng, st, f), o=o)
        if op["op"] == "live":
            op["src"] = rng.choice([o2 for o2, f2 in enumerate(layout["objs"]) if f2 == f])
        ref_apply(st.docs[f], op)
        body.append(op)
    return body


def add_blocks(rng, body, full, one_object=False, layout=None):
    """wrap everything in one block (full) or scatter (nested) sub-blocks; remove() stays outside blocks"""
    if full:
        segs, cur = [], []
        for c in body:  # remove() cannot run inside a block: split around it
            if c.get("c") in ("R", "K", "N"):
                if cur:
                    segs.append(cur)
                segs.append([c])
                cur = []
            else:
                cur.append(c)
        if cur:
            segs.append(cur)
        cap = rng.choice(CAPS)
        out = []
        for s in segs:
            out += s if s[0].get("c") in ("R", "K", "N") else [{"c": "E", "cap": cap}] + s + [{"c": "X"}]
        return out
    out, depth = [], 0
    for c in body:
        if c.get("c") in ("R", "K", "N"):
            out += [{"c": "X"}] * depth
            depth = 0
            out.append(c)
            continue
        r = rng.random()
        if r < 0.18 and depth < 3:
            out.append({"c": "E", "cap": rng.choice(CAPS)})
            depth += 1
        elif r < 0.30 and depth > 0:
            out.append({"c": "X"})
            depth -= 1
        out.append(c)
    out += [{"c": "X"}] * depth
    return out


def one_object_per_block(layout, body, rng):
    """re-route operations so that inside each outermost block every document is used through one handle"""
    out, depth, rep = [], 0, {}
    for c in body:
        c = dict(c)
        if c.get("c") == "E":
            if depth == 0:
                rep = {}
            depth += 1
        elif c.get("c") == "X":
            depth -= 1
        elif "op" in c and depth > 0:
            f = layout["objs"][c["o"]]
            c["o"] = rep.setdefault(f, c["o"])
            if "src" in c:
                c["src"] = c["o"]
        out.append(c)
    return out


def random_cases(rng, n):
    for j in range(n):
        layout = rand_layout(rng)
        length = rng.choice([2, 3, 5, 8, 12, 20, 30, 40])
        body = rand_ops(rng, layout, length)
        mode = rng.choice(["all", "self", "end", "end"])
        variants = [add_blocks(rng, body, full=True), add_blocks(rng, body, full=False)]
        if j % 7 == 0:
            variants.append(body)
        for v in variants:
            if rng.random() < 0.6:  # the proven domain: one handle object per document per block
                v = one_object_per_block(layout, v, rng)
            yield dict(layout, cmds=with_observations(layout, v, mode))


WITNESS_SHAPES = [  # small hand-shaped families around absent documents and two handles (still generated, not pinned)
    lambda rng: [{"c": "E", "cap": rng.choice(CAPS)},
                 dict(rng.choice([{"op": "pop", "k": "q", "v": None}, {"op": "del", "p": [], "k": "q"}, {"op": "clr"},
                                  {"op": "upd", "v": {}}, {"op": "rst", "v": {}}, {"op": "get", "k": "q"}]), o=0),
                 dict(rng.choice([{"op": "pop", "k": "q", "v": None}, {"op": "clr"}, {"op": "read"},
                                  {"op": "set", "p": [], "k": "a", "v": 1}]), o=0),
                 {"c": "X"}],
]


def setter_cases(rng, n):
    """whole assignments through the owner's setter around fresh handles: a document written through one
    handle, then (optionally after re-obtaining every handle) `other.document = v` / `other.doc = v` as the
    FIRST document operation of that handle: v = {}, a small dict, the live view of the same document, or a
    value the library must refuse; unbuffered and inside a block"""
    for _ in range(n):
        proj = rng.random() < 0.3
        layout = {"files": ["P"] if proj else ["J0"], "objs": [0, 0, 0]}
        first = rng.choice([{"op": "set", "p": [], "k": "x", "v": rng.choice([1, "s", {"n": [1]}])},
                            {"op": "rst", "v": {"x": 1, "y": [1]}, "st": rng.choice([0, 1, 2])},
                            {"op": "upd", "v": {"k": 0}}])
        body = [dict(first, o=0)]
        if rng.random() < 0.5:
            body.append({"c": "N", "f": 0})
        second = rng.choice([
            {"op": "rst", "v": {}, "st": rng.choice([1, 2])},
            {"op": "rst", "v": {}, "st": rng.choice([1, 2])},
            {"op": "rst", "v": {"z": 1}, "st": rng.choice([1, 2])},
            {"op": "live", "src": rng.choice([0, 1]), "st": rng.choice([0, 1, 2])},
            {"op": "live", "src": 1, "st": rng.choice([1, 2])},
            {"op": "bad", "kind": rng.choice(["dot", "list", "int", "set"]), "st": rng.choice([0, 1, 2])},
        ])
        tail = [dict(second, o=1)]
        if rng.random() < 0.3:
            tail.append({"o": 1, "op": rng.choice(["read", "get"]), "k": "x"})
        if rng.random() < 0.4:
            tail = [{"c": "E", "cap": rng.choice(CAPS)}] + tail + [{"c": "X"}]
        yield dict(layout, cmds=with_observations(layout, body + tail, rng.choice(["end", "end", "self"])))


def rmblock_cases(rng, n):
    for _ in range(n):
        jobs = []
        for _j in range(rng.choice([1, 1, 2])):
            wf = [[rng.choice(["x", "cfg", "a"]), rng.choice([1, {"q": [1, 2]}, "s"])] for _ in range(rng.choice([0, 1, 2]))]
            reuse = [[rng.choice(["y", "x"]), rng.choice([2, [3], None])]] if rng.random() < 0.6 else []
            jobs.append([wf, reuse, rng.choice(["remove", "remove", "clear", "reset"])])
        # default capacity only: with a small capacity the document is flushed to disk inside the block and the
        # removal then belongs to the situations the pinned tree answers with BufferedError (see run_rmblock)
        yield {"rmblock": 1, "jobs": jobs, "caps": [None] + ([None] if rng.random() < 0.3 else [])}


def apiblock_cases(rng, n):
    # (groupby on a document key is not in the list: it reads the documents through Job handles of its own, i.e.
    # second handle objects of the same files inside the block - the recorded class F-5b of the dependency)
    kinds = ["find-doc", "find-doc-value", "find-sp", "len"]
    yield {"apiblock": 1, "cap": None, "steps": [["read", 0], ["search", "find-doc"], ["write", 0, "x", 1]]}
    for _ in range(n):
        steps = []
        for _s in range(rng.choice([2, 3, 4, 6])):
            r = rng.random()
            if r < 0.35:
                steps.append(["read", rng.randrange(3)])
            elif r < 0.7:
                steps.append(["write", rng.randrange(3), rng.choice(["x", "k", "cfg"]), rng.choice([1, 2, {"q": [7]}, "s", None])])
            else:
                steps.append(["search", rng.choice(kinds)])
        yield {"apiblock": 1, "cap": rng.choice([None, None, 64]), "steps": steps}


def generate(tier, rng):
    for c in rmblock_cases(rng, 40 if tier == "quick" else 400):
        yield c
    for c in apiblock_cases(rng, 60 if tier == "quick" else 600):
        yield c
    for c in exhaustive(tier):
        yield c
    for c in setter_cases(rng, 300 if tier == "quick" else 3000):
        yield c
    base = {"files": ["J0", "P"], "objs": [0, 1]}
    for _ in range(40 if tier == "quick" else 400):
        yield dict(base, cmds=with_observations(base, WITNESS_SHAPES[0](rng), "end"))
    for c in random_cases(rng, 4000 if tier == "quick" else 30000):
        yield c


def search(rng, deadline):
    while True:
        for c in random_cases(rng, 50):
            yield c


def shrink(case):
    if "apiblock" in case:
        for i in range(len(case["steps"])):
            if len(case["steps"]) > 1:
                yield dict(case, steps=case["steps"][:i] + case["steps"][i + 1:])
        return
    if "rmblock" in case:
        for i in range(len(case["jobs"])):
            if len(case["jobs"]) > 1:
                yield dict(case, jobs=case["jobs"][:i] + case["jobs"][i + 1:])
        return
    cmds = case["cmds"]
    # drop one operation / observation
    for i, c in enumerate(cmds):
        if c.get("c") not in ("E", "X"):
            yield dict(case, cmds=cmds[:i] + cmds[i + 1:])
    # drop a matched enter/exit pair
    stack = []
    for i, c in enumerate(cmds):
        if c.get("c") == "E":
            stack.append(i)
        elif c.get("c") == "X" and stack:
            s = stack.pop()
            yield dict(case, cmds=[x for j, x in enumerate(cmds) if j not in (s, i)])
    # default capacity
    for i, c in enumerate(cmds):
        if c.get("c") == "E" and c.get("cap") is not None:
            yield dict(case, cmds=cmds[:i] + [{"c": "E", "cap": None}] + cmds[i + 1:])
    # smaller values, plain spelling
    for i, c in enumerate(cmds):
        if "op" in c:
            if c.get("st"):
                yield dict(case, cmds=cmds[:i] + [dict(c, st=0)] + cmds[i + 1:])
            if "v" in c:
                for s in gen.shrink_value(c["v"]):
                    if c["op"] in ("upd", "rst") and not isinstance(s, dict):
                        continue
                    if c["op"] == "ext" and not isinstance(s, list):
                        continue
                    yield dict(case, cmds=cmds[:i] + [dict(c, v=s)] + cmds[i + 1:])
    # drop unused handle objects
    used = {c["o"] for c in cmds if "o" in c}
    for o in range(len(case["objs"]) - 1, -1, -1):
        if o not in used and len(case["objs"]) > 1:
            objs = case["objs"][:o] + case["objs"][o + 1:]
            ren = [dict(c, o=c["o"] - 1) if "o" in c and c["o"] > o else c for c in cmds]
            if set(objs) == set(case["objs"]):
                yield dict(case, objs=objs, cmds=ren)
            break


TECHNIQUE = ("Lean 4 theorems about an executable model of the synced document (per-handle in-memory value, "
             "`==`-skipping in-place merge on every load / reset / update, shared per-file buffer entry, LIFO flush "
             "deciding from the flushing object, capacity-forced flush, nested blocks), proved via a simulation "
             "invariant between the buffered run and its unbuffered counterpart; differential correspondence of the "
             "compiled model (exact key order and number types) against the real signac on generated programs, each "
             "also run unbuffered; plain-dict oracle independent of the model")
LEVEL_TEXT = ("Proved in Lean for all programs (any length, any number of documents and handle objects, any interleaving): "
              "(1) doc_refines_dict — unbuffered, every document file and every result (returned values, whole-document "
              "reads through any handle, error kinds) equals the same operations on a plain dict per document, values "
              "compared by Sim = Python equality made exact in everything but the number type of numeric leaves "
              "(True/1/1.0) and dict order; (2) read_sees_last_write — after a saving operation the file holds what the "
              "writer holds and a read through any other handle returns it; (3) buffered_equiv_partial, "
              "buffered_read_own_writes, buffered_files_partial — for any capacities and nesting, once all blocks are "
              "closed the buffered program leaves the same documents (and, if no document absent at the start ends as "
              "an empty file, the same set of files) as the program without blocks, and every operation inside a block "
              "returns what the unbuffered run returns — under the hypothesis that each document is used through one "
              "handle object (OneObjectPerFile). The unrestricted statements are refuted in Lean from the witnesses of "
              "findings F-5b / F-5a (not_buffered_equiv_full, not_buffered_files_full). All theorems assume no merge "
              "brings None onto a remembered dict/list (finding F-5d, ghost flag `hit`) and duplicate-free keys. The model "
              "is tied to the code by a line-exact correspondence (key order, number types, error kinds, file presence) on "
              "every generated program, also inside the three known-finding classes.")
LEVEL_NOTE = ("Trusted: Lean kernel (three concrete runs are evaluated with `decide +kernel`); axioms propext / "
              "Classical.choice / Quot.sound; harness (generator, wire format, plain-dict oracle, class predicates). "
              "Modelled, not verified: the dependency synced_collections (its merge, buffer and flush protocol are stated "
              "in Signac/Doc.lean and exercised on every case), md5-of-text comparison = value identity, JSON text length "
              "for capacity accounting. Not covered: several processes / threads, per-collection `.buffered` contexts, "
              "remove() / re-keying inside a buffered block (raises BufferedError in the real code), stale Job objects "
              "after another object removed or re-keyed the job (re-opened by the harness), non-JSON values, keys with "
              "dots. Known findings (dependency defects, model mirrors them): F-5a, F-5b, F-5d.")

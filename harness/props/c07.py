"""C07 — all query front ends, cursors and groupby agree with find_jobs (DESIGN §4 C07)."""
import contextlib
import io
import itertools
import json
import re
import sys
import os
import random
import warnings

from harness import query_common as qc
from harness.core import enc_val, exc_name, tagged

ID = "C07"
TITLE = "All query front ends, cursors and groupby agree with find_jobs"
LEAN_MODULE = "Signac.Properties.C07"
DRIVER = "drv_query"
DESIGN_REF = "DESIGN.md §4 C07"
RULE = ("one evaluation = one corpus (0-6 jobs as in C06, real project on disk) with a batch of items: "
        "(a) a filter and 4 equivalent spellings produced by rewriting rules (nested<->dotted keys, optional sp. "
        "prefix, operator as nested mapping<->key suffix, namespace as mapping, recursively below $and/$or/$not), "
        "(b) command-line token lists (key value pairs with ints, floats, true/false/null, strings, /regex/, '!', "
        "JSON values, whole-JSON filters; malformed tokens) against the mapping they denote, through "
        "parse_filter_arg, _find_job_ids and find_jobs(str), (c) the cursor API (len, iteration twice, every index "
        "in [-n-1, n], sampled slices incl. negative/zero steps, membership of every job and of a foreign job), "
        "(d) groupby over top-level, dotted/nested, sp./doc. prefixed keys, tuples of keys, None, callables, with "
        "and without default, on filtered and unfiltered cursors (raw labels: a single key never yields a tuple); distinct = distinct (corpus, items) JSON; "
        "non-trivial = at least one job")
MODELLED = ["int(str), float(str), json.loads (results supplied per case by the harness as tables)",
            "re.search, math.isclose (tables, as in C06)", "sorted() on mutually comparable labels; itertools.groupby",
            "argparse (token lists are handed to parse_filter_arg / _find_with_filter directly)"]
ASSUMPTIONS = ["as C06", "group labels are compared only when every pair of labels can be ordered",
               "callable grouping keys are judged by the oracle only (outside the Lean model)",
               "list-valued defaults are not generated (synced lists and plain lists do not order consistently)"]
EXHAUSTIVE = {"quick": False, "thorough": False}
TECHNIQUE = ("Lean 4 theorems about the executable model (flattening/prefixing normal form of filters, command-line "
             "parser with CPython's int/float/json.loads as parameters, cursor as an id list with Python index/slice "
             "semantics, groupby = exists-prefilter + key function + stable sort + adjacent grouping) + differential "
             "correspondence against the real parse_filter_arg / find_jobs / JobsCursor / groupby on real projects + "
             "brute-force oracles (spelling agreement, list semantics, partition by each job's own value)")

GROUP_KEYS = [None, "a", "b", "sp.a", "n.x", "sp.n.x", "n.y", "doc.d", "doc.a", "doc.m.x", "x",
              "spin", "sp.spin", "docs", "doc.spin", ["spin", "a"], ["docs", "doc.spin"],
              ["a", "b"], ["a", "doc.d"], ["doc.d", "a"], ["n.x", "doc.m.x"], ["sp.b", "n.y"], ["a"], ["doc.a", "doc.d"],
              "call:a", "call:id"]
DEFAULTS = [None, None, None, -7, "zz", 0]
CLI_VALUES = ["1", "0", "-1", "2", "1.0", "0.5", "-2.0", "1e0", "true", "false", "null", "a", "ab", "b", "True",
              "None", "/a/", "/^a/", "/b$/", "/", "//", "!",
              # characters a shell-style tokeniser would treat specially (string filters are split on whitespace only)
              "/^\\d$/", "/^1\\.0$/", "/\\w+/", "a\\b", "a'b", "'a'", "#a", "a;b", '{"$lt": 1}', '{"$in": [1, "a"]}', "[1, 2]", "[1]",
              '{"$exists": false}', '"a"', "1_0", " 1", "+1", "1.", ".5", "0x10", '{"$type": "int"}', '{"x": 1}']
CLI_KEYS = ["a", "b", "sp.a", "n.x", "doc.d", "doc.a", "doc.m.x", "a.$lt", "doc.d.$gte", "n", "a.$exists", "x",
            "spin", "docs", "sp.spin", "doc.spin", "spin.$gte"]
CLI_MALFORMED = [[""], ["a", ""], ["{a", "1"], ['{"a": 1}', "2"], ["[1]", "2"], ["a", "{bad}"], ["a", "[1,"], ["{"], ["[]"],
                 ['{"a": 1'], ["a", "1", "b"], ["a", "1", ""], ["a", "1", "a", "2"], ["a", "1", "sp.a", "2"], ["{}"],
                 ["[1, 2]"], ['{"a": {"$foo": 1}}'], ["a", "{}"], ["a", "[]"], ["a.$foo", "1"], ['{"$and": []}'], ["null"], ["a", "nan_x"]]


def _rand_cli_tokens(rng):
    n = rng.choice([1, 2, 2, 2, 3, 4, 4, 6])
    toks = []
    keys = rng.sample(CLI_KEYS, min(len(CLI_KEYS), (n + 1) // 2))
    for i in range(n):
        toks.append(keys[i // 2] if i % 2 == 0 else rng.choice(CLI_VALUES))
    return toks


def _whole_json_tokens(rng):
    f = qc.rand_filter(rng, rng.choice([0, 1, 2]))
    return [json.dumps(f)]


def _group_items(rng, n):
    out = []
    for _ in range(n):
        key = rng.choice(GROUP_KEYS)
        flt = {} if rng.random() < 0.6 else rng.choice([{"a": {"$exists": True}}, {"b": {"$exists": False}},
                                                         {"doc.d": {"$exists": True}}, {"a": {"$ne": "zz"}},
                                                         {"a": {"$gte": 1}}, {"sp.a": {"$lt": 2}}, {"doc.d": {"$gt": 0}},
                                                         {"spin": {"$exists": True}}, {"b": {"$in": [1, "a", True]}},
                                                         {"$or": [{"a": 1}, {"n.x": {"$exists": True}}]}])
        out.append({"kind": "group", "filter": flt, "key": key, "default": rng.choice(DEFAULTS)})
    return out


def _corpus(rng, i):
    """C06 corpora, groupable ones (one value family per key), and some with a top-level key `x`
    (what a wrongly stripped `n.x` would address)"""
    m = i % 6
    if m in (0, 1):
        jobs = qc.rand_corpus(rng, typed=rng.choice(["num", "str"]))
    elif m == 2:
        jobs = qc.rand_corpus(rng, typed="num")
        for sp, doc in jobs:
            if rng.random() < 0.6:
                sp["x"] = rng.choice([10, 11, 12])
        seen, out = set(), []
        for sp, doc in jobs:
            k = json.dumps(sp, sort_keys=True)
            if k not in seen:
                seen.add(k)
                out.append([sp, doc])
        jobs = out
    else:
        jobs = qc.rand_corpus(rng)
    return jobs


def _items(rng, tier_scale):
    items = []
    for _ in range(3):
        for tries in range(8):
            f = qc.rand_filter(rng, rng.choice([0, 1, 1, 2, 3]))
            if qc.respellable(f):
                break
        else:
            f = {"a": 1}
        items.append({"kind": "spell", "filter": f, "seed": rng.randrange(1 << 30)})
    for _ in range(4):
        items.append({"kind": "cli", "tokens": _rand_cli_tokens(rng) if rng.random() < 0.8 else _whole_json_tokens(rng)})
    flat = {k: rng.choice([None, None, 1, 0, "a", True, 1.0]) for k in rng.sample(["a", "b", "spin"], rng.choice([1, 1, 2]))}
    items.append({"kind": "cursor", "filter": rng.choice([{}, {"a": {"$exists": True}}, qc.rand_filter(rng, 1), flat, flat]),
                  "seed": rng.randrange(1 << 30)})
    items += _group_items(rng, 5)
    return items


def generate(tier, rng):
    n = 6000 if tier == "quick" else 54000
    for i in range(n):
        yield {"jobs": _corpus(rng, i), "items": _items(rng, 1)}
    # every malformed token list, every grouping key x default on fixed corpora
    for i in range(6 if tier == "quick" else 40):
        yield {"jobs": _corpus(rng, i), "items": [{"kind": "cli", "tokens": t} for t in CLI_MALFORMED]}
        yield {"jobs": _corpus(rng, 2), "items": [{"kind": "group", "filter": {}, "key": k, "default": d}
                                                  for k in GROUP_KEYS for d in (None, -7)]}
    yield {"jobs": [], "items": [{"kind": "cursor", "filter": {}, "seed": 1}, {"kind": "group", "filter": {}, "key": "a", "default": None},
                                 {"kind": "cli", "tokens": []}, {"kind": "spell", "filter": {"a": 1}, "seed": 1}]}


def search(rng, deadline):
    i = 0
    while True:
        i += 1
        yield {"jobs": _corpus(rng, i), "items": _items(rng, 1)}


def shrink(case):
    items = case["items"]
    if len(items) > 1:
        for it in items:
            yield dict(case, items=[it])
    for jobs in qc.shrink_jobs(case["jobs"]):
        yield dict(case, jobs=jobs)
    if len(items) == 1:
        it = items[0]
        if "filter" in it:
            for g in qc.shrink_filter(it["filter"]):
                yield dict(case, items=[dict(it, filter=g)])
        if it["kind"] == "cli" and len(it["tokens"]) > 2:
            yield dict(case, items=[dict(it, tokens=it["tokens"][:2])])
            yield dict(case, items=[dict(it, tokens=it["tokens"][2:])])
        if it["kind"] == "group" and isinstance(it["key"], list) and len(it["key"]) > 1:
            for k in it["key"]:
                yield dict(case, items=[dict(it, key=k)])
        if it["kind"] == "group" and it.get("default") is not None:
            yield dict(case, items=[dict(it, default=None)])


# ----------------------------------------------------------------------------------------------
def _stripped(key):
    head, dot, rest = key.partition(".")
    return (rest if dot and head in ("sp", "doc") else key), (dot and head == "doc")


def _nested_key(key):
    keys = key if isinstance(key, list) else [key]
    return any(isinstance(k, str) and not k.startswith("call:") and "." in _stripped(k)[0] for k in keys)


_NOVAL = object()


def _own_value(sp, doc, key, default):
    s, isdoc = _stripped(key)
    v = (doc if doc is not None else {}) if isdoc else sp
    for node in s.split("."):
        if isinstance(v, dict) and node in v:
            v = v[node]
        else:
            return _NOVAL if default is None else default
    return v


def _own_label(i, sp, doc, key, default):
    """the job's own value for a grouping key (independent of signac)"""
    if key is None:
        return i
    if isinstance(key, list):
        spk = [k for k in key if not _stripped(k)[1]]
        dock = [k for k in key if _stripped(k)[1]]
        vals = [_own_value(sp, doc, k, default) for k in spk + dock]
        return _NOVAL if any(v is _NOVAL for v in vals) else vals
    return _own_value(sp, doc, key, default)


def _orderable(labels):
    for a, b in itertools.permutations(labels, 2):
        try:
            a < b
        except TypeError:
            return False
    if len(labels) == 1:
        return True
    for a in labels:
        try:
            a < a
        except TypeError:
            return False
    return True


def _cli_find(path, toks, sub=("find",)):
    """run `signac find <toks>` (or another sub-command) in-process with the project directory as cwd;
    (sorted printed words, exit code)"""
    import signac.__main__ as M

    out, err = io.StringIO(), io.StringIO()
    old_argv, old_cwd = sys.argv, os.getcwd()
    code = 0
    try:
        os.chdir(path)
        sys.argv = ["signac"] + list(sub) + list(toks)
        with contextlib.redirect_stdout(out), contextlib.redirect_stderr(err):
            try:
                M.main()
            except SystemExit as e:
                code = e.code if isinstance(e.code, int) else (0 if e.code is None else 1)
    finally:
        sys.argv = old_argv
        os.chdir(old_cwd)
    return sorted(x for x in out.getvalue().split() if x), code


def _cli_tables(tokens):
    ints, floats, jsons = [], [], []
    for t in qc.uniq(tokens):
        try:
            ints.append([t, int(t)])
        except ValueError:
            ints.append([t, None])
        try:
            x = float(t)
            floats.append([t, x if x == x and x not in (float("inf"), float("-inf")) else None])
        except ValueError:
            floats.append([t, None])
        if t and ((t[0] == "{" and t[-1] == "}") or (t[0] == "[" and t[-1] == "]")):
            try:
                jsons.append([t, json.loads(t), True])
            except ValueError:
                jsons.append([t, None, False])
    return {"ints": ints, "floats": floats, "jsons": jsons}


def _denoted(tokens):
    """the mapping a token list denotes according to the documented simple syntax (independent
    re-statement; None = outside the documented syntax, no verdict)"""
    if not tokens:
        return {}
    if len(tokens) == 1 and tokens[0][:1] in ("{", "["):
        try:
            m = json.loads(tokens[0])
        except ValueError:
            return None
        return m if isinstance(m, dict) else None
    out = {}
    for i in range(0, len(tokens), 2):
        k = tokens[i]
        if not k or k[0] in "{[" or k in out:
            return None
        v = tokens[i + 1] if i + 1 < len(tokens) else None
        if v is None or v == "!":
            out[k] = {"$exists": True}
        elif v == "":
            return None
        elif v[0] in "{[":
            try:
                out[k] = json.loads(v)
            except ValueError:
                return None
        elif len(v) >= 1 and v[0] == "/" and v[-1] == "/":
            out[k] = {"$regex": v[1:-1]}
        elif v in ("true", "false", "null"):
            out[k] = {"true": True, "false": False, "null": None}[v]
        else:
            try:
                out[k] = int(v)
            except ValueError:
                try:
                    out[k] = float(v)
                except ValueError:
                    out[k] = v
    return out


def run_case(case, ctx):
    import signac
    from signac.filterparse import parse_filter_arg

    jobs, items = case["jobs"], case["items"]
    d, project, listing = qc.build_project(ctx, jobs, "c07")
    order = [i for i, _, _ in listing]
    pos = {i: n for n, i in enumerate(order)}
    data = {i: (sp, doc) for i, sp, doc in listing}
    model, impl, oracle, tags, dbg = [], [], [], ["jobs=%d" % len(listing)], []
    fail_classes = []

    def emit(line, answer, what):
        model.append(line)
        impl.append(answer)
        dbg.append(what)

    def find_item(flt, fails):
        """real find + model line + reference verdict; returns (ids | None, line)"""
        line, ids = qc.impl_find(project, flt, order)
        if isinstance(flt, dict):
            emit("find " + qc.payload(listing, flt), line, flt)
        acc, reason = qc.oracle_set(listing, flt) if isinstance(flt, dict) else (None, "malformed")
        if acc is not None:
            if ids is None:
                fails.append("find_jobs(%r) raises %s for a well-typed filter" % (flt, line[4:]))
            elif ids != acc:
                fails.append("find_jobs(%r) = %s but per-job evaluation accepts %s; jobs %s"
                             % (flt, sorted(ids), sorted(acc), [[i, sp, doc] for i, sp, doc in listing]))
        return ids, line, acc

    try:
        for it in items:
            kind = it["kind"]
            tags.append("kind=" + kind)
            fails, cls = [], None
            if kind == "spell":
                flt = it["filter"]
                prng = random.Random(it["seed"])
                spellings = [flt] + [qc.respell(flt, prng) for _ in range(4)]
                results = []
                for s in spellings:
                    ids, line, acc = find_item(s, fails)
                    results.append((s, ids, line))
                    cls = cls or qc.known_class_of(listing, s)
                base = results[0]
                for s, ids, line in results[1:]:
                    if (ids is None) != (base[1] is None) or (ids is not None and ids != base[1]):
                        # an exception in one spelling and not in another is a disagreement only for
                        # well-typed filters (early exits depend on the order of the entries)
                        acc, _ = qc.oracle_set(listing, flt)
                        if acc is not None or (ids is not None and base[1] is not None):
                            fails.append("spellings disagree: %r -> %s but %r -> %s" % (base[0], base[2], s, line))
                tags.append("spell-depth=%d" % qc.filter_depth(flt))
            elif kind == "cli":
                toks = it["tokens"]
                with contextlib.redirect_stderr(io.StringIO()):
                    try:
                        parsed = parse_filter_arg(toks)
                        pline = "none" if parsed is None else "ok " + enc_val(parsed)
                    except Exception as e:  # noqa
                        parsed, pline = None, "err " + exc_name(e)
                extra = _cli_tables(toks)
                emit("parse " + enc_val(dict(toks=toks, **extra)), pline, toks)
                want = _denoted(toks)
                tags.append("cli=" + ("denoted" if want is not None else "other") + "/" + pline.split(" ")[0])
                if want is not None:
                    got = {} if parsed is None else parsed
                    if pline.startswith("err"):
                        fails.append("parse_filter_arg(%r) raises %s; the tokens denote %r" % (toks, pline[4:], want))
                    elif tagged(got) != tagged(want) or list(got) != list(want):
                        fails.append("parse_filter_arg(%r) = %r; the tokens denote %r" % (toks, got, want))
                    else:
                        # command line == mapping: same jobs through every entry point
                        ids_m, line_m, acc = find_item(want, fails)
                        cls = cls or qc.known_class_of(listing, want)
                        try:
                            with contextlib.redirect_stderr(io.StringIO()):
                                ids_c = set(project._find_job_ids(parse_filter_arg(toks) or None))
                            line_c = "ok"
                        except Exception as e:  # noqa
                            ids_c, line_c = None, "err " + exc_name(e)
                        if (ids_c is None) != (ids_m is None) or (ids_c is not None and ids_c != ids_m):
                            fails.append("command line %r selects %s, the mapping %r selects %s"
                                         % (toks, line_c if ids_c is None else sorted(ids_c), want, line_m))
                        # ... and through the real entry point `signac find <tokens>` (argparse + main_find)
                        if ids_m is not None and all(not t.startswith("-") for t in toks):
                            printed, code = _cli_find(project.path, toks)
                            if code != 0 or printed != sorted(ids_m):
                                fails.append("`signac find %s` exits %s and prints %s, the mapping %r selects %s"
                                             % (" ".join(map(repr, toks)), code, printed, want, sorted(ids_m)))
                            # another front end with a selection: `signac diff -f <tokens>` lists exactly the selected jobs
                            printed, code = _cli_find(project.path, toks, sub=["diff", "-f"]) if toks else (sorted(ids_m), 0)
                            printed = [x for x in printed if re.fullmatch(r"[0-9a-f]{32}", x)]
                            if code != 0 or printed != sorted(ids_m):
                                fails.append("`signac diff -f %s` exits %s and lists %s, the mapping %r selects %s"
                                             % (" ".join(map(repr, toks)), code, printed, want, sorted(ids_m)))
                        if toks and all(t and not any(c.isspace() for c in t) for t in toks) and len(toks) != 1:
                            text = " ".join(toks)
                            with contextlib.redirect_stderr(io.StringIO()):
                                line_s, ids_s = qc.impl_find(project, text, order)
                            emit("pstr " + enc_val(dict(toks=toks, **extra)),
                                 _pstr_line(text), toks)
                            if (ids_s is None) != (ids_m is None) or (ids_s is not None and ids_s != ids_m):
                                fails.append("find_jobs(%r) selects %s, the mapping %r selects %s" % (text, line_s, want, line_m))
            elif kind == "cursor":
                flt = it["filter"]
                try:
                    cursor = project.find_jobs(flt)
                    ids = [j.id for j in cursor]
                except Exception as e:  # noqa
                    tags.append("cursor-err=" + exc_name(e))
                    continue
                n = len(ids)
                prng = random.Random(it["seed"])
                ops = [["len"]] + [["get", i] for i in range(-n - 2, n + 2)]
                bounds = [None, 0, 1, -1, n, n + 1, -n, -n - 1, 2, -2]
                for _ in range(8):
                    ops.append(["slice", prng.choice(bounds), prng.choice(bounds), prng.choice([None, 1, 2, -1, -2, 3, 0])])
                foreign = project.open_job({"zz_not_there": 1})
                ops += [["in", i] for i in order] + [["in", foreign.id]]
                answers = []
                for op in ops:
                    try:
                        if op[0] == "len":
                            a = str(len(cursor))
                            if int(a) != n:
                                fails.append("len(cursor) = %s but iteration yields %d jobs" % (a, n))
                        elif op[0] == "get":
                            a = cursor[op[1]].id
                        elif op[0] == "slice":
                            a = "[" + ",".join(j.id for j in cursor[op[1]:op[2]:op[3]]) + "]"
                        else:
                            job = foreign if op[1] == foreign.id else project.open_job(id=op[1])
                            a = "T" if job in cursor else "F"
                    except Exception as e:  # noqa
                        a = exc_name(e)
                    answers.append(a)
                    # list semantics, independent of the model
                    if op[0] == "get":
                        try:
                            w = ids[op[1]]
                        except IndexError:
                            w = "IndexError"
                        if a != w:
                            fails.append("cursor[%d] gives %s, the id list gives %s" % (op[1], a, w))
                    elif op[0] == "slice":
                        try:
                            w = "[" + ",".join(ids[op[1]:op[2]:op[3]]) + "]"
                        except ValueError:
                            w = "ValueError"
                        if a != w:
                            fails.append("cursor[%r:%r:%r] gives %s, the id list gives %s" % (op[1], op[2], op[3], a, w))
                        elif w != "ValueError":
                            # whatever a slice is (iterator or cursor), it answers membership and - if it has one - len()
                            # for the SLICED jobs, not for the cursor it was cut from
                            want_ids = ids[op[1]:op[2]:op[3]]
                            for i in order[:6] + [foreign.id]:
                                job = foreign if i == foreign.id else project.open_job(id=i)
                                try:
                                    got_in = job in cursor[op[1]:op[2]:op[3]]
                                except Exception as e:  # noqa: BLE001
                                    got_in = exc_name(e)
                                if got_in != (i in want_ids):
                                    fails.append("(job %s in cursor[%r:%r:%r]) is %s, the sliced id list %s it" % (
                                        i, op[1], op[2], op[3], got_in, "holds" if i in want_ids else "does not hold"))
                            try:
                                got_len = len(cursor[op[1]:op[2]:op[3]])
                            except TypeError:
                                got_len = None
                            if got_len is not None and got_len != len(want_ids):
                                fails.append("len(cursor[%r:%r:%r]) = %d, the slice yields %d jobs" % (
                                    op[1], op[2], op[3], got_len, len(want_ids)))
                    elif op[0] == "in":
                        w = "T" if op[1] in ids else "F"
                        if a != w:
                            fails.append("(job %s in cursor) is %s, its id %s in the id list" % (op[1], a, "is" if w == "T" else "is not"))
                if [j.id for j in cursor] != ids:
                    fails.append("iterating the cursor twice gives different ids")
                # the same questions to cursors that have not been iterated yet
                try:
                    fresh_len = len(project.find_jobs(flt))
                    if fresh_len != n:
                        fails.append("len() of a fresh cursor of %r is %d, iterating it yields %d jobs" % (flt, fresh_len, n))
                    for i in order + [foreign.id]:
                        job = foreign if i == foreign.id else project.open_job(id=i)
                        if (job in project.find_jobs(flt)) != (i in ids):
                            fails.append("(job %s in fresh cursor of %r) disagrees with iterating it" % (i, flt))
                    if n:
                        k = prng.randrange(-n, n)
                        fresh = project.find_jobs(flt)
                        first = fresh[k].id
                        if [j.id for j in fresh][k] != first:
                            fails.append("fresh cursor[%d] of %r is not the job iteration puts there" % (k, flt))
                except Exception as e:  # noqa
                    fails.append("fresh cursor of %r raises %s" % (flt, exc_name(e)))
                if len(set(ids)) != len(ids):
                    fails.append("cursor yields an id twice: %s" % ids)
                emit("cursor " + enc_val({"ids": ids, "ops": ops}), " ".join(answers), {"cursor": flt})
                acc, _ = qc.oracle_set(listing, flt) if flt else (set(order), None)
                if acc is not None and set(ids) != acc:
                    fails.append("cursor of %r yields %s, per-job evaluation accepts %s" % (flt, sorted(ids), sorted(acc)))
                cls = qc.known_class_of(listing, flt) if flt else None
            elif kind == "group":
                flt, key, default = it["filter"], it["key"], it["default"]
                callable_key = isinstance(key, str) and key.startswith("call:")
                if callable_key:
                    kf = (lambda job: len(job.cached_statepoint)) if key == "call:a" else (lambda job: job.id[:1])
                    real_key, default = kf, None
                else:
                    real_key = tuple(key) if isinstance(key, list) else key
                try:
                    with warnings.catch_warnings():
                        warnings.simplefilter("ignore")
                        raw = [(k, [j.id for j in g]) for k, g in project.find_jobs(flt).groupby(real_key, default)]
                        got = [(qc.plain(k), m) for k, m in raw]
                        if isinstance(real_key, str):
                            # one key: the label is the members' own value, a JSON value - a list stays a list
                            # (a tuple is the label form of SEVERAL keys and is != the list)
                            for k, m in raw:
                                if isinstance(k, tuple):
                                    fails.append("groupby(%r): the group of %s is labelled with the tuple %r; the members' "
                                                 "own value is the list %r" % (key, m, k, list(k)))
                    gline = "ok " + ";".join(qc.canon_label(k) + "=" + ",".join(sorted(m, key=pos.get)) for k, m in got)
                except Exception as e:  # noqa
                    got, gline = None, "err " + exc_name(e)
                tags.append("group=" + ("callable" if callable_key else "tuple" if isinstance(key, list) else
                                         "id" if key is None else "nested" if _nested_key(key) else "flat")
                            + ("+default" if default is not None else "") + "/" + gline.split(" ")[0])
                acc, _ = qc.oracle_set(listing, flt) if flt else (set(order), None)
                if acc is None:
                    continue
                # brute force: every selected job's own label
                if callable_key:
                    own = {i: (len(data[i][0]) if key == "call:a" else i[:1]) for i in acc}
                else:
                    own = {i: _own_label(i, data[i][0], data[i][1], key, default) for i in acc}
                own = {i: v for i, v in own.items() if v is not _NOVAL}
                orderable = _orderable(list(own.values()))
                if not callable_key and orderable:
                    emit("groupby " + qc.payload(listing, flt, {"keys": key, "default": default}), gline,
                         {"groupby": key, "default": default, "filter": flt})
                if got is None:
                    if not (gline == "err TypeError" and not orderable):
                        fails.append("groupby(%r, default=%r) on find_jobs(%r) raises %s; own labels %s"
                                     % (key, default, flt, gline[4:], sorted(own.items())))
                else:
                    members = [i for _, m in got for i in m]
                    if len(set(members)) != len(members):
                        fails.append("groupby(%r): a job is in two groups: %s" % (key, got))
                    if set(members) != set(own):
                        fails.append("groupby(%r, default=%r) on find_jobs(%r) groups %s, the selected jobs having the key are %s"
                                     % (key, default, flt, sorted(members), sorted(own)))
                    for lab, m in got:
                        for i in m:
                            if i in own and not (own[i] == lab):
                                fails.append("groupby(%r): job %s has value %r but sits in the group labelled %r"
                                             % (key, i, own[i], lab))
                    labs = [lab for lab, _ in got]
                    for x, y in itertools.combinations(range(len(labs)), 2):
                        if labs[x] == labs[y]:
                            fails.append("groupby(%r): two groups carry the label %r" % (key, labs[x]))
                cls = cls or (qc.known_class_of(listing, flt) if flt else None)
            if fails:
                oracle += fails
                fail_classes.append(cls)
    finally:
        ctx.cleanup(d)
    key = json.dumps([jobs, items], sort_keys=True) if listing else None
    return {"model": model, "impl": impl, "oracle": oracle, "tags": tags, "key": key,
            "fail_classes": fail_classes, "dbg": dbg}


def _pstr_line(text):
    """dict(parse_filter(text)) of the running code, as the driver renders it"""
    from signac.filterparse import parse_filter

    with contextlib.redirect_stderr(io.StringIO()):
        try:
            return "ok " + enc_val(dict(parse_filter(text)))
        except Exception as e:  # noqa
            return "err " + exc_name(e)


def known_class(case, result):
    """F-6a as in C06, for the filters involved.  A case is explained only if every failing item is
    in that class."""
    cl = result.get("fail_classes") or []
    if not cl or any(c is None for c in cl):
        return None
    return cl[0]


LEVEL_TEXT = ("Proved in Lean: (spellings) find_jobs and the reference evaluator see a filter only through its flattened "
              "normal form, so any two spellings with the same normal form select the same jobs and raise the same "
              "exceptions on every corpus (spellings_same_result); the rewriting rules nested<->dotted, operator as "
              "nested mapping<->key suffix, namespace as mapping preserve the normal form, also in the context of other "
              "entries and below logical operators (nested_eq_dotted, op_suffix_eq_nested, namespace_as_mapping, "
              "spelling_in_context); the sp. prefix is optional (sp_prefix_optional). (command line) signac find "
              "evaluates the mapping the tokens parse to (cli_eq_mapping); key/value, lone key, '!', whole-JSON tokens "
              "denote the documented mappings (cli_pair, cli_exists, cli_json) with int()/float()/json.loads as "
              "parameters; an int token and a float token of one integer value are the same query (cli_int_eq_float). "
              "(cursor) len, indexing from both ends incl. IndexError, full slice, zero step, slice membership and 'in' "
              "describe the cursor's id list (cursor_consistent). (groupby) the groups' members are a permutation of the "
              "ids the pre-filter selects - hence pairwise disjoint and exhaustive for distinct ids - and every member's "
              "own value for the key is the group's label or == to it (groupby_partition, groupby_disjoint, "
              "groupby_prefilter), and two different groups never carry == labels (groupby_labels_distinct: on mutually "
              "orderable labels Python's < is a total preorder whose equivalence is ==, so sorting makes == labels "
              "adjacent). Every front end is compared with the real parse_filter_arg / find_jobs(str|mapping) "
              "/ _find_job_ids / JobsCursor / groupby on real projects.")
LEVEL_NOTE = ("Trusted: Lean kernel; axioms propext/Classical.choice/Quot.sound; harness, tables of CPython results "
              "(int, float, json.loads, re.search, math.isclose), brute-force oracles (spelling agreement on the real "
              "code, Python list semantics for the cursor, partition by each job's own value for groupby). groupby_labels_distinct assumes mappings with distinct keys (Python dicts); the statement for "
              "repeated-key association lists stays a Prop (groupby_labels_distinct_full). Not proved: "
              "general slices other than [:] are compared in the correspondence (every index, sampled slices with "
              "negative/zero steps) and only their membership is proved; callable grouping keys are oracle-only; "
              "argparse is not exercised. groupby resolves dotted keys through sub-mappings and strips only a real sp./doc. "
              "prefix (F-7, fixed in /repo); the model has the same rule and nested-key groupings take part in the diff "
              "like any other. Selection "
              "exactness of the groups rests on C06's theorem for the pre-filter.")

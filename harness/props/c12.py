"""C12 — concurrent processes initialise jobs and write documents without corruption (DESIGN §4 C12).

A case is a set of actor scripts over the property's alphabet, an initial workspace and either one
concrete schedule ("sched"), a seeded batch of random schedules ("random") or the directive to
explore ALL schedules of the real code with sleep-set reduction ("explore").  Every executed
schedule is run on the REAL signac (forked actors under harness/sched.py), judged by the direct
oracle, and replayed step by step in the compiled Lean model (trace, final tree, exits).
"""
import hashlib
import itertools
import json
import os
import random
import shutil
import tempfile

from harness import faultfs, sched
from harness.core import enc_val

ID = "C12"
TITLE = "Concurrent processes initialise jobs and write documents without corruption"
LEAN_MODULE = "Signac.Properties.C12"
DRIVER = "drv_conc"
DESIGN_REF = "DESIGN.md §4 C12, §2.4"
RULE = ("a case = actor scripts over {Project(); open_job(sp).init(); job.doc[k]=v; job.doc(); len(project)} "
        "(same job, same id with different key order, different jobs; 2 or 3 actors) + an initial workspace "
        "(no workspace directory / empty / populated with and without documents) + a scheduling directive; "
        "2-actor script sets are explored over ALL schedules of the real code at file-system-primitive "
        "granularity with sleep-set reduction (independent = disjoint paths), capped per case in the quick tier "
        "and complemented by seeded random schedules; 3-actor sets are sampled.  Every executed schedule counts "
        "three model lines (trace, final tree, exits).  Plus 22 sequential 'ctx' scenarios (oracle only): inside the "
        "loop bodies of groupby / iteration / find_jobs cursors and inside `with job:`, a document write that returned "
        "is on disk for another process and a write another process completed is seen by the next read.  distinct = distinct (scripts, initial state, directive); "
        "non-trivial = at least two actors touch a common path")
MODELLED = [
    "atomicity of each file-system primitive (isdir/isfile/exists/mkdir/open+read/open-for-write/write/close/"
    "rename/listdir) with respect to the others; os.replace is an atomic rename",
    "uuid4 temp-file names never collide (temp names carry the actor index in the model)",
    "CPython os.makedirs(exist_ok=True) = exists(parent); mkdir; on EEXIST isdir (modelled from its source, "
    "exercised by the stepper)",
    "synced_collections JSON backend: load = open+read (ENOENT => empty), save = temp file + os.replace "
    "(modelled from its source, exercised)",
    "reads of .signac/config, exists('.') and the ENOENT read of the state point cache are not modelled "
    "(no actor of the alphabet writes there; the harness checks they stay read-only)",
    "hash: the Lean theorems take the id function as a parameter; the driver instantiates it with the Lean calcId",
]
ASSUMPTIONS = [
    "local POSIX file system semantics (no NFS), processes not threads, no crash during the run",
    "each job document has at most one writing process (the property speaks of documents of different jobs); "
    "any number of readers",
    "the initial workspace is valid (every job directory holds a complete state point file)",
    "every actor uses a fresh job handle per operation and its own Project instance",
]
EXHAUSTIVE = {"quick": False, "thorough": False}

SP_FILE = "signac_statepoint.json"
DOC_FILE = "signac_job_document.json"
WS = "workspace"


def ref_id(sp):
    return hashlib.md5(json.dumps(sp, sort_keys=True).encode()).hexdigest()


# ----------------------------------------------------------------------------
# cases
# ----------------------------------------------------------------------------
J1 = {"a": 1}
J2 = {"a": 2}
JX = {"a": 1, "b": {"c": "x", "d": [1, 2]}}
JX2 = {"b": {"d": [1, 2], "c": "x"}, "a": 1}      # same id as JX, other key order

EMPTY = {"ws": True, "jobs": []}
NOWS = {"ws": False, "jobs": []}


def pop(*jobs):
    return {"ws": True, "jobs": [{"sp": sp, "doc": doc} for sp, doc in jobs]}


def script_sets_2():
    """(name, init, scripts) for two actors; every document has at most one writer."""
    i1, i2 = ["init", J1], ["init", J2]
    return [
        ("init-same/nows", NOWS, [[i1], [i1]]),
        ("init-same/empty", EMPTY, [[i1], [i1]]),
        ("init-same/populated", pop((J1, None)), [[i1], [i1]]),
        ("init-diff/nows", NOWS, [[i1], [i2]]),
        ("init-diff/empty", EMPTY, [[i1], [i2]]),
        ("init-spelling/empty", EMPTY, [[["init", JX]], [["init", JX2]]]),
        ("set-get/empty", EMPTY, [[["set", J1, "k", 1]], [["get", J1]]]),
        ("set-get/populated", pop((J1, {"k": 0, "z": "old"})), [[["set", J1, "k", 1]], [["get", J1]]]),
        ("set2-get2/populated", pop((J1, {"k": 0})),
         [[["set", J1, "k", 1], ["set", J1, "m", "v"]], [["get", J1], ["get", J1]]]),
        ("set-set-diff/empty", EMPTY, [[["set", J1, "k", 1]], [["set", J2, "k", 2]]]),
        ("set-set-diff/populated", pop((J1, {"k": 0}), (J2, None)), [[["set", J1, "k", 1]], [["set", J2, "k", 2]]]),
        ("init-len/empty", EMPTY, [[i1], [["len"]]]),
        ("init-len/populated", pop((J2, None)), [[i1], [["len"], ["len"]]]),
        ("init-set/empty", EMPTY, [[i1], [["set", J1, "k", 1]]]),
        ("init-get/empty", EMPTY, [[i1], [["get", J1]]]),
        ("initset-initget/empty", EMPTY, [[i1, ["set", J1, "k", 1]], [i1, ["get", J1]]]),
        ("project-project/nows", NOWS, [[], []]),
        ("project-len/nows", NOWS, [[["len"]], [["project"], ["len"]]]),
        ("init2-init2/empty", EMPTY, [[i1, i2], [i2, i1]]),
        ("set-len-get/populated", pop((J1, {"k": 0})), [[["set", J1, "k", 5], ["len"]], [["get", J1], i2]]),
        # whole-document assignment: ONE write (Op.docAssign of the model; reads_see_boundaries)
        ("assign-get/populated", pop((J1, {"k": 0, "z": "old"})), [[["assign", J1, {"k": 1, "n": {"q": [1]}}]], [["get", J1], ["get", J1]]]),
        ("assign-get/empty", EMPTY, [[["assign", J1, {"k": 1}]], [["get", J1]]]),
        # outside the property's domain (two writers of ONE document, updates can be lost): only the
        # correspondence and the schedule-independent clauses of the oracle are judged
        ("2writers-same-doc/populated", pop((J1, {"k": 0})), [[["set", J1, "a", 1]], [["set", J1, "b", 2]]]),
        ("2writers-same-doc/empty", EMPTY, [[["set", J1, "a", 1]], [["set", J1, "b", 2], ["get", J1]]]),
    ]


def script_sets_3():
    i1, i2 = ["init", J1], ["init", J2]
    return [
        ("3:init-same/nows", NOWS, [[i1], [i1], [i1]]),
        ("3:init-same-set-get/empty", EMPTY, [[i1], [["set", J1, "k", 1]], [["get", J1]]]),
        ("3:init-mixed/empty", EMPTY, [[i1, i2], [i2], [["init", JX], ["len"]]]),
        ("3:spelling-set-get/empty", EMPTY, [[["init", JX]], [["set", JX2, "q", "w"]], [["get", JX], ["len"]]]),
        ("3:walk-while-init/empty", EMPTY, [[["init", J1]], [["iter"], ["set", J2, "k", 1]], [["iter"], ["get", J2]]]),
        ("3:docs/populated", pop((J1, {"k": 0}), (J2, {"k": 0})),
         [[["set", J1, "k", 1], ["get", J2]], [["set", J2, "k", 2], ["get", J1]], [["get", J1], ["get", J2], ["len"]]]),
    ]


def rand_scripts(rng, n_actors):
    """Random scripts over a pool of 3 state points; every document gets at most one writer."""
    pool = [J1, J2, JX]
    spell = {0: [J1], 1: [J2], 2: [JX, JX2]}
    writer = {j: rng.randrange(n_actors) for j in range(3)}
    scripts = []
    for a in range(n_actors):
        ops = []
        for _ in range(rng.choice([1, 1, 2, 2, 3])):
            j = rng.randrange(3 if rng.random() < 0.4 else 2)
            sp = rng.choice(spell[j])
            r = rng.random()
            if r < 0.35:
                ops.append(["init", sp])
            elif r < 0.6 and writer[j] == a:
                ops.append(["set", sp, rng.choice(["k", "m"]), rng.choice([1, 2, "s", [1, "t"], {"n": 3}])])
            elif r < 0.85:
                ops.append(["get", sp])
            elif r < 0.95:
                ops.append([rng.choice(["len", "iter"])])
            else:
                ops.append(["project"])
        scripts.append(ops)
    m = rng.random()
    if m < 0.25:
        init = NOWS
    elif m < 0.5:
        init = EMPTY
    else:
        jobs = []
        for j in range(3):
            if rng.random() < 0.5:
                jobs.append((pool[j], rng.choice([None, {"k": 0}, {"k": 0, "old": [1]}])))
        init = pop(*jobs)
    return init, scripts


def rand_schedule(rng, n_actors, length=120):
    """Random schedule with a random context-switch rate (bursty to fine-grained)."""
    p_switch = rng.choice([0.08, 0.2, 0.5, 0.9])
    cur = rng.randrange(n_actors)
    out = []
    for _ in range(length):
        if rng.random() < p_switch:
            cur = rng.randrange(n_actors)
        out.append(cur)
    return out


def prefixes(n_actors, k):
    return [list(p) for p in itertools.product(range(n_actors), repeat=k)]


def generate(tier, rng):
    quick = tier == "quick"
    for name, init, scripts in script_sets_2():
        # all schedules, spread over 2^k sub-trees (one case each) so that the workers share the load
        for pre in prefixes(2, 3 if quick else 5):
            yield {"name": name, "mode": "explore", "init": init, "scripts": scripts, "prefix": pre,
                   "limit": 40 if quick else 260}
        yield {"name": name, "mode": "random", "init": init, "scripts": scripts,
               "seed": rng.randrange(1 << 30), "count": 12 if quick else 80}
    for name, init, scripts in script_sets_3():
        yield {"name": name, "mode": "random", "init": init, "scripts": scripts,
               "seed": rng.randrange(1 << 30), "count": 30 if quick else 300}
        for pre in prefixes(3, 2):
            yield {"name": name, "mode": "explore", "init": init, "scripts": scripts, "prefix": pre,
                   "limit": 12 if quick else 120}
    for cx in CONTEXTS:
        for flavour in ("docs", "nodocs"):
            yield {"name": "ctx:" + cx, "mode": "ctx", "context": cx, "flavour": flavour,
                   "init": EMPTY, "scripts": [[["set", J1, "done", 1]], [["get", J1]]]}
    for i in range(40 if quick else 300):
        n = 2 if i % 2 == 0 else 3
        init, scripts = rand_scripts(rng, n)
        yield {"name": "rand%d" % n, "mode": "random", "init": init, "scripts": scripts,
               "seed": rng.randrange(1 << 30), "count": 6 if quick else 15}
        if n == 2 and (not quick or i % 4 == 0):
            yield {"name": "rand2", "mode": "explore", "init": init, "scripts": scripts,
                   "limit": 30 if quick else 160}


def search(rng, deadline):
    while True:
        n = rng.choice([2, 2, 3])
        init, scripts = rand_scripts(rng, n)
        yield {"name": "search%d" % n, "mode": "random", "init": init, "scripts": scripts,
               "seed": rng.randrange(1 << 30), "count": 6}


# ----------------------------------------------------------------------------
# running one schedule on the real code
# ----------------------------------------------------------------------------
_TEMPLATE = {}


def _config_bytes():
    """Content of a project's config as the installed signac writes it (once per process)."""
    if "cfg" not in _TEMPLATE:
        import signac
        d = tempfile.mkdtemp(prefix="c12tpl_", dir="/dev/shm" if os.path.isdir("/dev/shm") else None)
        try:
            signac.init_project(d)
            with open(os.path.join(d, ".signac", "config"), "rb") as f:
                _TEMPLATE["cfg"] = f.read()
        finally:
            shutil.rmtree(d, ignore_errors=True)
    return _TEMPLATE["cfg"]


def make_tree(d, init):
    """Initial project: config as signac writes it; workspace entries written directly."""
    os.makedirs(os.path.join(d, ".signac"))
    with open(os.path.join(d, ".signac", "config"), "wb") as f:
        f.write(_config_bytes())
    if init["ws"]:
        os.mkdir(os.path.join(d, WS))
    for job in init["jobs"]:
        jd = os.path.join(d, WS, ref_id(job["sp"]))
        os.mkdir(jd)
        with open(os.path.join(jd, SP_FILE), "w") as f:
            f.write(json.dumps(job["sp"]))
        if job.get("doc") is not None:
            with open(os.path.join(jd, DOC_FILE), "w") as f:
                f.write(json.dumps(job["doc"]))


def plain(x):
    if hasattr(x, "items"):
        return {k: plain(v) for k, v in x.items()}
    if isinstance(x, (list, tuple)):
        return [plain(v) for v in x]
    return x


def make_actor(d, script):
    def actor():
        import signac
        obs = []
        try:
            p = signac.Project(d)
            for op in script:
                if op[0] == "init":
                    p.open_job(op[1]).init()
                elif op[0] == "set":
                    p.open_job(op[1]).doc[op[2]] = op[3]
                elif op[0] == "assign":      # whole-document assignment: ONE logical write
                    p.open_job(op[1]).doc = op[2]
                elif op[0] == "get":
                    obs.append(["doc", plain(p.open_job(op[1]).doc())])
                elif op[0] == "len":
                    obs.append(["count", len(p)])
                elif op[0] == "iter":
                    # walk the project (as a worker that looks for its own jobs does); the handles are lazy: jobs that
                    # another process is creating right now must not make the walk fail.  Same listing step as len().
                    obs.append(["count", len([job.id for job in p])])
                elif op[0] == "project":
                    p = signac.Project(d)
                else:
                    raise ValueError(op)
        except BaseException as e:  # noqa: B902
            e.partial_obs = obs
            raise
        return obs
    return actor


READ_ONLY = ("isfile", "isdir", "exists", "islink", "stat", "read")


def is_silent(step):
    kind, paths = step
    p = paths[0]
    return kind in READ_ONLY and (p == "." or p == ".signac" or p.startswith(".signac/"))


def with_silent(chooser):
    """Steps on never-written environment paths are granted at once and are not part of a schedule."""
    def choose(pending, res):
        for a in sorted(pending):
            if is_silent(pending[a]):
                return a
        vis = _VisibleView(res)
        return chooser(pending, vis)
    return choose


class _VisibleView:
    def __init__(self, res):
        self.trace = [t for t in res.trace if not is_silent((t[1], t[2]))]


def cval(x):
    return enc_val(x).replace(" ", ",")


def content_str(blob):
    if isinstance(blob, str):
        return blob  # errno name
    try:
        return cval(json.loads(blob.decode("utf-8")))
    except Exception:
        return "TORN"


def step_str(t):
    a, kind, paths, res, payload = t
    if kind == "read":
        r = content_str(res)
    elif kind == "listdir" and isinstance(res, list):
        r = "[" + ",".join(res) + "]"
    else:
        r = res
    parts = [str(a), kind] + list(paths) + [r]
    if kind == "write":
        parts.append(content_str(payload))
    return "|".join(parts)


def tree_lines(d):
    out = []
    wsd = os.path.join(d, WS)
    if not os.path.isdir(wsd):
        return out
    out.append(WS + "=D")
    for dp, dns, fns in os.walk(wsd):
        rel = os.path.relpath(dp, d)
        for x in dns:
            out.append(os.path.join(rel, x) + "=D")
        for x in fns:
            with open(os.path.join(dp, x), "rb") as f:
                blob = f.read()
            out.append(faultfs.canon_name(os.path.join(rel, x)) + "=F:" + content_str(blob))
    return sorted(out)


def exit_str(ex):
    head = "ok" if ex["status"] == "ok" else ex["status"]
    parts = [head]
    for o in ex.get("obs") or []:
        parts.append("doc:" + cval(o[1]) if o[0] == "doc" else "count:%d" % o[1])
    return "/".join(parts)


def case_wire(case, schedule):
    init, scripts = case["init"], case["scripts"]
    ts = ["ws", "1" if init["ws"] else "0", "jobs", str(len(init["jobs"]))]
    for job in init["jobs"]:
        ts += ["J", enc_val(job["sp"])]
        ts += ["D0"] if job.get("doc") is None else ["D1", enc_val(job["doc"])]
        ts += ["P1"]
    ts += ["actors", str(len(scripts))]
    for ops in scripts:
        ts += ["ops", str(len(ops))]
        for op in ops:
            if op[0] in ("init", "get"):
                ts += [op[0], enc_val(op[1])]
            elif op[0] == "set":
                ts += ["set", enc_val(op[1]), "S" + op[2].encode().hex(), enc_val(op[3])]
            elif op[0] == "assign":
                ts += ["assign", enc_val(op[1]), enc_val(op[2])]
            elif op[0] == "iter":
                ts += ["len"]       # for the model: the same single listing step
            else:
                ts += [op[0]]
    ts += ["sched", str(len(schedule))] + [str(a) for a in schedule]
    return " ".join(ts)


# ----------------------------------------------------------------------------
# the direct oracle: the property itself, on the real run (no Lean involved)
# ----------------------------------------------------------------------------
def job_ops(scripts):
    """(actor, op index, op) of every operation that names a state point."""
    for a, ops in enumerate(scripts):
        for n, op in enumerate(ops):
            if op[0] in ("init", "set", "get", "assign"):
                yield a, n, op


def sequential_outcomes(case):
    """Documents after running the actors one after another, for every order of the actors."""
    outs = []
    n = len(case["scripts"])
    for perm in itertools.permutations(range(n)):
        docs = {ref_id(j["sp"]): (dict(j["doc"]) if j.get("doc") is not None else None) for j in case["init"]["jobs"]}
        for a in perm:
            for op in case["scripts"][a]:
                if op[0] in ("init", "get", "set", "assign"):
                    docs.setdefault(ref_id(op[1]), None)
                if op[0] == "assign":
                    docs[ref_id(op[1])] = dict(op[2])
                if op[0] == "set":
                    i = ref_id(op[1])
                    cur = docs[i] if docs[i] is not None else {}
                    cur[op[2]] = op[3]
                    docs[i] = cur
        if docs not in outs:
            outs.append(docs)
    return outs


def oracle(case, d, res, trace, label):
    fails = []
    scripts = case["scripts"]

    def fail(msg):
        fails.append("%s: %s" % (label, msg))

    if res.error:
        fail("run did not complete (%s)" % res.error)
    # every process completes without error
    for a in range(len(scripts)):
        ex = res.exits.get(a, {})
        if ex.get("status") != "ok" or ex.get("code") != 0:
            fail("actor %d (%s) ended with %s, exit code %s: %s" % (
                a, json.dumps(scripts[a]), ex.get("status"), ex.get("code"),
                (ex.get("tb") or "").strip().split("\n")[-1][:160]))
    # no process ever observes a torn state point or document; what a read sees is what the last
    # completed replace installed (a completed write is seen by every later read)
    shadow = {}
    for job in case["init"]["jobs"]:
        i = ref_id(job["sp"])
        shadow[os.path.join(WS, i, SP_FILE)] = job["sp"]
        if job.get("doc") is not None:
            shadow[os.path.join(WS, i, DOC_FILE)] = job["doc"]
    tmp_payload = {}
    reads_of = {}
    for pos, (a, kind, paths, r, payload) in enumerate(trace):
        p = paths[0]
        base = os.path.basename(p)
        if kind == "write":
            tmp_payload[(a, p)] = tmp_payload.get((a, p), b"") + (payload or b"")
            if base in (SP_FILE, DOC_FILE):
                shadow[p] = "?"   # written in place: only what readers observe is judged
        elif kind == "openw":
            tmp_payload[(a, p)] = b""
            if base in (SP_FILE, DOC_FILE):
                shadow[p] = "?"
        elif kind == "rename" and r == "ok":
            blob = tmp_payload.pop((a, p), None)
            try:
                shadow[paths[1]] = json.loads(blob.decode()) if blob is not None else "?"
            except Exception:
                shadow[paths[1]] = "?"
        elif kind == "remove" and r == "ok":
            shadow.pop(p, None)
        elif kind == "read" and base in (SP_FILE, DOC_FILE):
            if isinstance(r, bytes):
                try:
                    v = json.loads(r.decode("utf-8"))
                    if not isinstance(v, dict):
                        raise ValueError
                except Exception:
                    fail("step %d: actor %d read torn content %r from %s" % (pos, a, r[:40], p))
                    continue
                if base == SP_FILE and ref_id(v) != os.path.basename(os.path.dirname(p)):
                    fail("step %d: actor %d read a state point from %s that does not hash to the directory" % (pos, a, p))
                if p in shadow and shadow[p] != "?" and v != shadow[p]:
                    fail("step %d: actor %d read %s = %s although the last completed replace installed %s"
                         % (pos, a, p, json.dumps(v), json.dumps(shadow[p])))
                reads_of.setdefault((a, p), []).append(v)
            elif r == "ENOENT":
                if p in shadow:
                    fail("step %d: actor %d found %s missing after it had been installed" % (pos, a, p))
                reads_of.setdefault((a, p), []).append({} if base == DOC_FILE else None)
            else:
                fail("step %d: actor %d: read of %s failed with %s" % (pos, a, p, r))
    # a document with ONE writer only ever shows a value that writer produced at an operation boundary: the
    # initial value, or the value after its 1st, 2nd, ... completed write (a whole-document assignment is one
    # write: no reader may see an in-between state such as the emptied document)
    wr = {}
    for a_, ops_ in enumerate(scripts):
        for op_ in ops_:
            if op_[0] in ("set", "assign"):
                wr.setdefault(ref_id(op_[1]), set()).add(a_)
    for i_, ws_ in wr.items():
        if len(ws_) != 1:
            continue
        a_ = next(iter(ws_))
        init_doc = next((dict(j["doc"]) for j in case["init"]["jobs"] if ref_id(j["sp"]) == i_ and j.get("doc") is not None), {})
        bounds, cur = [dict(init_doc)], dict(init_doc)
        for op_ in scripts[a_]:
            if op_[0] == "set" and ref_id(op_[1]) == i_:
                cur = dict(cur)
                cur[op_[2]] = op_[3]
                bounds.append(cur)
            elif op_[0] == "assign" and ref_id(op_[1]) == i_:
                cur = dict(op_[2])
                bounds.append(cur)
        p_ = os.path.join(WS, i_, DOC_FILE)
        for (ra, rp), vals in reads_of.items():
            if rp != p_:
                continue
            for v_ in vals:
                if (v_ or {}) not in bounds:
                    fail("actor %d read document %s = %s, which its single writer (actor %d) never produced at an operation "
                         "boundary %s" % (ra, i_[:8], json.dumps(v_), a_, json.dumps(bounds)))
    # a `job.doc()` hands back exactly what its own read of the file saw (never a stale copy)
    for a, ops in enumerate(scripts):
        obs = list(res.exits.get(a, {}).get("obs") or [])
        gets = [op for op in ops if op[0] in ("get", "len", "iter")]
        seen = {}
        for op, o in zip(gets, obs):
            if op[0] == "get":
                p = os.path.join(WS, ref_id(op[1]), DOC_FILE)
                k = seen.get(p, 0)
                rs = reads_of.get((a, p), [])
                sets_before = 0
                # reads of this actor on p in program order: one per get and one per set
                idx = 0
                for op2 in ops:
                    if op2 is op:
                        break
                    if op2[0] in ("get", "set") and os.path.join(WS, ref_id(op2[1]), DOC_FILE) == p:
                        idx += 1
                if idx >= len(rs):
                    fail("actor %d: job.doc() returned %s without reading %s" % (a, json.dumps(o[1]), p))
                elif rs[idx] != o[1]:
                    fail("actor %d: job.doc() returned %s, the file read gave %s" % (a, json.dumps(o[1]), json.dumps(rs[idx])))
                seen[p] = k + 1
                del sets_before
            else:
                lo = len(case["init"]["jobs"])
                hi = len({ref_id(j["sp"]) for j in case["init"]["jobs"]} | {ref_id(op3[1]) for _, _, op3 in job_ops(scripts)})
                if not (lo <= o[1] <= hi):
                    fail("actor %d: len(project) = %d outside [%d, %d]" % (a, o[1], lo, hi))
    if res.error:
        return fails
    # afterwards: check() passes, exactly the requested jobs, content of some sequential execution
    try:
        import signac
        fresh = signac.Project(d)
        try:
            fresh.check()
        except Exception as e:
            fail("fresh Project.check() raised %s: %s" % (type(e).__name__, str(e)[:120]))
        got_ids = sorted(os.listdir(os.path.join(d, WS)))
        want = {ref_id(j["sp"]): j["sp"] for j in case["init"]["jobs"]}
        spell = {}
        for _, _, op in job_ops(scripts):
            want.setdefault(ref_id(op[1]), op[1])
            spell.setdefault(ref_id(op[1]), []).append(op[1])
        if got_ids != sorted(want):
            fail("workspace holds %s, requested %s" % (got_ids, sorted(want)))
        final_docs = {}
        for i in got_ids:
            jd = os.path.join(d, WS, i)
            names = sorted(os.listdir(jd))
            extra = [n for n in names if n not in (SP_FILE, DOC_FILE)]
            if extra:
                fail("job %s holds unexpected entries %s" % (i, extra))
            try:
                with open(os.path.join(jd, SP_FILE), "rb") as f:
                    spv = json.loads(f.read().decode())
                if ref_id(spv) != i:
                    fail("state point file of %s hashes to %s" % (i, ref_id(spv)))
                elif i in want and spv != want[i]:
                    fail("state point file of %s holds %s" % (i, json.dumps(spv)))
            except Exception as e:
                fail("state point file of %s unreadable: %s" % (i, type(e).__name__))
            dp = os.path.join(jd, DOC_FILE)
            if os.path.exists(dp):
                try:
                    with open(dp, "rb") as f:
                        final_docs[i] = json.loads(f.read().decode())
                except Exception as e:
                    fail("document of %s unreadable: %s" % (i, type(e).__name__))
                    final_docs[i] = "?"
            else:
                final_docs[i] = None
        outs = sequential_outcomes(case)

        def same(x, y):  # a missing document file and an empty document are the same document
            return (x or {}) == (y or {})
        writers = {}
        for a_, ops_ in enumerate(scripts):
            for op_ in ops_:
                if op_[0] in ("set", "assign"):
                    writers.setdefault(ref_id(op_[1]), set()).add(a_)
        multi = {i for i, w in writers.items() if len(w) > 1}   # not covered by the property
        if not any(set(o) == set(final_docs) and all(same(o[i], final_docs[i]) for i in o if i not in multi)
                   for o in outs):
            fail("documents %s are not the outcome of any sequential order of the actors %s"
                 % (json.dumps(final_docs, sort_keys=True), json.dumps(outs, sort_keys=True)[:300]))
        # the same through the API of a fresh process-like session
        for i in got_ids:
            try:
                j = fresh.open_job(id=i)
                if ref_id(plain(j.statepoint())) != i:
                    fail("fresh open_job(id=%s).statepoint() hashes elsewhere" % i)
                dd = plain(j.doc())
                if not same(dd, final_docs.get(i)):
                    fail("fresh job.doc() of %s = %s, file holds %s" % (i, json.dumps(dd), json.dumps(final_docs.get(i))))
            except Exception as e:
                fail("fresh open_job(id=%s) failed: %s" % (i, type(e).__name__))
    except Exception as e:  # the oracle itself must not hide a failure
        fail("final inspection failed: %s: %s" % (type(e).__name__, e))
    return fails


# ----------------------------------------------------------------------------
# writes and reads performed INSIDE the library's iteration contexts (loop bodies of groupby / find_jobs /
# iteration, `with job:`): a write that has returned is on disk for every other process, and a write another
# process has completed is seen by the next read - the library must not keep a hidden buffered mode switched on
# while control is with the caller.  The "other process" is played by raw file access in the formats signac uses
# (read = json.load of the document file; write = temp file + os.replace).  Oracle only (no model lines).
# ----------------------------------------------------------------------------
CONTEXTS = ["groupby-doc", "groupby-sp", "groupby-mixed", "groupby-callable", "cursor-groupby-doc", "groupbydoc",
            "iterate", "find-doc-filter", "find-sp-filter", "with-job", "plain"]


def _ctx_iter(p, cx, signac):
    if cx == "groupby-doc":
        return p.groupby("doc.x")
    if cx == "groupby-sp":
        return p.groupby("a")
    if cx == "groupby-mixed":
        return p.groupby(["a", "doc.x"])
    if cx == "groupby-callable":
        return p.groupby(lambda job: job.doc.get("x", -1))
    if cx == "cursor-groupby-doc":
        return p.find_jobs({"a": {"$exists": True}}).groupby("doc.x", default=-1)
    if cx == "groupbydoc":
        return p.find_jobs().groupby("doc.x", default=-1)
    if cx == "iterate":
        return iter(p)
    if cx == "find-doc-filter":
        return iter(p.find_jobs({"doc.x": {"$exists": True}}))
    if cx == "find-sp-filter":
        return iter(p.find_jobs({"a": {"$gt": 0}}))
    return None


def run_ctx(case, base):
    import signac
    fails = []
    d = tempfile.mkdtemp(prefix="x", dir=base)
    docs = {1: {"x": 0, "old": [1]}, 2: {"x": 1}, 3: {"x": 0}}
    init = {"ws": True, "jobs": [{"sp": {"a": n}, "doc": dict(docs[n]) if (case["flavour"] == "docs" or n != 3) else None}
                                 for n in (1, 2, 3)]}
    make_tree(d, init)
    p = signac.Project(d)
    cx = case["context"]
    label = "ctx %s/%s" % (cx, case["flavour"])

    def docfile(n):
        return os.path.join(d, WS, ref_id({"a": n}), DOC_FILE)

    def raw_read(n):
        try:
            with open(docfile(n), "rb") as f:
                return json.loads(f.read())
        except FileNotFoundError:
            return None

    def raw_write(n, doc):
        tmp = os.path.join(os.path.dirname(docfile(n)), "._other_process_tmp")
        with open(tmp, "w") as f:
            f.write(json.dumps(doc))
        os.replace(tmp, docfile(n))

    expect = {n: (dict(j["doc"]) if j["doc"] is not None else None) for n, j in zip((1, 2, 3), init["jobs"])}
    rounds = [0]

    def body(handles):
        """One pass of the caller's loop body: own write -> visible outside; outside write -> visible inside."""
        r = rounds[0]
        rounds[0] += 1
        n_w, n_r = (1, 2) if r % 2 == 0 else (2, 1)
        # (i) a write of this process, through a fresh handle and through the handles the context handed out
        for how, job in [("fresh", p.open_job({"a": n_w}))] + [("yielded", j) for j in handles if plain(j.statepoint()) == {"a": n_w}]:
            key = "w%d%s" % (r, how[0])
            job.doc[key] = r
            expect[n_w] = dict(expect[n_w] or {}, **{key: r})
            got = raw_read(n_w)
            if got != expect[n_w]:
                fails.append("%s: a document write through a %s handle returned inside the context, but the file holds %s "
                             "(expected %s): a later read in another process does not see the completed write"
                             % (label, how, json.dumps(got, sort_keys=True), json.dumps(expect[n_w], sort_keys=True)))
        # (ii) a write completed by another process, then reads in this one
        expect[n_r] = dict(expect[n_r] or {}, **{"ext%d" % r: [r]})
        raw_write(n_r, expect[n_r])
        for how, job in [("fresh", p.open_job({"a": n_r}))] + [("yielded", j) for j in handles if plain(j.statepoint()) == {"a": n_r}]:
            got = plain(job.doc())
            if got != expect[n_r]:
                fails.append("%s: another process completed a document write, a later read through a %s handle inside the "
                             "context returned %s (the file holds %s)"
                             % (label, how, json.dumps(got, sort_keys=True), json.dumps(expect[n_r], sort_keys=True)))

    try:
        held = []
        if cx == "plain":
            body([])
        elif cx == "with-job":
            cwd = os.getcwd()
            try:
                j = p.open_job({"a": 1})
                with j:
                    body([j])
            finally:
                os.chdir(cwd)
        else:
            for item in _ctx_iter(p, cx, signac):
                handles = list(item[1]) if isinstance(item, tuple) else [item]
                held += handles
                body(held)
        body(held)     # after the context has ended
        if signac.is_buffered():
            fails.append("%s: buffered mode is still switched on after the context ended" % label)
    except Exception as e:  # noqa: BLE001
        fails.append("%s: %s: %s" % (label, type(e).__name__, str(e)[:200]))
    for n in (1, 2, 3):
        got = raw_read(n)
        if got != expect[n] and not (got in (None, {}) and expect[n] in (None, {})):
            fails.append("%s: final document of job a=%d is %s, expected %s" % (label, n, json.dumps(got, sort_keys=True),
                                                                             json.dumps(expect[n], sort_keys=True)))
    shutil.rmtree(d, ignore_errors=True)
    return fails


# ----------------------------------------------------------------------------
# one run = one schedule
# ----------------------------------------------------------------------------
def one_run(case, base, chooser, tags):
    """Fresh tree, fresh actors, run under `chooser`; returns (RunResult, visible trace, dir)."""
    d = tempfile.mkdtemp(prefix="r", dir=base)
    make_tree(d, case["init"])
    fns = [make_actor(d, s) for s in case["scripts"]]
    res = sched.run(fns, with_silent(chooser), d, timeout=30.0)
    trace = [t for t in res.trace if not is_silent((t[1], t[2]))]
    return res, trace, d


def judge(case, res, trace, d, out, label):
    schedule = [t[0] for t in trace]
    line = case_wire(case, schedule)
    out["model"] += ["trace " + line, "final " + line, "exits " + line]
    out["impl"] += [";".join(step_str(t) for t in trace), ";".join(tree_lines(d)),
                    ";".join(exit_str(res.exits.get(a, {"status": "missing"})) for a in range(len(case["scripts"])))]
    fails = oracle(case, d, res, trace, label + " schedule=" + json.dumps(schedule, separators=(",", ":")))
    out["oracle"] += fails
    if fails and "failing_schedule" not in out:
        out["failing_schedule"] = schedule
    # distribution
    kinds = set()
    for a, kind, paths, r, _ in trace:
        if kind == "mkdir" and r == "EEXIST":
            kinds.add("race:mkdir-EEXIST")
        if kind == "isfile" and r == "T" and paths[0].endswith(SP_FILE):
            kinds.add("race-or-present:save-skipped")
        if kind == "read" and paths[0].endswith(DOC_FILE) and isinstance(r, bytes):
            kinds.add("doc-read-present")
    switches = sum(1 for x, y in zip(schedule, schedule[1:]) if x != y)
    kinds.add("switches=%s" % ("0" if switches == 0 else "1-3" if switches <= 3 else "4-9" if switches <= 9 else "10+"))
    return kinds, schedule


def run_case(case, ctx):
    base = ctx.fresh_dir("c12")
    out = {"model": [], "impl": [], "oracle": [], "tags": [], "key": None}
    tagset = set()
    n_sched = 0
    try:
        mode = case["mode"]
        if mode == "sched":
            res, trace, d = one_run(case, base, sched.schedule_chooser(case["sched"]), tagset)
            k, _ = judge(case, res, trace, d, out, "sched")
            tagset |= k
            shutil.rmtree(d, ignore_errors=True)
            n_sched = 1
        elif mode == "random":
            rng = random.Random(case["seed"])
            seen = set()
            for _ in range(case["count"]):
                s = rand_schedule(rng, len(case["scripts"]))
                res, trace, d = one_run(case, base, sched.schedule_chooser(s), tagset)
                eff = tuple(t[0] for t in trace)
                if eff not in seen:
                    seen.add(eff)
                    k, _ = judge(case, res, trace, d, out, "random")
                    tagset |= k
                    n_sched += 1
                shutil.rmtree(d, ignore_errors=True)
        elif mode == "explore":
            holder = {}

            def run_once(chooser):
                res, trace, d = one_run(case, base, chooser, tagset)
                holder["last"] = (res, trace, d)
                return res
            # the explorer's chooser sees only visible steps
            gen_ = sched.explore(run_once, limit=case.get("limit"), reduce=case.get("reduce", True),
                                 prefix=case.get("prefix", ()))
            for res, complete in gen_:
                _, trace, d = holder["last"]
                if complete:
                    k, _ = judge(case, res, trace, d, out, "explore")
                    tagset |= k
                    n_sched += 1
                shutil.rmtree(d, ignore_errors=True)
            st = sched.explore.last_stats
            tagset.add("explore:invalid-prefix" if st["invalid_prefix"] else
                       "explore:exhausted" if st["exhausted"] else "explore:capped")
            if st["blocked"]:
                tagset.add("explore:sleep-blocked-runs")
            if st["nondeterministic"]:
                out["oracle"].append("explore: the pending steps differed between two runs of the same schedule prefix "
                                     "(real code not deterministic under the stepper)")
        elif mode == "ctx":
            out["oracle"] += run_ctx(case, base)
            tagset.add("ctx:" + case["context"])
            n_sched = 1
        else:
            raise ValueError(mode)
    finally:
        ctx.cleanup(base)
    if case["mode"] == "ctx":
        out["tags"] = sorted(tagset) + ["mode=ctx"]
        out["key"] = json.dumps([case["context"], case["flavour"]])
        out["n_schedules"] = 1
        return out
    n_act = len(case["scripts"])
    shared = False
    ids = [{ref_id(op[1]) for op in ops if op[0] in ("init", "set", "get")} for ops in case["scripts"]]
    for x, y in itertools.combinations(range(n_act), 2):
        if ids[x] & ids[y] or not case["init"]["ws"] or any(op[0] in ("len", "iter") for op in case["scripts"][x] + case["scripts"][y]):
            shared = True
    out["tags"] = sorted(tagset) + ["mode=" + case["mode"], "actors=%d" % n_act,
                                    "init=" + ("nows" if not case["init"]["ws"] else "populated" if case["init"]["jobs"] else "empty"),
                                    "schedules=%s" % ("0" if n_sched == 0 else "1" if n_sched == 1 else "2-5" if n_sched <= 5
                                                      else "6-20" if n_sched <= 20 else "21-100" if n_sched <= 100 else "100+")]
    out["key"] = json.dumps([case["scripts"], case["init"], case["mode"], case.get("sched"), case.get("seed"),
                             case.get("prefix")],
                            sort_keys=True) if shared else None
    out["n_schedules"] = n_sched
    return out


# ----------------------------------------------------------------------------
# shrinking: first a concrete schedule, then fewer operations / actors
# ----------------------------------------------------------------------------
def _first_failing_schedule(case):
    from harness.core import Ctx, scratch_root
    root = scratch_root()
    try:
        r = run_case(case, Ctx(root))
        return r.get("failing_schedule")
    finally:
        shutil.rmtree(root, ignore_errors=True)


def shrink(case):
    if case["mode"] == "ctx":
        return
    if case["mode"] != "sched":
        s = _first_failing_schedule(case)
        if s is not None:
            yield {"name": case.get("name", ""), "mode": "sched", "init": case["init"], "scripts": case["scripts"], "sched": s}
        return
    scripts, s = case["scripts"], case["sched"]
    # drop one operation
    for a, ops in enumerate(scripts):
        for n in range(len(ops)):
            ns = [list(o) for o in scripts]
            del ns[a][n]
            yield dict(case, scripts=ns)
    # drop a trailing actor with an empty script
    if len(scripts) > 2 and not scripts[-1]:
        yield dict(case, scripts=scripts[:-1], sched=[x for x in s if x != len(scripts) - 1])
    # simpler initial state
    if case["init"]["jobs"]:
        for n in range(len(case["init"]["jobs"])):
            jobs = list(case["init"]["jobs"])
            del jobs[n]
            yield dict(case, init={"ws": True, "jobs": jobs})
    # fewer context switches: let one actor run on a little longer
    for pos in range(len(s) - 1):
        if s[pos] != s[pos + 1]:
            t = list(s)
            t[pos + 1] = s[pos]
            yield dict(case, sched=t)
    # shorter schedule tail (the rest completes sequentially)
    if s:
        yield dict(case, sched=s[:-1])


TECHNIQUE = ("Lean 4 theorems about a step-level model of the actors (induction over ALL schedules, any number of "
             "actors) + correspondence of the compiled model with REAL signac processes driven through a "
             "file-system schedule stepper (exhaustive with sleep sets for 2 actors, sampled for 3)")
LEVEL_TEXT = (
    "Proved in Lean for ANY number of processes, ANY scripts over the alphabet and ANY schedule (induction over the "
    "schedule, case analysis on the program counter), with the job-id function as a parameter: the invariant SysInv "
    "(every state point file present is complete and hashes to its directory, every document file is a complete "
    "object, temp files are empty-or-complete and private to the saving actor, no actor has met an exception) is "
    "preserved by every step and holds initially (sys_inv_step, sys_inv_all_schedules, sys_inv_initially); hence no "
    "actor ever fails (no_actor_fails: mkdir races, save-if-absent and the validating re-load of init all succeed), "
    "no read ever returns torn content (no_torn_read, published_files_valid), temp files are private (tmp_private), "
    "published files and directories are never removed (published_monotone), a completed write is seen by every "
    "later read until another save of the same file completes (write_visible); the alphabet includes the whole-document "
    "assignment `job.doc = mapping` (Op.docAssign: lazy init, then ONE temp-file + rename write, no load), and every "
    "value any actor ever reads from a single-writer document - the reads of doc() as well as the internal loads of "
    "doc[k] = x - is an OPERATION BOUNDARY value of that writer: the initial document or the document after its first n "
    "completed writes (reads_see_boundaries, published_is_boundary, read_returns_boundary): no reader sees an "
    "in-between state such as an emptied document.  For completed runs from a valid "
    "workspace: no temp file is left (final_no_tmp), every job directory holds a valid state point file, i.e. "
    "check() passes (final_check_passes), the job set is exactly the requested one and every single-writer document "
    "is the initial document with the writer's assignments applied in program order (final_closed_form), the "
    "sequential schedule always completes (sequential_schedule_completes, termination by a variant) and the final "
    "abstract workspace equals the one it produces (final_is_sequential).  Without the single-writer hypothesis the "
    "claim is false (not_docs_schedule_independent_full: lost update, concrete witness).  The compiled model is "
    "replayed against REAL signac processes stepped at file-system-primitive granularity: all schedules with "
    "sleep-set reduction for 2-actor script sets (capped per sub-tree; the evidence says how many sub-trees were "
    "exhausted), sampled schedules for 3 actors; per schedule the step trace of every actor (primitive, path, "
    "result, payload), the final tree and every exit status / value handed back are compared.")
LEVEL_NOTE = (
    "Trusted: Lean kernel; axioms propext/Classical.choice/Quot.sound; harness/sched.py (wrappers around open/os.*, "
    "pipes, sleep sets) and the direct oracle in harness/props/c12.py.  Assumed, not proved: each file-system "
    "primitive is atomic w.r.t. the others and os.replace is an atomic rename (local POSIX semantics, no NFS); "
    "open-for-read + read is one step; uuid4 temp names never collide (temp names carry the actor index in the "
    "model); CPython's os.makedirs and the synced_collections JSON backend are modelled from their source and "
    "exercised, not verified; reads of .signac/config and of the (absent) state point cache are not modelled; every "
    "operation uses a fresh job handle; no crashes (C11), no threads, no sub-primitive interleavings.  The theorems "
    "about final states need a valid initial workspace and at most one writing process per document (the "
    "property's own domain); state point files are compared up to key order (which process's spelling wins is "
    "schedule dependent).  Exhaustiveness: the quick tier caps every exploration, so it is a sample; the thorough "
    "tier exhausts the smaller script sets only.")
